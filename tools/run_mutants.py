#!/usr/bin/env python3
"""tools/run_mutants.py [name-substring ...]: for every patch in /verif/mutants (the revert of each "fix:" commit, plus a few
hand-written changes) apply it to /repo, run the quick tier of the owning check (the Cxx prefix of the file name), undo it, and
record in mutants/RESULTS.json whether the check raised a VIOLATION.  /repo must be clean; nothing else may run meanwhile."""
import glob, json, os, subprocess, sys, time
V = "/verif"
sel = sys.argv[1:]
assert subprocess.run(["git", "-C", "/repo", "status", "--porcelain", "--untracked-files=no"], capture_output=True, text=True).stdout.strip() == "", "/repo not clean"
out = os.path.join(V, "mutants", "RESULTS.json")
res = json.load(open(out)) if os.path.exists(out) else {}
head = subprocess.run(["git", "-C", "/repo", "rev-parse", "--short", "HEAD"], capture_output=True, text=True).stdout.strip()
for p in sorted(glob.glob(os.path.join(V, "mutants", "*.diff"))):
    name = os.path.basename(p)[:-5]
    if sel and not any(s in name for s in sel):
        continue
    chk = name.split("_", 1)[0]
    if subprocess.run(["git", "-C", "/repo", "apply", "--check", p], capture_output=True).returncode != 0:
        res[name] = {"repo": head, "applies": False}
        print(name, "DOES NOT APPLY", flush=True)
        continue
    subprocess.run(["git", "-C", "/repo", "apply", p], check=True)
    t0 = time.time()
    try:
        r = subprocess.run(["./check", chk, "--tier", "quick"], cwd=V, capture_output=True, text=True)
    finally:
        subprocess.run(["git", "-C", "/repo", "checkout", "--", "."], check=True)
    lines = r.stdout.splitlines()
    viol = any(l.startswith("VIOLATION property=" + chk) for l in lines)
    first = next((l[:300] for l in lines if l.startswith("  case=")), "")
    res[name] = {"repo": head, "applies": True, "check": chk, "exit": r.returncode, "violation": viol, "first": first, "wall_s": round(time.time() - t0, 1)}
    print(name, "exit", r.returncode, "VIOLATION" if viol else "MISSED", flush=True)
    json.dump(res, open(out, "w"), indent=1, sort_keys=True)
json.dump(res, open(out, "w"), indent=1, sort_keys=True)
