#!/usr/bin/env python3
"""tools/mktable.py: rewrites the block between <!-- NUMBERS-BEGIN --> and <!-- NUMBERS-END --> in DESIGN.md from the
evidence files of the last runs (one row per check: tier, TLC states, traces validated, evaluations, drift, known findings hit, wall)."""
import glob, json, os, re
V = os.path.dirname(os.path.dirname(os.path.abspath(__file__)))
rows = []
for f in sorted(glob.glob(os.path.join(V, "evidence", "C*.json"))):
    d = json.load(open(f))
    c = d["coverage"]
    kf = ", ".join(f"{k['class']} ({k['cases']})" for k in c.get("known_findings_hit", [])) or "-"
    runs = "; ".join(f"{r['name']} {r['distinct']}" for r in c.get("tlc_runs", []))
    rows.append(f"| {d['property_id']} | {d.get('tier', '')} | {c.get('states', 0)} | {c.get('traces_validated_against_impl', 0)} | {c.get('evaluations', 0)} | "
                f"{c.get('distinct_nontrivial', 0)} | {c.get('drift', 0)} | {kf} | {d.get('wall_s', '')} | {runs} |")
block = ("<!-- NUMBERS-BEGIN -->\n| id | tier | TLC distinct states (all runs) | events / cases validated by TLC against the implementation | evaluations | non-trivial | drift | known findings hit (cases) | wall s | TLC runs (distinct states) |\n"
         "|---|---|---|---|---|---|---|---|---|---|\n" + "\n".join(rows) + "\n<!-- NUMBERS-END -->")
p = os.path.join(V, "DESIGN.md")
s = open(p).read()
if "<!-- NUMBERS-BEGIN -->" in s:
    s = re.sub(r"<!-- NUMBERS-BEGIN -->.*?<!-- NUMBERS-END -->", lambda m: block, s, flags=re.S)
else:
    raise SystemExit("markers missing")
open(p, "w").write(s)
print("table rewritten,", len(rows), "rows")
