#!/usr/bin/env python3
"""tools/try_seed.py <seeded-dir> <check> [<check>...]: apply the seeded patch to /repo, run the named checks (quick tier),
undo the patch, and record which checks raised a VIOLATION in <seeded-dir>/result.json."""
import json, os, subprocess, sys, time
d = sys.argv[1]
checks = sys.argv[2:]
patch = os.path.abspath(os.path.join(d, "patch.diff"))
assert subprocess.run(["git", "-C", "/repo", "status", "--porcelain", "--untracked-files=no"], capture_output=True, text=True).stdout.strip() == "", "/repo not clean"
subprocess.run(["git", "-C", "/repo", "apply", patch], check=True)
res = {}
try:
    for c in checks:
        t0 = time.time()
        r = subprocess.run(["./check", c, "--tier", "quick"], cwd="/verif", capture_output=True, text=True)
        lines = r.stdout.splitlines()
        viol = [l for l in lines if l.startswith("VIOLATION")]
        detail = [l for l in lines if l.startswith("  case=")][:3]
        drift = [l for l in lines if l.startswith("SPEC-DRIFT")][-1:]
        res[c] = {"exit": r.returncode, "violation": bool(viol), "first_details": detail, "drift": drift, "wall_s": round(time.time() - t0, 1),
                  "tail": lines[-1:] }
        print(c, "exit", r.returncode, "VIOLATION" if viol else "-", detail[:1], drift)
finally:
    subprocess.run(["git", "-C", "/repo", "checkout", "--", "."], check=True)
out = os.path.join(d, "result.json")
old = json.load(open(out)) if os.path.exists(out) else {}
old.update(res)
json.dump(old, open(out, "w"), indent=1)
