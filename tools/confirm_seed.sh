#!/bin/bash
# confirm_seed.sh <worktree> : confirms that (1) the existing tests pass with the patch, (2) the demo fails with and passes without it
WT=$1
cd $WT || exit 2
git apply -R --check patch.diff 2>/dev/null || { echo "patch not applied in worktree; applying"; git apply patch.diff || exit 2; }
T1=$(cargo test --workspace --offline 2>&1 | grep -E "^test result" | grep -v " 0 failed" | wc -l); E1=${PIPESTATUS[0]}
cargo test --workspace --offline >/tmp/wt/confirm.log 2>&1; R1=$?
cargo test --workspace --offline --features unimock >>/tmp/wt/confirm.log 2>&1; R2=$?
DEMO=$(python3 -c "import json;print(json.load(open('meta.json'))['demo'])" 2>/dev/null | head -c 300)
echo "tests: plain=$R1 unimock=$R2"
echo "demo: $DEMO"
