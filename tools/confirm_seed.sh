#!/bin/bash
# confirm_seed.sh <worktree> <SEED-ID> [demo command]: confirms in the scratch worktree that (1) the existing tests pass with
# the patch, (2) the demo fails with and passes without it; then stores patch.diff, demo/ (without build output) and
# meta.json under /verif/seeded/<SEED-ID>/ with a "confirmed" block.
WT=$1; ID=$2; CMD=${3:-"cargo run --offline"}
cd $WT || exit 2
git apply -R --check patch.diff 2>/dev/null || { echo "patch not applied in worktree; applying"; git apply patch.diff || exit 2; }
cargo test --workspace --offline >/tmp/wt/confirm.log 2>&1; R1=$?
cargo test --offline --features unimock >>/tmp/wt/confirm.log 2>&1; R2=$?
(cd demo && touch src/*.rs && eval "$CMD" >/tmp/wt/demo_with.log 2>&1); D1=$?
git apply -R patch.diff
(cd demo && touch src/*.rs && eval "$CMD" >/tmp/wt/demo_without.log 2>&1); D2=$?
git apply patch.diff
echo "tests: plain=$R1 unimock=$R2  demo: with=$D1 without=$D2"
[ $R1 = 0 ] && [ $R2 = 0 ] && [ $D1 != 0 ] && [ $D2 = 0 ] || { echo NOT-CONFIRMED; exit 1; }
mkdir -p /verif/seeded/$ID
cp patch.diff /verif/seeded/$ID/
rsync -a --exclude target demo /verif/seeded/$ID/
python3 - "$ID" "$CMD" "$(git rev-parse --short HEAD)" <<'PY'
import json, sys
sid, cmd, head = sys.argv[1:4]
m = json.load(open("meta.json"))
m["origin"] = "independent sub-agent (second round: told which ideas were already used) given only the property text and a scratch worktree"
m["confirmed"] = {"base": head, "existing_tests_pass": "cargo test --workspace --offline and cargo test --offline --features unimock: exit 0 with the patch (re-run by the main session in the scratch worktree)",
                  "demo_cmd": cmd, "demo_with_patch": "fails", "demo_without_patch": "passes",
                  "demo_with_tail": open("/tmp/wt/demo_with.log").read()[-600:], "demo_without_tail": open("/tmp/wt/demo_without.log").read()[-200:]}
json.dump(m, open(f"/verif/seeded/{sid}/meta.json", "w"), indent=1)
PY
echo CONFIRMED $ID
