"""development driver: validate the pipeline model against the repository's suite (and optionally a dump file)"""
import os, sys
sys.path.insert(0, os.path.dirname(os.path.dirname(os.path.abspath(__file__))))
from lib import vf, suite, expand

chk = vf.Check("EXPDEV")
if len(sys.argv) > 1:
    recs = vf.project(sys.argv[1], os.path.join(chk.work, "obs.ndjson"))
else:
    sd = suite.build_suite(chk.work, os.path.join(chk.work, "suitedump"))
    recs = vf.project(sd, os.path.join(chk.work, "suite-obs.ndjson"))
st = expand.validate(chk, recs, "dev", max_report=int(os.environ.get("N", "6")))
print(st)
