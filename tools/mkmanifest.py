#!/usr/bin/env python3
"""Regenerates /verif/MANIFEST.json from the table below (keeps it valid at all times)."""
import json, os
V = os.path.dirname(os.path.dirname(os.path.abspath(__file__)))
props = [json.loads(l) for l in open(os.path.join(V, "properties.jsonl"))]

# property -> (level text, level note, technique, design_ref)
CLAIMED = {
 "C03": ("TLC (MC_C03) runs every signature of the supported class (16 442 inputs: deps named generic / impl Trait / concrete / none, passed by "
         "&, &'a or value; up to two further parameters owned, &T, &'a T, generic with inline or where bound, impl Trait, [u8; N]; lifetime "
         "where-predicate; const generic; sync/async; unsafe / extern \"C\"; return unit, owned, borrowed from deps or argument, generic; fn, module of "
         "one or two functions with different or equal generic names, static / dyn impl block) through generics collection - a shared accumulator, "
         "one AnalyzeFn step per function - and signature conversion (SigConv.tla) and checks the static-semantics-lite of the emitted trait / impls "
         "(no name declared twice, none on trait and method, no method lifetime in the trait's where-clause). Each replayed signature is expanded "
         "by the real macro and compiled; a witness coerces the function and the generated trait method to ONE fn-pointer type written from the "
         "original signature (async: both futures' Output ascribed); TLC (Trace_C03) judges rustc's verdicts and compares them with the prediction.",
         "quick replays a TLC RandomSubset of 2 500 signatures (seeded by VERIF_SEED), thorough all; rustc decides type / borrow / lifetime checking; one design limitation (equal generic names in two module functions) is a known finding",
         "TLA+ model of generics collection and signature conversion checked by TLC + replay with fn-pointer / Output compile witnesses validated by TLC",
         "7/C03"),
 "C19": ("TLC (MC_C19) tags every name the generator refers to with how it is written (absolute path; method call resolved through the prelude "
         "or a where-clause bound; the macro's own parameters; user tokens; third-party output) and resolves the references one by one against every "
         "scope variant - nothing may be captured. Eleven programs (one per input mode / delegation kind) are rendered into each variant (clean; "
         "each of 15 names shadowed by a local item; all shadowed; generated trait named Send / Sync; #![no_std] library), invoked by absolute path "
         "in modules that import nothing, expanded by the real macro, compiled and run; TLC (Trace_C19) requires every variant to compile and to "
         "give the same run-time result and the same trait availability as the clean-scope run of the same program.",
         "409 (program, variant) points quick, ~5 000 with the pairs of the thorough tier, all replayed; rustc's name resolution is the oracle; async_trait's own bare `Box` is third party; mock derivations (unimock/mockall output) are not covered",
         "TLA+ reference/shadowing model checked by TLC + exhaustive replay in hostile scopes with TLC comparing verdicts, results and availability against the clean run",
         "7/C19"),
 "C18": ("TLC (MC_C18) models the generator's attribute flow for every placement (fn, parameter, module fn, impl-block fn, trait method) x "
         "attribute kind (doc, lint, enabled / disabled cfg, tool attribute, inert built-in) x sync/async x deps/no_deps and checks Level 1 "
         "(Req!C18) on it. Every input is rendered with a marker attribute, expanded by the real macro and compiled; the projector locates the "
         "marker in the parsed expansion (user's item, generated traits / impls, their methods, parameters of generated signatures); TLC "
         "(Trace_C18) judges: stays on the original exactly once, not copied to generated items or methods (cfg on module / impl-block fns may "
         "guard the generated methods), parameter attributes stripped, trait-method attributes mirrored onto delegating methods, a cfg-disabled "
         "function leaves no dangling method (the program compiles).",
         "70 inputs, all replayed; attribute identity = canonical token text; a cfg directly on the annotated item is evaluated by rustc before the macro runs and is out of scope",
         "TLA+ attribute-flow model checked by TLC + replay with TLC validating projected attribute positions and compile verdicts",
         "7/C18"),
 "C12": ("TLC (MC_C12) models the async part of signature conversion (async and no async_trait => fn -> impl ::core::future::Future<Output = R> "
         "[+ Send], R = () when omitted, Send unless ?Send) and the re-application of async_trait to generated traits and impls over fn / mod / "
         "trait / impl-block inputs x five return shapes x ?Send, and checks Level 1 (Req!C12) on the model. Every input is rendered with three "
         "witnesses, expanded by the real macro and compiled: the future's Output ascribed to exactly the declared type and driven to completion, a "
         "generic caller requiring Send (must compile by default, must be rejected under ?Send), a body holding a !Send value across an await "
         "(must be rejected by default, accepted under ?Send). TLC (Trace_C12) judges these verdicts and the projected signature/attributes.",
         "46 inputs x 3 renderings, all replayed; rustc decides the witnesses; run-time equality of results for async fns is C01's part",
         "TLA+ model of async signature conversion checked by TLC + replay with positive and negative compile witnesses validated by TLC",
         "7/C12"),
 "C13": ("TLC (MC_C13) models where the generator puts the trait and with which visibility (fn: next to the function with the requested "
         "visibility; mod: inside the module as pub(super) or as requested plus `vis use m::T;`; trait: the delegation-target trait copies the "
         "trait's visibility) and checks that naming it from each probe location is possible iff the REQUESTED visibility allows it "
         "(Req!Accessible, transcribed from the Rust reference), independently of the item's own visibility. Every (input, location) is replayed: "
         "the item is expanded by the real macro inside a module tree (and a second crate for the other-crate location) and a `use` of the trait "
         "from the location is compiled; TLC (Trace_C13) compares rustc's verdicts (negative probes must fail with privacy errors only) and the "
         "emitted visibility tokens with the model.",
         "the lattice is finite and fully replayed (135 probes); rustc's privacy checker is the oracle for each probe; enclosing modules are pub",
         "TLA+ module-tree accessibility model checked by TLC + exhaustive replay of positive/negative `use` probes with TLC validating rustc's verdicts",
         "7/C13"),
 "C09": ("TLC (MC_C09) applies the stages analyze_trait -> gen_trait_def to every subset of 13 trait components under 8 trait-mode option sets "
         "(29 184 inputs) and checks that nothing the user wrote is lost except on three named deviation classes. The traits are expanded by the "
         "real macro; the projector parses the user's trait (hook input) and the emitted trait (hook output) with syn, independently of the macro, "
         "into component-wise normal forms; TLC (Trace_C09) compares them conjunct by conjunct (name, visibility, unsafety, generics, supertraits, "
         "where clause, attributes kept in order, only macro-owned attributes added, method attributes and signatures with the documented async "
         "rewrite and exact Output, default bodies, associated types) and compares the failing conjuncts with the model's prediction (zero drift).",
         "TLC: all component sets; replay: subsets of size <= 2 and >= 11 plus 1500 (quick) / 5 000 (thorough) seeded ones; three design limitations are recorded in known_findings.json (unsafe trait, default bodies, associated types)",
         "TLA+ model of the trait round trip checked by TLC + TLC trace validation comparing projected input and output traits of real expansions",
         "7/C09"),
 "C11": ("TLC (MC_C11) models the positional `unmock_with` list the generator attaches (f | f(args) | _ per method; none for entraited traits) and "
         "drives mock / partial / impl / partial-panics scenarios through the Level-1 machine (Runtime: own function, mock object as dependency, "
         "arguments in order; mock conjuncts: the answer function sees the caller's arguments in order, the configured answer is returned, the real "
         "function is not entered). Programs (fn, mod of 2..3 same-signature fns, entraited trait; generic / impl / no_deps / concrete deps; "
         "sync/async; same-typed and destructured parameters) are built with the real macro (unimock feature) and run against unimock 0.6.8; TLC "
         "(Trace_Runtime) validates the event logs, the equality of partial-mock and Impl<T> results, the expected 'cannot be unmocked' panics, and "
         "the mock API being nameable as Mk / m::Mk::f / Mk::f (the scenarios compile).",
         "bounded (<= 2 params quick, sampled; <= 3 thorough); unimock's own behaviour is trusted; generics in mocked signatures are not covered",
         "TLA+ model of the unmock_with wiring + call-stack machine checked by TLC; TLC trace validation of event logs from real binaries run against unimock",
         "7/C11"),
 "C05": ("TLC (MC_C05) models the two impls generated for a concrete-dependency function (impl Tr for C calling the function; nested trait-mode "
         "invocation giving impl<T: Tr + Sync + 'static> Tr for Impl<T> forwarding to T), checks availability through the Resolve fix-point against the "
         "statement (C, Impl<C>, App with a hand-written impl, Impl<App>, X, Impl<X>, a non-Sync App) and drives calls on C, Impl<C> (two hops) and "
         "Impl<App> (hand-written provider calling the function) through the Level-1 machine. Programs over 5 concrete type shapes x sync/async x "
         "owned / borrowed-from-deps / borrowed-from-argument returns x parameter lists are built with the real macro and run; TLC (Trace_Runtime) "
         "validates the event logs, the equality of results across the direct / C / Impl<C> / Impl<App> calls, and the availability matrix.",
         "bounded (<= 2 params quick, sampled; <= 3 thorough); the `&&'static T` spelling is outside the statement's shape list; by-value concrete deps belong to C03",
         "TLA+ impl-resolution fix-point + call-stack machine checked by TLC; TLC trace validation of event logs and availability matrices from real binaries",
         "7/C05"),
 "C14": ("TLC (MC_C14) walks call chains of depth 1..3 for each program kind (fn, mod, entraited trait with Self delegation, static dependency "
         "inversion; sync/async; innermost work of 0 or 1 allocation; plus a dynamic async_trait control) with Level 2's per-hop allocation cost and "
         "checks trait-path = direct-path allocations for static delegation. All programs are built with the real macro and run under a counting "
         "global allocator; TLC (Trace_Runtime) compares the paired allocation counts (same-allocations) and results, and judges the token scan of "
         "the generated items (no `dyn` / `Box` / alloc-type tokens unless dynamic dispatch was requested); measured counts equal the model's (zero drift).",
         "depth <= 3 (thorough <= 6); allocation = global-allocator alloc/realloc calls between measurement points after a warm-up call; token scan by the projector",
         "TLA+ allocation-cost model checked by TLC + TLC trace validation of measured allocation counts and generated-token scans from real binaries",
         "7/C14"),
 "C06": ("TLC (MC_C06) drives every abstract entraited-trait program (1..3 same-signature methods x parameter lists x sync / async fn / async_trait x "
         "Self / ref / Borrow x generic trait, where clause, generic method, supertrait, borrowed return) through TraitCall -> RunDelegatingBody "
         "(Level 2's call shape) -> provider body -> TraitRet against the guards of the Level-1 machine (Runtime), and compares Level 2's bounds on T "
         "with Req!C06_AvailReq for applications that provide / do not provide / are not Sync / are not Send. The programs are rendered with logging "
         "providers (impl Tr for App, AsRef<dyn Tr>, Borrow<dyn Tr>), built with the real macro and run; TLC (Trace_Runtime) validates forwarding "
         "(own provider, provider object identity, arguments in order, exactly once, result unchanged, lazy futures) and observed availability.",
         "bounded (<= 2 params quick, sampled per dimension combination; <= 3 and all thorough); logging providers; async_trait 0.1.92 as shipped",
         "TLA+ call-stack machine + modelled delegation call shapes model-checked by TLC; TLC trace validation of event logs and availability matrices from real binaries",
         "7/C06"),
 "C07": ("Same machinery as C06 for dependency inversion: abstract programs (1..2 same-signature methods x parameter lists x sync / async fn / async_trait "
         "x static (`delegate_by = DelegateTr`) / dyn (`delegate_by = ref`, `#[entrait(ref)] impl`) x 0..2 further dependency bounds exercised by nested "
         "calls) with two competing target types X1 / X2 and applications A->X1, B->X2, NoSel. TLC validates that every call on Impl<App> enters the "
         "function of the SELECTED target's block exactly once with the caller's &Impl<App> as dependency (address equality) and the arguments in order, "
         "that no other target's function occurs, that nested dependency calls reach their own functions, and that Impl<NoSel> lacks the trait.",
         "bounded as C06; targets are logging bodies; dyn selection returns a promoted &X constant",
         "TLA+ call-stack machine + modelled static/dynamic delegation shapes model-checked by TLC; TLC trace validation of event logs from real binaries",
         "7/C07"),
 "C04": ("TLC (MC_C04) enumerates every way of declaring 0..3 bounds on the dependency parameter of fn and 2-function mod inputs (inline, "
         "where, impl Trait, split, contributed by either function) x 6 mock settings x by-ref/by-value x feature; Level 2 is the generated impl "
         "header (self type by Opts!Mockable, parameter bounds, `Self:` where-clause over all functions) evaluated by the Resolve fix-point; the "
         "invariant Refines says availability = Req!C04_AvailReq for 14 probe types per case. Every case is expanded by the real macro, compiled "
         "and run; the binary reports `Type: Trait` for every (case, probe) and TLC (Trace_Runtime) compares with Level 1 (available-iff).",
         "bounded (<= 3 bounds, <= 2 functions; quick samples the module cases); availability observed by inherent-over-trait method resolution; 'static not probed at run time",
         "TLA+ model of the generated impl header + impl-resolution fix-point checked by TLC against the availability requirement; exhaustive replay with TLC validating observed availability matrices",
         "7/C04"),
 "C01": ("Runtime.tla is the Level-1 call-stack machine (TraitCall, FnEnter guarded by own-function / same-receiver / args-in-order / exactly-once, "
         "FnExit, TraitRet guarded by result-unchanged, lazy futures). TLC (MC_C01) drives it with Level 2's delegating body for every abstract "
         "fn/mod program (5 deps kinds x parameter lists of 6 kinds x sync/async x 5 option sets x 1..3 same-signature fns) and checks that no "
         "guard is violated. The programs are rendered with logging bodies, built with the real macro under both feature settings and run "
         "(direct-call, trait-call, dropped-future scenarios, seeded injective values); TLC (Trace_Runtime) accepts the recorded event log iff "
         "it is a behaviour of the Level-1 machine and trait-call results equal direct-call results.",
         "bounded (<= 2 params quick, <= 3 thorough; TLC explores all programs, the replay is a stratified seeded sample: 3 per (parameter list, dependency kind) group, 1 for the lists of length 3 of the thorough tier); logging bodies; identity = address or carried id",
         "TLA+ call-stack machine model-checked by TLC with the modelled delegating bodies + TLC trace validation of event logs recorded from real generated binaries",
         "7/C01"),
 "C20": ("Session.tla models the compiler session (memo of key -> output, processes with sequence numbers); TLC checks that the pure session "
         "satisfies Functional and that an impure one (a counter leaking into outputs) violates it (non-vacuity). The real macro is then run in "
         "K separate rustc processes over a corpus (every invocation twice per process, module order permuted, job counts, locale/TZ/env varied, "
         "plus the repository's suite twice); TLC replays the hook's records of all processes as one history (Trace_Session: each event must be "
         "an Invoke step, i.e. equal keys give equal outputs).",
         "4 processes x 2 orders quick, 16 x 8 thorough; keys/outputs are whole recorded token streams; hash seeds vary by process (std RandomState)",
         "TLA+ session model checked by TLC + TLC trace validation of multi-process expansion histories recorded from the real macro",
         "7/C20"),
 "C15": ("TLC drives every option list (well- and ill-formed, <= 2 tokens, all leads, trailing comma) on the four targets, 16 non-supported "
         "item kinds, every dependency-parameter shape (13 bases x 6 reference/paren wrappings) in fn/mod/impl-block mode with and without "
         "no_deps, and 280 trait shapes through the modelled front end (Opts, Sig) and checks NeverPanics and MisuseRejected (each documented "
         "misuse ends in its own error class). Every case is replayed through the real macro in real rustc; TLC judges the hook's record "
         "(panic flag, emitted tokens parse) and rustc's per-case diagnostics against Level 1 (Req!C15, key phrases) and the outcome class against the model.",
         "bounded domains as listed; diagnostic position observed as attribution to the case file; messages by key phrases; trusts rustc, TLC, projector",
         "TLA+ model of attribute parsing / item classification / dependency analysis checked by TLC for panic-freedom + exhaustive replay with TLC validating recorded outcomes and diagnostics",
         "7/C15"),
 "C17": ("TLC explores the attribute parser (Opts.tla: one ParseOneOpt step per option token, EndOfOpts, ApplyVariantFallbacks) over all "
         "well-formed option lists with distinct keys per target, both macro names and both feature settings, and checks that the effective "
         "options are constant on every metamorphic pair of the statement (bare=true, false=omitted, order, export-variant, unimock-feature) "
         "and that explicit values survive fallbacks. Every invocation of every pair is expanded by the real macro (feature-on and feature-off "
         "crates); TLC compares the recorded output token streams pairwise (Req!C17) and judges per-target acceptance of every single option token.",
         "bounded (<= 2 options quick / 3 thorough); acceptance table transcribed from src/lib.rs docs; token equality incl. spacing; trusts TLC, hook",
         "TLA+ model of the option parser + fallbacks checked by TLC for the metamorphic relations; exhaustive replay of all pairs through the real macro with TLC comparing recorded expansions",
         "7/C17"),
 "C10": ("TLC runs every point of the full lattice (648 points) through the modelled front end and mock-attribute decisions and checks Level 1 "
         "(Req!C10: which derivations are attached, gated iff not exporting, and what non-test / test builds contain). Every point is expanded by "
         "the real macro in a feature-on and a feature-off crate, each built and run both as binary (not(test)) and as test harness (cfg(test)); "
         "TLC validates the attribute list of the emitted trait and the observed presence of the unimock API / Unimock impl and the mockall struct in each build.",
         "the lattice is finite and fully enumerated; mock presence is observed through name resolution / trait-availability probes; feature-off points that name ::entrait::__unimock are observed at attribute level only",
         "TLA+ model of option fallbacks and mock-attribute emission model-checked over the whole lattice + exhaustive replay in 4 build configurations with TLC trace validation",
         "7/C10"),
 "C08": ("TLC explores the item-splitting cursor machine (Items.tla: BeginItem, ParseSigThenBodyOrSemi, ScanToBraceOrSemi, "
         "EatTrailingSemis) over every module body of up to N items from a 37-template catalogue with ground-truth labels and checks "
         "methods-found = ground truth; every body is expanded by the real macro, compiled with a parent-scope client that names the "
         "trait and calls every expected method, and run; TLC validates observed method lists, verdicts and call results against Level 1 "
         "(Req!C08), against the model's prediction, and the B3 round trip of the renderer.",
         "bounded (bodies <= 2 items quick / 3 thorough); catalogue = the item shapes considered; trusts rustc, TLC, projector",
         "TLA+ model of ModItem::parse checked by TLC against ground-truth labels + exhaustive replay through the real macro with TLC trace validation",
         "7/C08"),
 "C02": ("Design level: TLC shows the item splitter partitions every catalogue body (mod and impl) into consecutive non-empty chunks "
         "(lossless re-emission). Code level: TLC evaluates the token relations of Level 1 (Req!C02: fn prefix, opaque-body spacing, "
         "module prefix up to the matching closing brace, impl block kept beside) on the real input/output token streams recorded by "
         "the hook for every enumerated body, for seeded random fns/mods/impl blocks with rich attributes, qualifiers and token soups, "
         "and for every invocation of the repository's own test-suite. In addition TLC checks the end-to-end pipeline model (Expand.tla: attribute "
         "front end -> dependency analysis -> trait / impl generation for all four input modes) against nine structural invariants, and validates "
         "the shape of every recorded expansion of this check against that model (Trace_Expand; differences are reported as drift).",
         "token identity is kind+text (spacing hint only inside opaque fn bodies); spans/hygiene unobservable; random part seeded by VERIF_SEED",
         "TLC trace validation of recorded (input, output) token streams against Level-1 token relations + TLC model checking of the item splitter's losslessness",
         "7/C02"),
 "C16": ("TLC explores the parameter-renaming machine (Params.tla: Simplify, LiftInner, Autogenerate, FixIdentConflicts) over every "
         "pattern list up to the length bound and checks that it refines the Level-1 statement (Req!C16); every enumerated list is then "
         "expanded by the real macro inside rustc, compiled and run, and TLC validates the recorded observations (names, forwarding, "
         "verdict, run-time argument order) against Level 1 and against the model's prediction (zero drift = the model is the code on this domain).",
         "bounded (lists <= 2 quick / 3 thorough over 24 pattern symbols, 3 fn names, deps/no_deps); trusts rustc, TLC, the syn-based projector; pattern types are small fixed types",
         "TLA+ model of fn_params.rs checked by TLC (refinement to Level 1) + exhaustive replay of the enumerated cases through the real macro with TLC trace validation",
         "7/C16"),
}
PENDING = "check under construction in this session; not claimed until its TLA+ model, replay and trace validation exist"

m = json.load(open(os.path.join(V, "MANIFEST.json")))
m["checks"] = []
m["not_applicable"] = []
# domain extensions made after the texts above were written (defect-hunt rounds; each extension is what makes the revert of a
# "fix:" commit visible again - see mutants/RESULTS.json)
ADDENDA = {
 "C01": "Both tiers replay a stratified seeded sample of the model-checked family (3 programs per (parameter list, dependency kind) group, 1 for the lists of length 3 that the thorough tier adds).",
 "C02": "The corpus also has attribute lists (docs, lints, async_trait in first / middle / last position) on functions and modules: all of them stay in the order written, except async_trait, which the macro moves to what it generates.",
 "C04": "A further setting makes every function `async` (no mock option): the fixed requirement stays `T: Sync + 'static`, `Send` only for by-value dependencies.",
 "C06": "Extras include a type parameter with a relaxed bound (`trait Tr<K: ?Sized>`, provided and used at `Tr<str>`).",
 "C07": "Dynamic selection is replayed in both spellings, `delegate_by = ref` and the deprecated `delegate_by = Borrow`; in the latter the application also hands out the OTHER target through `AsRef`, which must never be reached.",
 "C09": "The replay is a seeded sample of the model-checked component sets in both tiers (quick 1 500, thorough 5 000, plus every set of size <= 2 and >= 11).",
 "C14": "Programs also return an opaque `impl Fn() -> u64` and enable the (test-gated) `mockall` derivation; thorough walks call chains up to depth 6.",
 "C20": "The corpus contains invocations that name each other's generated traits (`deps: &impl Ui`), the same invocation before and after the one it names, with different options on the named one.",
 "C08": "Bodies of <= 2 plain items are also replayed as macro-assembled twins: the same module built by a macro_rules! macro, every item an `$i:item` fragment (invisible groups), against the same ground truth.",
 "C11": "The model carries the cargo-feature dimension: with entrait's `unimock` feature off, unimock support comes from the `unimock` option alone (the client crate depends on unimock itself); Level 2 predicts that such programs cannot be compiled (`::entrait::__unimock` is missing) - the named deviation `unimock-option-without-feature`, a known finding. Parameter kinds include `&'l str` with an explicit lifetime parameter of the function (the parameter stays on the generated method; the unmock_with entry is still the function).",
 "C12": "Thorough adds return shapes (tuple, `Result<u8, String>`, `&'static str`). Modes also include an async_trait attribute below entrait on a function and on a module (it must move to the generated items and leave the annotated item), and by-value receivers of async trait methods (the Impl<T> moves into a future that must still be Send).",
 "C13": "Trait inputs are also rendered with an inner doc comment (the item is re-assembled by the macro); thorough adds `pub(self)` / `pub(in path)` on modules, `pub(super)` / `pub(in path)` on traits and exporting invocations with every visibility. For `delegate_by = DelegateTr` the generated delegation trait is probed as a third name (it must follow the entraited trait's visibility).",
 "C15": "Case kinds also include the trait path of an entraited impl block (plain, with a module prefix, with generic arguments - rejected with a diagnostic); the pipeline model (Expand.tla) has the corresponding ParseItem step.",
 "C16": "The model also covers the functions of entraited impl blocks (static and dynamic delegation targets), where the macro inserts its own `__impl` parameter in front of the user's: a fifth stage renames a user parameter of that name, generated `argN` indices count the inserted parameter, and Level 1's distinctness includes it.",
 "C17": "`?Send` is enumerated in its bare and `= true` / `= false` forms; the export-variant relation is also evaluated on traits, where it is the named deviation `export-variant-on-trait` (a known finding).",
 "C18": "Thorough renders every input also with an unrelated attribute before / after the marker. Attribute kinds include a disabled cfg applied through cfg_attr (`#[cfg_attr(all(), cfg(any()))]`), which is a cfg for the purposes of the last clause.",
 "C19": "Seventeen programs (adding a by-value receiver and a trait / a concrete-dependency function whose own method is called `as_ref`) x variants that also shadow METHOD names (blanket traits with `as_ref` / `borrow` / `into_inner` methods) and a `#![no_implicit_prelude]` module; the user's delegation trait is also named AsRef / Send / Sync / Impl / Future; thorough shadows every pair of names together.",
}
for p in props:
    pid = p["id"]
    if pid in CLAIMED:
        text, note, tech, ref = CLAIMED[pid]
        if pid in ADDENDA:
            text = text + " " + ADDENDA[pid]
        m["checks"].append({
            "property_id": pid,
            "quick_cmd": f"./check {pid} --tier quick",
            "thorough_cmd": f"./check {pid} --tier thorough",
            "evidence_file": f"/verif/evidence/{pid}.json",
            "replay_cmd_template": f"./check {pid} --replay {{path}}",
            "engine": "tlc",
            "level_claimed": {"category": "model_checking", "text": text, "design_ref": ref},
            "level_note": note,
            "technique": tech,
        })
    else:
        m["not_applicable"].append({"property_id": pid, "reason": PENDING})
m["engines"][0]["serves_properties"] = sorted(CLAIMED)
json.dump(m, open(os.path.join(V, "MANIFEST.json"), "w"), indent=1)
print("claimed", sorted(CLAIMED), "pending", len(m["not_applicable"]))
