#!/usr/bin/env python3
"""Regenerates /verif/MANIFEST.json from the table below (keeps it valid at all times)."""
import json, os
V = os.path.dirname(os.path.dirname(os.path.abspath(__file__)))
props = [json.loads(l) for l in open(os.path.join(V, "properties.jsonl"))]

# property -> (level text, level note, technique, design_ref)
CLAIMED = {
 "C16": ("TLC explores the parameter-renaming machine (Params.tla: Simplify, LiftInner, Autogenerate, FixIdentConflicts) over every "
         "pattern list up to the length bound and checks that it refines the Level-1 statement (Req!C16); every enumerated list is then "
         "expanded by the real macro inside rustc, compiled and run, and TLC validates the recorded observations (names, forwarding, "
         "verdict, run-time argument order) against Level 1 and against the model's prediction (zero drift = the model is the code on this domain).",
         "bounded (lists <= 2 quick / 3 thorough over 24 pattern symbols, 3 fn names, deps/no_deps); trusts rustc, TLC, the syn-based projector; pattern types are small fixed types",
         "TLA+ model of fn_params.rs checked by TLC (refinement to Level 1) + exhaustive replay of the enumerated cases through the real macro with TLC trace validation",
         "7/C16"),
}
PENDING = "check under construction in this session; not claimed until its TLA+ model, replay and trace validation exist"

m = json.load(open(os.path.join(V, "MANIFEST.json")))
m["checks"] = []
m["not_applicable"] = []
for p in props:
    pid = p["id"]
    if pid in CLAIMED:
        text, note, tech, ref = CLAIMED[pid]
        m["checks"].append({
            "property_id": pid,
            "quick_cmd": f"./check {pid} --tier quick",
            "thorough_cmd": f"./check {pid} --tier thorough",
            "evidence_file": f"/verif/evidence/{pid}.json",
            "replay_cmd_template": f"./check {pid} --replay {{path}}",
            "engine": "tlc",
            "level_claimed": {"category": "model_checking", "text": text, "design_ref": ref},
            "level_note": note,
            "technique": tech,
        })
    else:
        m["not_applicable"].append({"property_id": pid, "reason": PENDING})
m["engines"][0]["serves_properties"] = sorted(CLAIMED)
json.dump(m, open(os.path.join(V, "MANIFEST.json"), "w"), indent=1)
print("claimed", sorted(CLAIMED), "pending", len(m["not_applicable"]))
