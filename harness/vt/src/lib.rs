//! vt: run-time support for the generated client crates (DESIGN 3.2, observations R).
//!
//! * `block_on`: a tiny single-threaded executor (no tokio in the sandbox's generated crates)
//! * `ev!` / `emit`: NDJSON event log on stdout with per-run sequence numbers (no wall clock)
//! * `CountingAlloc`: a counting global allocator; counting is paused while logging
//! * `addr`: identity of a borrowed receiver as a hex string (TLC integers are 32-bit)

use std::alloc::{GlobalAlloc, Layout, System};
use std::cell::Cell;
use std::future::Future;
use std::pin::pin;
use std::sync::atomic::{AtomicU64, Ordering};
use std::task::{Context, Poll, RawWaker, RawWakerVTable, Waker};

fn noop_raw_waker() -> RawWaker {
    fn no_op(_: *const ()) {}
    fn clone(_: *const ()) -> RawWaker {
        noop_raw_waker()
    }
    static VTABLE: RawWakerVTable = RawWakerVTable::new(clone, no_op, no_op, no_op);
    RawWaker::new(std::ptr::null(), &VTABLE)
}

/// Drives a future to completion on the current thread. Returns the number of polls as well.
pub fn block_on_counted<F: Future>(fut: F) -> (F::Output, u32) {
    let waker = unsafe { Waker::from_raw(noop_raw_waker()) };
    let mut cx = Context::from_waker(&waker);
    let mut fut = pin!(fut);
    let mut polls = 0;
    loop {
        polls += 1;
        if let Poll::Ready(v) = fut.as_mut().poll(&mut cx) {
            return (v, polls);
        }
        if polls > 1_000_000 {
            panic!("vt::block_on: future never completes");
        }
    }
}

pub fn block_on<F: Future>(fut: F) -> F::Output {
    block_on_counted(fut).0
}

/// A future that is pending once (so that `.await` points are real suspension points).
pub struct YieldOnce(bool);
pub fn yield_once() -> YieldOnce {
    YieldOnce(false)
}
impl Future for YieldOnce {
    type Output = ();
    fn poll(mut self: std::pin::Pin<&mut Self>, cx: &mut Context<'_>) -> Poll<()> {
        if self.0 {
            Poll::Ready(())
        } else {
            self.0 = true;
            cx.waker().wake_by_ref();
            Poll::Pending
        }
    }
}

// ------------------------------------------------------------------------------------------
// allocation counting
// ------------------------------------------------------------------------------------------

pub struct CountingAlloc;

static ALLOCS: AtomicU64 = AtomicU64::new(0);
thread_local! {
    static PAUSED: Cell<bool> = const { Cell::new(false) };
}

unsafe impl GlobalAlloc for CountingAlloc {
    unsafe fn alloc(&self, layout: Layout) -> *mut u8 {
        let paused = PAUSED.try_with(|p| p.get()).unwrap_or(true);
        if !paused {
            ALLOCS.fetch_add(1, Ordering::Relaxed);
        }
        System.alloc(layout)
    }
    unsafe fn dealloc(&self, ptr: *mut u8, layout: Layout) {
        System.dealloc(ptr, layout)
    }
    unsafe fn realloc(&self, ptr: *mut u8, layout: Layout, new_size: usize) -> *mut u8 {
        let paused = PAUSED.try_with(|p| p.get()).unwrap_or(true);
        if !paused {
            ALLOCS.fetch_add(1, Ordering::Relaxed);
        }
        System.realloc(ptr, layout, new_size)
    }
}

pub fn allocs() -> u64 {
    ALLOCS.load(Ordering::Relaxed)
}

pub fn paused<R>(f: impl FnOnce() -> R) -> R {
    let old = PAUSED.with(|p| p.replace(true));
    let r = f();
    PAUSED.with(|p| p.set(old));
    r
}

/// allocations performed by `f` (logging inside `f` is not counted)
pub fn count_allocs<R>(f: impl FnOnce() -> R) -> (R, u64) {
    let before = allocs();
    let r = f();
    let after = allocs();
    (r, after - before)
}

// ------------------------------------------------------------------------------------------
// event log
// ------------------------------------------------------------------------------------------

static SEQ: AtomicU64 = AtomicU64::new(0);

/// Emits one NDJSON event: `{"n":seq,"e":kind, <fields>}`; `fields` is the inside of a JSON object.
pub fn emit(kind: &str, fields: &str) {
    paused(|| {
        let n = SEQ.fetch_add(1, Ordering::SeqCst);
        if fields.is_empty() {
            println!("{{\"n\":{n},\"e\":\"{kind}\"}}");
        } else {
            println!("{{\"n\":{n},\"e\":\"{kind}\",{fields}}}");
        }
    })
}

pub fn js(s: &str) -> String {
    let mut out = String::from("\"");
    for c in s.chars() {
        match c {
            '"' => out.push_str("\\\""),
            '\\' => out.push_str("\\\\"),
            '\n' => out.push_str("\\n"),
            c if (c as u32) < 0x20 => out.push_str(&format!("\\u{:04x}", c as u32)),
            c => out.push(c),
        }
    }
    out.push('"');
    out
}

/// identity of a borrowed value
pub fn addr<T: ?Sized>(r: &T) -> String {
    paused(|| format!("{:p}", r as *const T as *const ()))
}

pub fn type_name_of<T: ?Sized>(_: &T) -> &'static str {
    std::any::type_name::<T>()
}

/// run `f`, reporting a panic as data (a panic in code under test is an observation, not a tool failure)
pub fn catch<R>(f: impl FnOnce() -> R) -> Result<R, String> {
    let prev = std::panic::take_hook();
    std::panic::set_hook(Box::new(|_| {}));
    let r = std::panic::catch_unwind(std::panic::AssertUnwindSafe(f));
    std::panic::set_hook(prev);
    r.map_err(|p| {
        if let Some(s) = p.downcast_ref::<&str>() {
            s.to_string()
        } else if let Some(s) = p.downcast_ref::<String>() {
            s.clone()
        } else {
            "<panic>".to_string()
        }
    })
}

/// `has_impl!(Type: Bound)` - does `Type` satisfy `Bound`? Decided at compile time by inherent-method-over-
/// trait-method resolution, observed at run time, so that "not implemented" is a value, not a build failure.
#[macro_export]
macro_rules! has_impl {
    ($ty:ty : $($bound:tt)+) => {{
        // (absolute paths: macro_rules paths resolve at the call site, which may shadow `Sized`)
        struct Probe<X: ?::core::marker::Sized>(::core::marker::PhantomData<X>);
        trait Fallback { fn has(&self) -> bool { false } }
        impl<X: ?::core::marker::Sized> Fallback for Probe<X> {}
        impl<X: ?::core::marker::Sized + $($bound)+> Probe<X> { fn has(&self) -> bool { true } }
        Probe::<$ty>(::core::marker::PhantomData).has()
    }};
}
