// run-time support for generated clients
