//! projector: turns the expansion records written by the verification hook in
//! entrait_macros (`--cfg audunhalland_entrait_verif`) into a semantic normal form.
//!
//! usage: projector <dump-file>...   (NDJSON on stdout, one line per record)
//!
//! The projector parses the *output* tokens with syn, independently of the macro's
//! own code. Items are found by kind and name, never by position. Everything that
//! cannot be parsed is reported (`parse_ok: false`) instead of guessed.

use proc_macro2::{Delimiter, Group, Ident, Literal, Punct, Spacing, Span, TokenStream, TokenTree};
use quote::ToTokens;
use serde_json::{json, Map, Value};
use std::io::{BufRead, Write};
use std::str::FromStr;

// ---------------------------------------------------------------------------------------------
// flattened tokens -> TokenStream
// ---------------------------------------------------------------------------------------------

fn rebuild(toks: &[String], pos: &mut usize, close: Option<&str>) -> Result<TokenStream, String> {
    let mut out: Vec<TokenTree> = vec![];
    while *pos < toks.len() {
        let t = toks[*pos].as_str();
        *pos += 1;
        let (kind, rest) = t.split_at(1);
        match kind {
            "I" => {
                if let Some(raw) = rest.strip_prefix("r#") {
                    out.push(TokenTree::Ident(Ident::new_raw(raw, Span::call_site())));
                } else {
                    // `_` is an identifier-like token for proc_macro
                    let ident = std::panic::catch_unwind(|| Ident::new(rest, Span::call_site()))
                        .map_err(|_| format!("bad ident {rest:?}"))?;
                    out.push(TokenTree::Ident(ident));
                }
            }
            "L" => {
                let lit = Literal::from_str(rest).map_err(|e| format!("bad literal {rest:?}: {e}"))?;
                out.push(TokenTree::Literal(lit));
            }
            "P" => {
                let mut chars = rest.chars();
                let c = chars.next().ok_or("empty punct")?;
                let spacing = match chars.next() {
                    Some('j') => Spacing::Joint,
                    _ => Spacing::Alone,
                };
                out.push(TokenTree::Punct(Punct::new(c, spacing)));
            }
            "G" => match rest {
                "(" | "{" | "[" | "<" => {
                    let (delim, closer) = match rest {
                        "(" => (Delimiter::Parenthesis, "G)"),
                        "{" => (Delimiter::Brace, "G}"),
                        "[" => (Delimiter::Bracket, "G]"),
                        _ => (Delimiter::None, "G>"),
                    };
                    let inner = rebuild(toks, pos, Some(closer))?;
                    out.push(TokenTree::Group(Group::new(delim, inner)));
                }
                _ => {
                    if Some(t) == close {
                        return Ok(out.into_iter().collect());
                    }
                    return Err(format!("unbalanced group token {t}"));
                }
            },
            _ => return Err(format!("unknown token kind {t:?}")),
        }
    }
    if close.is_some() {
        return Err("unterminated group".into());
    }
    Ok(out.into_iter().collect())
}

fn toks_of(v: &Value) -> Vec<String> {
    v.as_array()
        .map(|a| a.iter().filter_map(|x| x.as_str().map(String::from)).collect())
        .unwrap_or_default()
}

/// canonical, spacing-insensitive rendering of a token stream
fn s<T: ToTokens>(t: &T) -> String {
    fn go(ts: TokenStream, out: &mut Vec<String>) {
        for tt in ts {
            match tt {
                TokenTree::Group(g) => {
                    let (o, c) = match g.delimiter() {
                        Delimiter::Parenthesis => ("(", ")"),
                        Delimiter::Brace => ("{", "}"),
                        Delimiter::Bracket => ("[", "]"),
                        Delimiter::None => ("", ""),
                    };
                    if !o.is_empty() {
                        out.push(o.into());
                    }
                    go(g.stream(), out);
                    if !c.is_empty() {
                        out.push(c.into());
                    }
                }
                TokenTree::Punct(p) => {
                    // glue joint punctuation (`::`, `->`, `'a`)
                    let mut st = p.as_char().to_string();
                    if p.spacing() == Spacing::Joint {
                        st.push('\u{1}');
                    }
                    out.push(st);
                }
                other => out.push(other.to_string()),
            }
        }
    }
    let mut parts = vec![];
    go(t.to_token_stream(), &mut parts);
    let mut res = String::new();
    let mut glue = true;
    for p in parts {
        if !glue {
            res.push(' ');
        }
        if let Some(stripped) = p.strip_suffix('\u{1}') {
            res.push_str(stripped);
            glue = true;
        } else {
            res.push_str(&p);
            glue = false;
        }
    }
    res
}

// ---------------------------------------------------------------------------------------------
// attributes
// ---------------------------------------------------------------------------------------------

fn attr_kind(path: &str) -> &'static str {
    let last = path.rsplit("::").next().unwrap_or(path).trim();
    match last {
        "unimock" => "unimock",
        "automock" => {
            if path.replace(' ', "").contains("mockall") {
                "mockall"
            } else {
                "automock"
            }
        }
        "entrait" | "entrait_export" => "entrait",
        "async_trait" => "async_trait",
        "cfg" => "cfg",
        "cfg_attr" => "cfg_attr",
        "doc" => "doc",
        "allow" | "warn" | "deny" | "forbid" | "expect" | "must_use" | "inline" | "cold"
        | "deprecated" | "automatically_derived" => "lint",
        _ => "other",
    }
}

fn attr_json(attr: &syn::Attribute) -> Value {
    let full = s(attr);
    let path = s(attr.path());
    let mut gated = false;
    let mut inner_path = path.clone();
    let mut args = match &attr.meta {
        syn::Meta::Path(_) => String::new(),
        syn::Meta::List(l) => s(&l.tokens),
        syn::Meta::NameValue(nv) => s(&nv.value),
    };
    if path == "cfg_attr" {
        if let syn::Meta::List(l) = &attr.meta {
            // cfg_attr(test, <inner>)
            let parsed: syn::Result<(syn::Meta, syn::Meta)> = l.parse_args_with(|input: syn::parse::ParseStream| {
                let pred: syn::Meta = input.parse()?;
                let _: syn::Token![,] = input.parse()?;
                let inner: syn::Meta = input.parse()?;
                let _ = input.parse::<Option<syn::Token![,]>>()?;
                Ok((pred, inner))
            });
            if let Ok((pred, inner)) = parsed {
                if s(&pred) == "test" {
                    gated = true;
                    inner_path = s(inner.path());
                    args = match &inner {
                        syn::Meta::Path(_) => String::new(),
                        syn::Meta::List(l) => s(&l.tokens),
                        syn::Meta::NameValue(nv) => s(&nv.value),
                    };
                }
            }
        }
    }
    json!({
        "kind": attr_kind(&inner_path),
        "path": inner_path.replace(' ', ""),
        "gated": gated,
        "args": args,
        "text": full,
        "inner": matches!(attr.style, syn::AttrStyle::Inner(_)),
    })
}

fn attrs_json(attrs: &[syn::Attribute]) -> Value {
    Value::Array(attrs.iter().map(attr_json).collect())
}

// ---------------------------------------------------------------------------------------------
// signatures
// ---------------------------------------------------------------------------------------------

fn vis_json(vis: &syn::Visibility) -> Value {
    Value::String(match vis {
        syn::Visibility::Inherited => "".into(),
        other => s(other).replace(' ', ""),
    })
}

fn generics_json(g: &syn::Generics) -> Value {
    let params: Vec<Value> = g
        .params
        .iter()
        .map(|p| match p {
            syn::GenericParam::Type(t) => json!({
                "kind": "type", "name": t.ident.to_string(),
                "bounds": t.bounds.iter().map(|b| s(b)).collect::<Vec<_>>(),
                "text": s(t),
            }),
            syn::GenericParam::Lifetime(l) => json!({
                "kind": "life", "name": l.lifetime.to_string(),
                "bounds": l.bounds.iter().map(|b| s(b)).collect::<Vec<_>>(),
                "text": s(l),
            }),
            syn::GenericParam::Const(c) => json!({
                "kind": "const", "name": c.ident.to_string(),
                "bounds": [s(&c.ty)],
                "text": s(c),
            }),
        })
        .collect();
    let wh: Vec<Value> = g
        .where_clause
        .iter()
        .flat_map(|w| w.predicates.iter())
        .map(|p| match p {
            syn::WherePredicate::Type(t) => json!({
                "on": s(&t.bounded_ty),
                "bounds": t.bounds.iter().map(|b| s(b)).collect::<Vec<_>>(),
                "text": s(p),
            }),
            syn::WherePredicate::Lifetime(l) => json!({
                "on": l.lifetime.to_string(),
                "bounds": l.bounds.iter().map(|b| s(b)).collect::<Vec<_>>(),
                "text": s(p),
            }),
            other => json!({"on": "?", "bounds": [], "text": s(other)}),
        })
        .collect();
    json!({"params": params, "where": wh})
}

fn pat_json(pat: &syn::Pat) -> Value {
    match pat {
        syn::Pat::Ident(pi) => json!({
            "kind": "ident",
            "name": pi.ident.to_string(),
            "deco": if pi.subpat.is_some() { "at" } else if pi.by_ref.is_some() { "ref" } else if pi.mutability.is_some() { "mut" } else { "" },
            "text": s(pat),
        }),
        syn::Pat::Wild(_) => json!({"kind": "wild", "name": "", "deco": "", "text": s(pat)}),
        other => json!({"kind": "other", "name": "", "deco": "", "text": s(other)}),
    }
}

fn future_parts(ret: &syn::ReturnType) -> Value {
    // -> impl Future<Output = R> [+ Send]
    if let syn::ReturnType::Type(_, ty) = ret {
        if let syn::Type::ImplTrait(it) = ty.as_ref() {
            let mut output = None;
            let mut send = false;
            let mut future_path = String::new();
            let mut others: Vec<String> = vec![];
            for b in &it.bounds {
                match b {
                    syn::TypeParamBound::Trait(tb) => {
                        let last = tb.path.segments.last().unwrap();
                        if last.ident == "Future" {
                            future_path = s(&tb.path).split('<').next().unwrap_or("").trim().replace(' ', "");
                            if let syn::PathArguments::AngleBracketed(ab) = &last.arguments {
                                for a in &ab.args {
                                    if let syn::GenericArgument::AssocType(at) = a {
                                        if at.ident == "Output" {
                                            output = Some(s(&at.ty));
                                        }
                                    }
                                }
                            }
                        } else if last.ident == "Send" {
                            send = true;
                            others.push(s(&tb.path).replace(' ', ""));
                        } else {
                            others.push(s(b));
                        }
                    }
                    other => others.push(s(other)),
                }
            }
            if let Some(output) = output {
                return json!({"output": output, "send": send, "future_path": future_path, "others": others});
            }
        }
    }
    Value::Null
}

/// syntactic shape of a (first-parameter) type, in the vocabulary of spec/Sig.tla: reference / parenthesis layers around a base
fn ty_shape(ty: &syn::Type, sig: &syn::Signature) -> Value {
    let mut wrap: Vec<&'static str> = vec![];
    let mut cur = ty;
    loop {
        match cur {
            syn::Type::Reference(r) => {
                wrap.push(if r.lifetime.is_some() { "reflife" } else { "ref" });
                cur = r.elem.as_ref();
            }
            syn::Type::Paren(p) => {
                wrap.push("paren");
                cur = p.elem.as_ref();
            }
            // the invisible group around a `$t:ty` macro fragment reads like parentheses
            syn::Type::Group(g) => {
                wrap.push("paren");
                cur = g.elem.as_ref();
            }
            _ => break,
        }
    }
    let type_params: Vec<String> = sig.generics.params.iter().filter_map(|p| match p {
        syn::GenericParam::Type(t) => Some(t.ident.to_string()),
        _ => None,
    }).collect();
    let mut nbounds = 0usize;
    let base = match cur {
        syn::Type::ImplTrait(i) => { nbounds = i.bounds.len(); "impl" }
        syn::Type::Path(tp) => {
            if tp.qself.is_some() { "qself" }
            else if tp.path.leading_colon.is_some() { "colon" }
            else if tp.path.segments.len() != 1 { "path" }
            else {
                let seg = tp.path.segments.first().unwrap();
                let name = seg.ident.to_string();
                if type_params.contains(&name) {
                    // bounds of the named parameter: inline + where-predicates on the bare name
                    for p in &sig.generics.params {
                        if let syn::GenericParam::Type(t) = p { if t.ident == name.as_str() { nbounds += t.bounds.len(); } }
                    }
                    if let Some(w) = &sig.generics.where_clause {
                        for pred in &w.predicates {
                            if let syn::WherePredicate::Type(pt) = pred {
                                if let syn::Type::Path(bp) = &pt.bounded_ty {
                                    if bp.qself.is_none() && bp.path.leading_colon.is_none() && bp.path.segments.len() == 1
                                        && bp.path.segments.first().unwrap().ident == name.as_str() {
                                        nbounds += pt.bounds.len();
                                    }
                                }
                            }
                        }
                    }
                    "generic"
                } else if matches!(seg.arguments, syn::PathArguments::None) { "ident" } else { "inst" }
            }
        }
        syn::Type::Tuple(t) => if t.elems.is_empty() { "unit" } else { "tuple" },
        syn::Type::Array(_) => "array",
        syn::Type::TraitObject(_) => "dyn",
        _ => "other",
    };
    json!({"wrap": wrap, "base": base, "nbounds": nbounds, "basetext": s(cur).replace(' ', "")})
}

fn sig_json(sig: &syn::Signature) -> Value {
    let mut recv = json!({"kind": "none"});
    let mut params = vec![];
    for (i, a) in sig.inputs.iter().enumerate() {
        match a {
            syn::FnArg::Receiver(r) => {
                let kind = if r.colon_token.is_some() {
                    "typed"
                } else if let Some((_, lt)) = &r.reference {
                    if lt.is_some() { "reflife" } else { "ref" }
                } else {
                    "value"
                };
                recv = json!({
                    "kind": kind,
                    "mut": r.mutability.is_some(),
                    "life": r.reference.as_ref().and_then(|(_, l)| l.as_ref()).map(|l| l.to_string()).unwrap_or_default(),
                    "attrs": attrs_json(&r.attrs),
                    "text": s(r),
                    "index": i,
                });
            }
            syn::FnArg::Typed(pt) => {
                let mut p = pat_json(&pt.pat);
                let m = p.as_object_mut().unwrap();
                m.insert("ty".into(), Value::String(s(&pt.ty)));
                m.insert("attrs".into(), attrs_json(&pt.attrs));
                params.push(p);
            }
        }
    }
    json!({
        "name": sig.ident.to_string(),
        "const": sig.constness.is_some(),
        "async": sig.asyncness.is_some(),
        "unsafe": sig.unsafety.is_some(),
        "abi": sig.abi.as_ref().map(|a| s(a)).unwrap_or_default(),
        "generics": generics_json(&sig.generics),
        "recv": recv,
        "params": params,
        "variadic": sig.variadic.is_some(),
        "ret": match &sig.output { syn::ReturnType::Default => String::new(), syn::ReturnType::Type(_, t) => s(t) },
        "fut": future_parts(&sig.output),
        "first": match sig.inputs.first() {
            None => json!({"wrap": [], "base": "none", "nbounds": 0}),
            Some(syn::FnArg::Receiver(r)) => json!({"wrap": if r.reference.is_some() { vec!["ref"] } else { vec![] }, "base": "self", "nbounds": 0}),
            Some(syn::FnArg::Typed(pt)) => ty_shape(&pt.ty, sig),
        },
        "text": s(sig),
    })
}

// ---------------------------------------------------------------------------------------------
// delegating bodies
// ---------------------------------------------------------------------------------------------

fn call_json(block: &syn::Block) -> Value {
    // expected shape: a single tail expression
    if block.stmts.len() != 1 {
        return json!({"kind": "other", "text": s(block), "stmts": block.stmts.len()});
    }
    let expr = match &block.stmts[0] {
        syn::Stmt::Expr(e, None) => e,
        _ => return json!({"kind": "other", "text": s(block), "stmts": 1}),
    };
    let (expr, awaited) = match expr {
        syn::Expr::Await(a) => (a.base.as_ref(), true),
        e => (e, false),
    };
    match expr {
        syn::Expr::Call(c) => json!({
            "kind": "fn",
            "callee": s(&c.func).replace(' ', ""),
            "via": "",
            "args": c.args.iter().map(|a| s(a)).collect::<Vec<_>>(),
            "await": awaited,
            "text": s(block),
        }),
        syn::Expr::MethodCall(m) => json!({
            "kind": "method",
            "callee": m.method.to_string(),
            "via": s(&m.receiver).replace(' ', ""),
            "args": m.args.iter().map(|a| s(a)).collect::<Vec<_>>(),
            "await": awaited,
            "text": s(block),
        }),
        _ => json!({"kind": "other", "text": s(block), "await": awaited, "stmts": 1}),
    }
}

// ---------------------------------------------------------------------------------------------
// items
// ---------------------------------------------------------------------------------------------

fn contains_dyn_or_box(ts: TokenStream, dyn_found: &mut bool, box_found: &mut bool) {
    for tt in ts {
        match tt {
            TokenTree::Ident(i) => {
                let st = i.to_string();
                if st == "dyn" {
                    *dyn_found = true;
                }
                if st == "Box" || st == "Rc" || st == "Arc" || st == "Vec" || st == "alloc" {
                    *box_found = true;
                }
            }
            TokenTree::Group(g) => contains_dyn_or_box(g.stream(), dyn_found, box_found),
            _ => {}
        }
    }
}

fn trait_json(t: &syn::ItemTrait) -> Value {
    let mut methods = vec![];
    let mut assoc = vec![];
    let mut others = vec![];
    for item in &t.items {
        match item {
            syn::TraitItem::Fn(f) => {
                let mut m = sig_json(&f.sig);
                let o = m.as_object_mut().unwrap();
                o.insert("attrs".into(), attrs_json(&f.attrs));
                o.insert("has_default".into(), Value::Bool(f.default.is_some()));
                o.insert(
                    "default".into(),
                    Value::String(f.default.as_ref().map(|b| s(b)).unwrap_or_default()),
                );
                methods.push(m);
            }
            syn::TraitItem::Type(ty) => assoc.push(json!({"name": ty.ident.to_string(), "text": s(ty)})),
            other => others.push(Value::String(s(other))),
        }
    }
    let (mut d, mut b) = (false, false);
    contains_dyn_or_box(t.to_token_stream(), &mut d, &mut b);
    json!({
        "k": "trait",
        "name": t.ident.to_string(),
        "vis": vis_json(&t.vis),
        "unsafe": t.unsafety.is_some(),
        "auto": t.auto_token.is_some(),
        "attrs": attrs_json(&t.attrs),
        "generics": generics_json(&t.generics),
        "supers": t.supertraits.iter().map(|b| s(b)).collect::<Vec<_>>(),
        "methods": methods,
        "assoc_types": assoc,
        "other_items": others,
        "dyn": d, "box": b,
    })
}

fn last_seg_args(path: &syn::Path) -> (String, Vec<String>, String) {
    // (path without args on the last segment, generic args of last segment, last ident)
    let mut p = path.clone();
    let mut args = vec![];
    let mut last_ident = String::new();
    if let Some(last) = p.segments.last_mut() {
        last_ident = last.ident.to_string();
        if let syn::PathArguments::AngleBracketed(ab) = &last.arguments {
            args = ab.args.iter().map(|a| s(a)).collect();
        }
        last.arguments = syn::PathArguments::None;
    }
    (s(&p).replace(' ', ""), args, last_ident)
}

fn impl_json(i: &syn::ItemImpl) -> Value {
    let type_params: Vec<String> = i
        .generics
        .params
        .iter()
        .filter_map(|p| match p {
            syn::GenericParam::Type(t) => Some(t.ident.to_string()),
            _ => None,
        })
        .collect();
    let self_ty = s(&i.self_ty);
    // classify self type
    let mut self_class = "concrete".to_string();
    let mut app_param = String::new();
    let mut self_path = String::new();
    if let syn::Type::Path(tp) = i.self_ty.as_ref() {
        if tp.qself.is_none() {
            let (p, args, last) = last_seg_args(&tp.path);
            self_path = p.clone();
            if tp.path.segments.len() == 1 && args.is_empty() && type_params.contains(&last) {
                self_class = "blanket".into();
                app_param = last;
            } else if last == "Impl" && args.len() == 1 && type_params.contains(&args[0]) {
                self_class = "implT".into();
                app_param = args[0].clone();
            }
        }
    }
    let split = |bounds: &syn::punctuated::Punctuated<syn::TypeParamBound, syn::Token![+]>| -> Vec<String> {
        bounds.iter().map(|b| s(b)).collect()
    };
    // bounds required of the application type parameter, and of Self / Impl<T>
    let mut app_bounds: Vec<String> = vec![];
    let mut self_bounds: Vec<String> = vec![];
    let mut other_where: Vec<Value> = vec![];
    for p in &i.generics.params {
        if let syn::GenericParam::Type(t) = p {
            if t.ident == app_param.as_str() {
                app_bounds.extend(split(&t.bounds));
            }
        }
    }
    if let Some(w) = &i.generics.where_clause {
        for pred in &w.predicates {
            match pred {
                syn::WherePredicate::Type(pt) => {
                    let on = s(&pt.bounded_ty);
                    let on_compact = on.replace(' ', "");
                    let is_impl_of_app = {
                        if let syn::Type::Path(tp) = &pt.bounded_ty {
                            let (_, args, last) = last_seg_args(&tp.path);
                            last == "Impl" && args.len() == 1 && args[0] == app_param && !app_param.is_empty()
                        } else {
                            false
                        }
                    };
                    if !app_param.is_empty() && on == app_param {
                        app_bounds.extend(split(&pt.bounds));
                    } else if on == "Self" || on_compact == self_ty.replace(' ', "") || is_impl_of_app {
                        self_bounds.extend(split(&pt.bounds));
                    } else {
                        other_where.push(json!({"on": on, "bounds": split(&pt.bounds), "text": s(pred)}));
                    }
                }
                other => other_where.push(json!({"on": "?", "bounds": [], "text": s(other)})),
            }
        }
    }
    let (trait_path, trait_args, trait_name) = match &i.trait_ {
        Some((_, p, _)) => {
            let (a, b, c) = last_seg_args(p);
            (a, b, c)
        }
        None => (String::new(), vec![], String::new()),
    };
    let mut methods = vec![];
    let mut others = vec![];
    for item in &i.items {
        match item {
            syn::ImplItem::Fn(f) => {
                let mut m = sig_json(&f.sig);
                let o = m.as_object_mut().unwrap();
                o.insert("attrs".into(), attrs_json(&f.attrs));
                o.insert("vis".into(), vis_json(&f.vis));
                o.insert("call".into(), call_json(&f.block));
                methods.push(m);
            }
            other => others.push(Value::String(s(other))),
        }
    }
    let (mut d, mut b) = (false, false);
    contains_dyn_or_box(i.to_token_stream(), &mut d, &mut b);
    json!({
        "k": "impl",
        "trait": trait_name,
        "trait_path": trait_path,
        "trait_args": trait_args,
        "inherent": i.trait_.is_none(),
        "unsafe": i.unsafety.is_some(),
        "self_ty": self_ty,
        "self_path": self_path,
        "self_class": self_class,
        "app_param": app_param,
        "app_bounds": app_bounds,
        "self_bounds": self_bounds,
        "other_where": other_where,
        "attrs": attrs_json(&i.attrs),
        "generics": generics_json(&i.generics),
        "methods": methods,
        "other_items": others,
        "dyn": d, "box": b,
    })
}

fn item_json(item: &syn::Item) -> Value {
    match item {
        syn::Item::Trait(t) => trait_json(t),
        syn::Item::Impl(i) => impl_json(i),
        syn::Item::Fn(f) => {
            let mut m = sig_json(&f.sig);
            let o = m.as_object_mut().unwrap();
            o.insert("k".into(), "fn".into());
            o.insert("vis".into(), vis_json(&f.vis));
            o.insert("attrs".into(), attrs_json(&f.attrs));
            m
        }
        syn::Item::Mod(m) => {
            let items: Vec<Value> = m
                .content
                .as_ref()
                .map(|(_, items)| items.iter().map(item_json).collect())
                .unwrap_or_default();
            json!({
                "k": "mod", "name": m.ident.to_string(), "vis": vis_json(&m.vis),
                "attrs": attrs_json(&m.attrs), "items": items, "inline": m.content.is_some(),
            })
        }
        syn::Item::Use(u) => json!({
            "k": "use", "vis": vis_json(&u.vis), "path": s(&u.tree).replace(' ', ""),
            "attrs": attrs_json(&u.attrs),
        }),
        syn::Item::Macro(m) => {
            let path = s(&m.mac.path).replace(' ', "");
            let mut msg = String::new();
            if path.ends_with("compile_error") {
                if let Ok(l) = syn::parse2::<syn::LitStr>(m.mac.tokens.clone()) {
                    msg = l.value();
                }
            }
            json!({"k": "macro", "path": path, "msg": msg, "text": s(m)})
        }
        other => json!({"k": "other", "text": s(other)}),
    }
}

// ---------------------------------------------------------------------------------------------
// token relations (pure token level, no parsing)
// ---------------------------------------------------------------------------------------------

/// index (0-based) of the token closing the group opened at `open`
fn matching_close(toks: &[String], open: usize) -> Option<usize> {
    let mut depth = 0i64;
    for (i, t) in toks.iter().enumerate().skip(open) {
        match t.as_str() {
            "G(" | "G{" | "G[" | "G<" => depth += 1,
            "G)" | "G}" | "G]" | "G>" => {
                depth -= 1;
                if depth == 0 {
                    return Some(i);
                }
            }
            _ => {}
        }
    }
    None
}

fn is_prefix(a: &[String], b: &[String]) -> bool {
    a.len() <= b.len() && a.iter().zip(b.iter()).all(|(x, y)| x == y)
}

fn find_sub(hay: &[String], needle: &[String]) -> Option<usize> {
    if needle.is_empty() {
        return Some(0);
    }
    if needle.len() > hay.len() {
        return None;
    }
    (0..=hay.len() - needle.len()).find(|&i| &hay[i..i + needle.len()] == needle)
}

fn classify_input(input: &[String]) -> &'static str {
    // skip outer attributes and visibility, then look at the keyword
    let mut i = 0;
    loop {
        if i + 1 < input.len() && input[i].starts_with("P#") && input[i + 1] == "G[" {
            match matching_close(input, i + 1) {
                Some(c) => i = c + 1,
                None => return "other",
            }
        } else {
            break;
        }
    }
    if i < input.len() && input[i] == "Ipub" {
        i += 1;
        if i < input.len() && input[i] == "G(" {
            match matching_close(input, i) {
                Some(c) => i = c + 1,
                None => return "other",
            }
        }
    }
    while i < input.len() {
        match input[i].as_str() {
            "Iunsafe" | "Iauto" | "Iasync" | "Iconst" | "Idefault" => i += 1,
            "Iextern" => {
                i += 1;
                if i < input.len() && input[i].starts_with('L') {
                    i += 1;
                }
            }
            "Itrait" => return "trait",
            "Iimpl" => return "impl",
            "Imod" => return "mod",
            "Ifn" => return "fn",
            "Istruct" => return "struct",
            "Ienum" => return "enum",
            "Iunion" => return "union",
            "Istatic" => return "static",
            "Itype" => return "type",
            "Iuse" => return "use",
            _ => return "other",
        }
    }
    "other"
}

fn token_relations(input: &[String], output: &[String]) -> Value {
    let kind = classify_input(input);
    let mut m = Map::new();
    m.insert("input_kind".into(), kind.into());
    m.insert("n_in".into(), input.len().into());
    m.insert("n_out".into(), output.len().into());
    m.insert("prefix".into(), is_prefix(input, output).into());
    // common prefix length
    let cp = input.iter().zip(output.iter()).take_while(|(a, b)| a == b).count();
    m.insert("common_prefix".into(), cp.into());
    if kind == "mod" {
        // input = head { body } ; output must be head { body gen1 } gen2 with the same matching brace
        if let Some(open) = input.iter().position(|t| t == "G{") {
            let close_in = matching_close(input, open);
            let close_out = if output.len() > open && output[open] == "G{" { matching_close(output, open) } else { None };
            let body_len = close_in.map(|c| c - open - 1).unwrap_or(0);
            m.insert("mod_open".into(), open.into());
            m.insert("mod_body_len".into(), body_len.into());
            let ok = match (close_in, close_out) {
                (Some(ci), Some(co)) => {
                    ci == input.len() - 1 && co >= ci && input[..ci] == output[..ci]
                }
                _ => false,
            };
            m.insert("mod_prefix_ok".into(), ok.into());
            m.insert("mod_close_in".into(), close_in.map(|x| x as i64).unwrap_or(-1).into());
            m.insert("mod_close_out".into(), close_out.map(|x| x as i64).unwrap_or(-1).into());
        }
    }
    if kind == "impl" {
        // the input's body items must appear token-identical as the body of some brace group in the output
        if let Some(open) = input.iter().position(|t| t == "G{") {
            if let Some(close) = matching_close(input, open) {
                let body = &input[open..=close];
                m.insert("impl_body_at".into(), find_sub(output, body).map(|x| x as i64).unwrap_or(-1).into());
                m.insert("impl_body_len".into(), (body.len() - 2).into());
            }
        }
    }
    Value::Object(m)
}

// ---------------------------------------------------------------------------------------------

fn project(rec: &Value) -> Value {
    let attr = toks_of(&rec["attr"]);
    let input = toks_of(&rec["input"]);
    let output = toks_of(&rec["output"]);

    let mut out = Map::new();
    for k in ["pid", "seq", "macro", "file", "line"] {
        out.insert(k.into(), rec[k].clone());
    }
    out.insert("panic".into(), rec.get("panic").cloned().unwrap_or(Value::Null));
    out.insert("attr".into(), json!(attr));
    out.insert("input".into(), json!(input));
    out.insert("output".into(), json!(output));
    out.insert("tok".into(), token_relations(&input, &output));

    // attribute text
    let mut pos = 0;
    out.insert(
        "attr_text".into(),
        rebuild(&attr, &mut pos, None).map(|t| s(&t)).unwrap_or_default().into(),
    );

    // parse the output
    let mut pos = 0;
    let mut parse_ok = false;
    let mut parse_err = String::new();
    let mut items = vec![];
    let mut errors: Vec<String> = vec![];
    match rebuild(&output, &mut pos, None) {
        Ok(ts) => match syn::parse2::<syn::File>(ts) {
            Ok(file) => {
                parse_ok = true;
                for item in &file.items {
                    let j = item_json(item);
                    if j["k"] == "macro" && j["path"].as_str().map(|p| p.ends_with("compile_error")).unwrap_or(false) {
                        errors.push(j["msg"].as_str().unwrap_or("").to_string());
                    }
                    items.push(j);
                }
            }
            Err(e) => parse_err = e.to_string(),
        },
        Err(e) => parse_err = e,
    }
    out.insert("parse_ok".into(), parse_ok.into());
    out.insert("parse_err".into(), parse_err.into());
    out.insert("errors".into(), json!(errors));
    out.insert("items".into(), Value::Array(items));

    // parse the input as well (for trait-mode component comparison and B3 round trips)
    let mut pos = 0;
    let mut in_items = vec![];
    if let Ok(ts) = rebuild(&input, &mut pos, None) {
        if let Ok(file) = syn::parse2::<syn::File>(ts) {
            for item in &file.items {
                in_items.push(item_json(item));
            }
        }
    }
    out.insert("in_items".into(), Value::Array(in_items));
    Value::Object(out)
}

fn main() {
    let stdout = std::io::stdout();
    let mut w = std::io::BufWriter::new(stdout.lock());
    let mut bad_lines = 0usize;
    for path in std::env::args().skip(1) {
        let f = match std::fs::File::open(&path) {
            Ok(f) => f,
            Err(e) => {
                eprintln!("projector: cannot open {path}: {e}");
                std::process::exit(2);
            }
        };
        for line in std::io::BufReader::new(f).lines() {
            let line = line.unwrap_or_default();
            if line.trim().is_empty() {
                continue;
            }
            match serde_json::from_str::<Value>(&line) {
                Ok(rec) => {
                    let p = project(&rec);
                    writeln!(w, "{}", p).unwrap();
                }
                Err(_) => bad_lines += 1,
            }
        }
    }
    if bad_lines > 0 {
        eprintln!("projector: {bad_lines} unparsable dump lines");
        std::process::exit(2);
    }
}
