"""./check selftest - demonstrates the binding (DESIGN section 10): recorded traces of the pinned tree are corrupted in one
field and fed to the trace specifications again; each corruption must be reported by TLC with exactly the intended conjunct.
Also: with the hook guard off the checks report a tool error, not a pass.  Not a property check (not in MANIFEST.checks)."""
import copy
import json
import os
import subprocess

from lib import vf


def revalidate(chk, module, events, name):
    bad, drift = vf.validate(chk, module, events, name=name)
    return {b["conjunct"] for b in bad}, bad


def need_trace(pid, fname):
    path = os.path.join(vf.WORK, pid, fname)
    if not os.path.exists(path):
        r = subprocess.run(["./check", pid], cwd=vf.VERIF, capture_output=True, text=True)
        if not os.path.exists(path):
            raise vf.ToolError(f"selftest: cannot produce {path}: {r.stdout[-500:]}")
    return vf.read_ndjson(path)


def main():
    chk = vf.Check("selftest")
    results = []

    def expect(label, got, want):
        ok = want <= got
        results.append((label, ok, sorted(got)))
        vf.log(("PASS " if ok else "FAIL ") + label + f": reported {sorted(got)} (expected {sorted(want)})")

    # ---- Runtime traces (C01)
    ev = need_trace("C01", "trace-Trace_Runtime.ndjson")
    # take the first trait scenario with two different arguments
    start = next(i for i, e in enumerate(ev) if e["e"] == "scenario" and e.get("kind") == "trait"
                 and any(x["e"] == "enter" and len(set(x["args"])) >= 2 for x in ev[i + 1:i + 6]))
    end = next(i for i in range(start + 1, len(ev)) if ev[i]["e"] == "scenario")
    base = ev[start:end]
    clean, _ = revalidate(chk, "Trace_Runtime", base, "st-rt-clean")
    expect("runtime: unmodified scenario accepted", {"accepted"} if not clean else clean, {"accepted"})
    t = copy.deepcopy(base)
    e = next(x for x in t if x["e"] == "enter")
    e["args"] = list(reversed(e["args"]))
    expect("runtime: swapped arguments at enter", revalidate(chk, "Trace_Runtime", t, "st-rt-args")[0], {"args-in-order"})
    t = copy.deepcopy(base)
    next(x for x in t if x["e"] == "enter")["f"] = "someone::else"
    expect("runtime: another function entered", revalidate(chk, "Trace_Runtime", t, "st-rt-own")[0], {"own-function"})
    t = copy.deepcopy(base)
    i = next(k for k, x in enumerate(t) if x["e"] == "exit")
    t[i + 1:i + 1] = [copy.deepcopy(next(x for x in t if x["e"] == "enter")), copy.deepcopy(t[i])]
    expect("runtime: function body ran twice", revalidate(chk, "Trace_Runtime", t, "st-rt-twice")[0], {"exactly-once"})
    t = copy.deepcopy(base)
    next(x for x in t if x["e"] == "ret")["val"] = "tampered"
    expect("runtime: result changed on the way back", revalidate(chk, "Trace_Runtime", t, "st-rt-ret")[0], {"result-unchanged"})
    t = copy.deepcopy(base)
    next(x for x in t if x["e"] == "enter")["deps"] = "0xdeadbeef"
    expect("runtime: another receiver passed as dependency", revalidate(chk, "Trace_Runtime", t, "st-rt-recv")[0], {"same-receiver"})
    t = [x for x in copy.deepcopy(base) if x["e"] not in ("enter", "exit")]
    expect("runtime: function never ran", revalidate(chk, "Trace_Runtime", t, "st-rt-never")[0], {"exactly-once"})

    # ---- C02: drop one output token
    ev = need_trace("C02", "trace-Trace_C02.ndjson")
    e = copy.deepcopy(next(x for x in ev if x["l1"]["kind"] == "fn" and x["obs"]["expanded"] and len(x["l1"]["toks"]) > 10))
    del e["obs"]["out"][5]
    expect("C02: one token of the original fn missing in the output", revalidate(chk, "Trace_C02", [e], "st-c02")[0], {"fn-prefix"})
    e = copy.deepcopy(next(x for x in ev if x["l1"]["kind"] == "mod" and x["obs"]["expanded"] and x["l1"]["close"] > 12))
    e["obs"]["out"][8], e["obs"]["out"][9] = e["obs"]["out"][9], e["obs"]["out"][8]
    got = revalidate(chk, "Trace_C02", [e], "st-c02m")[0]
    if e["obs"]["out"][8] == e["obs"]["out"][9]:
        got.add("mod-prefix")
    expect("C02: two module tokens reordered", got, {"mod-prefix"})

    # ---- C10: flip a gating flag
    ev = need_trace("C10", "trace-Trace_C10.ndjson")
    e = copy.deepcopy(next(x for x in ev if x["obs"]["unimock"]))
    e["obs"]["ugated"] = not e["obs"]["ugated"]
    expect("C10: gating flag of the unimock derivation flipped", revalidate(chk, "Trace_C10", [e], "st-c10")[0], {"gated-unless-exporting"})

    # ---- C16: a generated name equal to the fn name
    ev = need_trace("C16", "trace.ndjson")
    e = copy.deepcopy(next(x for x in ev if len(x["obs"]["tname"]) >= 1))
    e["obs"]["tname"][0] = dict(e["l1"]["f"])
    expect("C16: parameter named like the function", revalidate(chk, "Trace_C16", [e], "st-c16")[0], {"noshadow"})

    # ---- C20: a repeated key with another output
    ev = need_trace("C20", "trace-Trace_Session.ndjson")
    t = copy.deepcopy(ev[:50])
    k0 = t[0]["key"]
    j = next(i for i in range(1, len(ev)) if ev[i]["key"] == k0)
    t.append(dict(ev[j], out=ev[j]["out"] + 100000, case="tampered"))
    expect("C20: same key, other output", revalidate(chk, "Trace_Session", t, "st-c20")[0], {"same-key-same-output"})

    # ---- the pipeline model: one field of a recorded expansion's shape, or of its abstract input, changed
    ev = need_trace("C02", "trace-Trace_Expand-suite.ndjson")
    base = [e for e in ev if e["inp"]["target"] == "fn" and len(e["obs"]) == 3 and "=>fn(self," in e["obs"][2]][:3] + [e for e in ev if e["inp"]["target"] == "trait"][:2]
    _, d0 = vf.validate(chk, "Trace_Expand", base, name="st-exp-clean")
    expect("expand: unmodified suite records conform", {"conform"} if not d0 else {"drift"}, {"conform"})
    t = copy.deepcopy(base)
    t[0]["obs"][2] = t[0]["obs"][2].replace("=>fn(self,", "=>fn(-,")        # the delegating call no longer passes self
    _, d1 = vf.validate(chk, "Trace_Expand", t, name="st-exp-call")
    expect("expand: delegating call shape changed", {d["case"] for d in d1}, {t[0]["case"]})
    t = copy.deepcopy(base)
    t[3]["inp"]["tr"]["methods"][0]["async"] = not t[3]["inp"]["tr"]["methods"][0]["async"]   # the model is told another input
    _, d2 = vf.validate(chk, "Trace_Expand", t, name="st-exp-in")
    expect("expand: abstract input changed (asyncness of a trait method)", {d["case"] for d in d2}, {t[3]["case"]})

    # ---- remove the hook: no record must be a tool error
    crate = vf.Crate(os.path.join(chk.work, "nohook"), "nohook")
    crate.add_case("000000", "#[::entrait::entrait(pub T)]\nfn f<D>(deps: &D) {}\n")
    old = vf.RUSTFLAGS
    vf.RUSTFLAGS = "-Awarnings"
    try:
        try:
            crate.build(mode="check", dump=os.path.join(chk.work, "nohook-dump"))
            results.append(("hook off is a tool error", False, []))
            vf.log("FAIL hook off: the build pipeline accepted a run without expansion records")
        except vf.ToolError as ex:
            results.append(("hook off is a tool error", True, []))
            vf.log("PASS hook off: " + str(ex)[:120])
    finally:
        vf.RUSTFLAGS = old
    chk.cov["evaluations"] = len(results)
    chk.cov["distinct_nontrivial"] = sum(1 for r in results if r[1])
    chk.cov["rule"] = "one corrupted field per trace specification; the corruption must be reported with the intended conjunct"
    chk.cov["samples"] = [{"corruption": r[0], "detected": r[1], "reported": r[2]} for r in results]
    failed = [r for r in results if not r[1]]
    for r in failed:
        chk.violations.append({"case": r[0], "conjunct": "selftest"})
    if failed:
        vf.log(f"VIOLATION property=selftest replay={chk.work}")
    return chk.finish()
