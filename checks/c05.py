"""C05 - concrete-dependency functions yield a leaf trait any application can adopt (driver shared with C06/C07;
spec: MC_C05.tla, Resolve.tla, Runtime.tla; renderer: gen/traitprogs.py render_c05)."""
from checks import c06


def main():
    return c06.main("C05")
