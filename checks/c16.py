"""C16 - generated parameter names are usable for every parameter pattern list.

TLC (MC_C16) explores the three-stage renaming machine over all pattern lists up to the length bound,
checks Level 2 |= Level 1 except on named deviation classes, and dumps every case with its prediction.
Every case is rendered, expanded by the real macro in real rustc (X), compiled (V) and run (R);
TLC (Trace_C16) evaluates Level 1 on the real observations."""
import json
import os

from lib import vf

SYMS_ALL = ["id", "mut", "ref", "at", "raw", "fnname", "fnname_", "rawfn", "gnext", "gprev", "ugnext", "ugprev",
            "wild", "tup2", "tup0", "ts1", "ts1w", "st1", "sts", "refp", "tsu", "nest2", "liftfn", "liftfn_", "tsmut", "stref", "tsat", "tsraw", "implname"]

PRELUDE = """
pub struct N(pub i32);
pub struct N2(pub i32, pub i32);
pub struct S { pub v: i32 }
"""


def name_rec(text):
    raw = text.startswith("r#")
    return {"raw": raw, "base": text[2:] if raw else text, "lc": text[:1].islower()}


def render(case):
    f = ("r#" if case["f"]["raw"] else "") + case["f"]["base"]
    params = ", ".join(case["ptext"])
    body = "vec![" + ", ".join(case["bexpr"]) + "]"
    args = ", ".join(case["vexpr"])
    rk = case.get("rk", "self")
    if rk != "self":
        # a function of an entraited impl block (static / dynamic delegation target of the entraited trait Tr); the trait
        # declares plain parameter names of its own (t1, t2, ..) - the names under test are those of the generated
        # `impl TImpl<EntraitT> for X0`
        tparams = "".join(f", t{n}: {pt.rsplit(': ', 1)[1]}" for n, pt in enumerate(case["ptext"], start=1))
        dyn = rk == "dyn"
        tattr = "TImpl, delegate_by = ref" if dyn else "TImpl, delegate_by = DelegateTr"
        iattr = "#[::entrait::entrait(ref)]" if dyn else "#[::entrait::entrait]"
        glue = ("impl ::core::convert::AsRef<dyn TImpl<Self>> for App0 { fn as_ref(&self) -> &(dyn TImpl<Self> + 'static) { &X0 } }"
                if dyn else "impl DelegateTr<Self> for App0 { type Target = X0; }")
        return f"""use crate::{{N, N2, S}};
#[::entrait::entrait({tattr})]
pub trait Tr {{ fn {f}(&self{tparams}) -> Vec<i32>; }}
pub struct X0;
pub struct App0;
{iattr}
impl TImpl for X0 {{ pub fn {f}<D>(deps: &D{', ' if params else ''}{params}) -> Vec<i32> {{ {body} }} }}
{glue}
pub fn run() -> (Vec<i32>, Vec<i32>) {{
    let app = ::entrait::Impl::new(App0);
    let via_trait = Tr::{f}(&app{', ' if args else ''}{args});
    let direct = X0::{f}(&app{', ' if args else ''}{args});
    (via_trait, direct)
}}
"""
    if case["nodeps"]:
        attr = "#[::entrait::entrait(T, no_deps)]"
        sig = f"fn {f}({params}) -> Vec<i32>"
        direct = f"{f}({args})"
    else:
        attr = "#[::entrait::entrait(T)]"
        sig = f"fn {f}<D>(deps: &D{', ' if params else ''}{params}) -> Vec<i32>"
        direct = f"{f}(&app{', ' if args else ''}{args})"
    via = f"T::{f}(&app{', ' if args else ''}{args})"
    return f"""use crate::{{N, N2, S}};
{attr}
{sig} {{ {body} }}
pub fn run() -> (Vec<i32>, Vec<i32>) {{
    let app = ::entrait::Impl::new(());
    let via_trait = {via};
    let direct = {direct};
    (via_trait, direct)
}}
"""


def observe(case, recs, dropped, rt):
    rk = case.get("rk", "self")
    # (impl-block cases have two invocations: the entraited trait and the impl block - the latter is the one under test)
    rec = next((r for r in (recs or []) if (rk == "self") or any(i["k"] == "impl" and i.get("inherent") for i in r["items"])), None)
    o = {"expanded": False, "panic": False, "tkind": [], "tname": [], "tdeco": [], "inserted": [], "callee": "", "selfarg": False,
         "callargs": [], "compiled": False, "ran": False, "via_trait": [], "direct": [], "errors": [], "diag": []}
    if rec is None:
        raise vf.ToolError(f"C16: no expansion record for case {case['case']} (hook off?)")
    o["panic"] = rec["panic"] is not None
    o["errors"] = rec["errors"]
    if rk == "self":
        trait = next((i for i in rec["items"] if i["k"] == "trait" and i["name"] == "T"), None)
        impl = next((i for i in rec["items"] if i["k"] == "impl" and i["trait"] == "T"), None)
    else:
        # the generated signature is the method of `impl TImpl<EntraitT> for X0`
        impl = next((i for i in rec["items"] if i["k"] == "impl" and not i.get("inherent") and i["trait"] == "TImpl"), None)
        trait = impl
    if not o["panic"] and not rec["errors"] and rec["parse_ok"] and trait and impl and trait["methods"] and impl["methods"]:
        o["expanded"] = True
        m = trait["methods"][0]
        params = list(m["params"])
        if rk != "self" and params and params[0]["name"] == "__impl":
            # the parameter the macro inserts (first typed parameter; after `&self` for dynamic targets)
            o["inserted"] = [name_rec(params[0]["name"])]
            params = params[1:]
        o["tkind"] = [p["kind"] for p in params]
        o["tname"] = [name_rec(p["name"]) for p in params]
        o["tdeco"] = [p["deco"] for p in params]
        call = impl["methods"][0]["call"]
        if call.get("kind") == "fn":
            callee = call["callee"]
            if rk != "self" and callee.startswith("Self::"):
                callee = callee[len("Self::"):]
            o["callee"] = callee[2:] if callee.startswith("r#") else callee
            args = list(call["args"])
            if args and args[0] == ("self" if rk == "self" else "__impl"):
                o["selfarg"] = True
                args = args[1:]
            o["callargs"] = [name_rec(a) for a in args]
    cid = case["case"]
    o["compiled"] = cid not in dropped
    if cid in dropped:
        o["diag"] = [d["code"] + ": " + d["message"][:120] for d in dropped[cid]][:3]
    if cid in rt:
        o["ran"] = True
        o["via_trait"] = rt[cid]["via_trait"]
        o["direct"] = rt[cid]["direct"]
    return o


def main():
    chk = vf.Check("C16")
    thorough = vf.tier() == "thorough"
    maxlen = 3 if thorough else 2
    # ---- 1. model checking + case dump
    specdir = vf._spec_copy(chk.work)
    with open(os.path.join(specdir, "MC_C16.cfg")) as f:
        cfg = f.read().replace("MaxLen = 2", f"MaxLen = {maxlen}").replace("ImplFull = 1", f"ImplFull = {2 if thorough else 1}")
    with open(os.path.join(specdir, "MC_C16.cfg"), "w") as f:
        f.write(cfg)
    cases_file = os.path.join(chk.work, "cases.ndjson")
    res = vf.run_tlc(chk.work, "MC_C16", env={"OUT": cases_file}, workers=8, timeout=3000, heap="8g")
    vf.need_ok(res, "MC_C16")
    chk.add_tlc(res, "MC_C16")
    chk.vacuity(res, ["Simplify", "LiftInner", "Autogenerate", "GenDone", "FixIdentConflicts", "FixDone", "FixImplParamConflicts", "Finish"])
    cases = vf.read_ndjson(cases_file)
    for n, c in enumerate(cases):
        c["case"] = f"{n:06d}"
    # ---- 2. render + build + run
    crate = vf.Crate(os.path.join(chk.work, "crate"), "c16cases")
    crate.prelude = PRELUDE
    for c in cases:
        crate.add_case(c["case"], render(c))

    def main_fn(live):
        rows = ",\n".join(f'        ("{cid}", cases::{crate.cases[cid]}::run as fn() -> (Vec<i32>, Vec<i32>))' for cid in live)
        return ("    let table: &[(&str, fn() -> (Vec<i32>, Vec<i32>))] = &[\n" + rows + "\n    ];\n"
                '    for (id, f) in table { let (a, b) = f(); println!("{{\\"case\\":\\"{}\\",\\"via_trait\\":{:?},\\"direct\\":{:?}}}", id, a, b); }')

    dump = os.path.join(chk.work, "dump")
    dropped, first_dump, iters = crate.build(mode="build", dump=dump, main_fn=main_fn)
    r = crate.run()
    if r.returncode != 0:
        raise vf.ToolError("C16 client binary failed: " + r.stderr[-2000:])
    rt = {}
    for line in r.stdout.splitlines():
        if line.startswith("{"):
            j = json.loads(line)
            rt[j["case"]] = j
    # ---- 3. project the expansion records, build the trace
    recs = vf.project(first_dump, os.path.join(chk.work, "obs.ndjson"))
    by_case = {}
    for rec in recs:
        cid = vf.case_of_file(rec["file"])
        if cid is not None:
            by_case.setdefault(cid, []).append(rec)
    events = []
    for c in cases:
        o = observe(c, by_case.get(c["case"]), dropped, rt)
        events.append({"case": c["case"], "l1": c["l1"], "pred": c["pred"], "obs": o, "cls": c["cls"],
                       "expect": c["expect"]})
    trace = os.path.join(chk.work, "trace.ndjson")
    vf.write_ndjson(trace, events)
    # ---- 4. trace validation
    bad_file = os.path.join(chk.work, "bad.ndjson")
    drift_file = os.path.join(chk.work, "drift.ndjson")
    tres = vf.run_tlc(chk.work, "Trace_C16", env={"TRACE": trace, "OUT": bad_file, "DRIFT": drift_file}, workers=1,
                      timeout=1800, coverage=False, deque=True)
    vf.need_ok(tres, "Trace_C16")
    chk.add_tlc(tres, "Trace_C16")
    bad = vf.read_ndjson(bad_file)
    drift = vf.read_ndjson(drift_file)
    chk.cov["traces_validated_against_impl"] = len(events)
    chk.cov["evaluations"] = len(events)
    chk.cov["distinct_nontrivial"] = len({json.dumps([c["list"], c["f"], c["nodeps"], c["rk"]]) for c in cases if len(c["list"]) > 0})
    chk.cov["rule"] = (f"every pattern list of length <= {maxlen} (quick: plus every list of length 3 over the 6 symbols that interact with generated names) over {len(SYMS_ALL)} pattern symbols x 3 fn names x "
                       "deps/no_deps that is valid Rust in the original function; the same for the functions of entraited impl blocks (static and dynamic delegation targets, where the macro inserts its `__impl` parameter): "
                       f"every list up to length {2 if thorough else 1} and every longer list with a parameter called `__impl`; non-trivial = at least one parameter")
    chk.cov["exhaustive"] = True
    chk.cov["drift"] = len({d["case"] for d in drift})
    chk.cov["build_iterations"] = iters
    chk.cov["rejected_by_rustc"] = len(dropped)
    chk.cov["predicted_deviations"] = sum(1 for c in cases if c["cls"])
    ev_by_case = {e["case"]: e for e in events}
    for d in drift[:5]:
        vf.log(f"SPEC-DRIFT C16 case={d['case']} field={d['field']} obs={ev_by_case[d['case']]['obs'][d['field']]} pred={ev_by_case[d['case']]['pred'][d['field']]}")
    if drift:
        vf.log(f"SPEC-DRIFT C16: {len(drift)} fields on {chk.cov['drift']} cases differ from Level 2's prediction")
    picks = [cases[i] for i in range(0, len(cases), max(1, len(cases) // 5))][:5]
    chk.cov["samples"] = [{"case": c["case"], "fn": c["f"], "nodeps": c["nodeps"], "params": c["ptext"],
                           "observed": ev_by_case[c["case"]]["obs"]} for c in picks]
    for b in bad:
        e = ev_by_case[b["case"]]
        b["detail"] = f"params={cases[int(b['case'])]['ptext']} fn={e['l1']['f']['base']} diag={e['obs'].get('diag')}"

    def write_replay(viol):
        d = chk.replay_dir()
        seen = set()
        for v in viol[:50]:
            if v["case"] in seen:
                continue
            seen.add(v["case"])
            c = cases[int(v["case"])]
            with open(os.path.join(d, f"case_{v['case']}.rs"), "w") as f:
                f.write(render(c))
            with open(os.path.join(d, f"case_{v['case']}.json"), "w") as f:
                json.dump({"violations": [x for x in viol if x["case"] == v["case"]], "event": ev_by_case[v["case"]],
                           "abstract": {k: c[k] for k in ("list", "f", "nodeps", "rk", "ptext")}}, f, indent=1)
        return d

    chk.reconcile(bad, write_replay)
    chk.assumptions += ["rustc/cargo decide `compiled`", "projector (syn) parses the recorded output tokens",
                        "pattern types are i32 / small structs; names, not types, are the subject"]
    return chk.finish()
