"""C18 - foreign attributes stay where the user put them.

TLC (MC_C18) models the generator's attribute flow (fn attributes re-emitted on the fn only; parameter attributes
stripped from converted signatures; module / impl-block fn attributes not copied except `cfg`, which guards the
generated methods too; trait-method attributes mirrored onto the delegating methods) for every placement x
attribute kind and checks Level 1 on it.  Every input is rendered with a marker attribute, expanded by the real
macro and compiled; the projector locates the marker in the parsed expansion (on the user's item, on generated
traits / impls, on their methods, on parameters of generated signatures); TLC (Trace_C18) judges the counts and
the compile verdict (a cfg-disabled function must not leave a dangling method)."""
import json
import os

from lib import vf, expand

MARK = {"doc": "/// MARKER-DOC", "lint": "#[allow(unused_variables)]", "cfgon": "#[cfg(all())]", "cfgoff": "#[cfg(any())]",
        "tool": "#[rustfmt::skip]", "inert": "#[must_use]", "cfgattr": "#[cfg_attr(all(), allow(unused_variables))]", "cfgonoff": "#[cfg(all())]\n    #[cfg(any())]",
        "cfgattroff": "#[cfg_attr(all(), cfg(any()))]"}
TEXT = {"doc": '# [ doc = " MARKER-DOC" ]', "lint": "# [ allow ( unused_variables ) ]", "cfgon": "# [ cfg ( all ( ) ) ]",
        "cfgoff": "# [ cfg ( any ( ) ) ]", "tool": "# [ rustfmt :: skip ]", "inert": "# [ must_use ]",
        "cfgattr": "# [ cfg_attr ( all ( ) , allow ( unused_variables ) ) ]", "cfgonoff": "# [ cfg ( any ( ) ) ]",
        "cfgattroff": "# [ cfg_attr ( all ( ) , cfg ( any ( ) ) ) ]"}


def render(i):
    m = MARK[i["kind"]]
    if i.get("extra") == "before":
        m = "#[allow(dead_code)]\n    " + m
    elif i.get("extra") == "after":
        m = m + "\n    #[allow(dead_code)]"
    a = "async " if i["async"] else ""
    nd = ", no_deps" if i["nodeps"] else ""
    deps = "" if i["nodeps"] else "deps: &D, "
    gen = "" if i["nodeps"] else "<D>"
    p = i["place"]
    if p == "fn":
        return f"#[::entrait::entrait(pub T{nd})]\n{m}\n{a}fn f{gen}({deps}x: i32) -> i32 {{ x }}\n"
    if p == "param":
        prm = {"ident": "x: i32", "wild": "_: i32", "destr": "(x, _y): (i32, i32)"}[i.get("pat", "ident")]
        return f"#[::entrait::entrait(pub T{nd})]\n{a}fn f{gen}({deps}{m} {prm}) -> i32 {{ 1 }}\n"
    if p == "modfn":
        return (f"#[::entrait::entrait(pub T{nd})]\npub mod m {{\n    pub {a}fn keep{gen}({deps}x: i32) -> i32 {{ x }}\n    {m}\n"
                f"    pub {a}fn f{gen}({deps}x: i32) -> i32 {{ x }}\n}}\n")
    if p == "implfn":
        at = "async " if i["async"] else ""
        return (f"#[::entrait::entrait(TI, delegate_by = Del)]\npub trait Tr {{\n    {at}fn keep(&self, x: i32) -> i32;\n    {m}\n    {at}fn f(&self, x: i32) -> i32;\n}}\n"
                f"pub struct X;\n#[::entrait::entrait]\nimpl TI for X {{\n    pub {at}fn keep<D>(deps: &D, x: i32) -> i32 {{ x }}\n    {m}\n"
                f"    pub {at}fn f<D>(deps: &D, x: i32) -> i32 {{ x }}\n}}\n")
    if p == "traitmethod":
        at = "async " if i["async"] else ""
        return f"#[::entrait::entrait]\npub trait Tr {{\n    {at}fn keep(&self, x: i32) -> i32;\n    {m}\n    {at}fn f(&self, x: i32) -> i32;\n}}\n"
    raise vf.ToolError(p)


def count(attrs, text):
    return sum(1 for a in attrs if a["text"] == text)


def observe(i, recs):
    t = TEXT[i["kind"]]
    o = {"expanded": False, "orig": 0, "gen_items": 0, "gen_trait_methods": 0, "gen_impl_methods": 0, "gen_params": 0}
    p = i["place"]
    for n, r in enumerate(recs):
        if r["panic"] is not None or r["errors"] or not r["parse_ok"]:
            continue
        o["expanded"] = True

        def walk(items, user_names):
            for it in items:
                if it["k"] == "mod":
                    walk(it["items"], user_names)
                    continue
                if it["k"] == "fn":
                    if it["name"] == "f":
                        o["orig"] += count(it["attrs"], t)
                        for prm in it["params"]:
                            if p == "param":
                                o["orig"] += count(prm["attrs"], t)
                    continue
                if it["k"] == "trait":
                    is_user = it["name"] == "Tr"
                    if not is_user:
                        o["gen_items"] += count(it["attrs"], t)
                    for m in it["methods"]:
                        c = count(m["attrs"], t)
                        if is_user and n == 0:
                            o["orig"] += c if p == "traitmethod" else 0
                        elif not (is_user and n > 0):
                            o["gen_trait_methods"] += c
                        if not is_user:
                            for prm in m["params"]:
                                o["gen_params"] += count(prm["attrs"], t)
                    continue
                if it["k"] == "impl":
                    if it["inherent"]:
                        for m in it["methods"]:
                            if m["name"] == "f":
                                o["orig"] += count(m["attrs"], t)
                        continue
                    o["gen_items"] += count(it["attrs"], t)
                    for m in it["methods"]:
                        o["gen_impl_methods"] += count(m["attrs"], t)
                        for prm in m["params"]:
                            o["gen_params"] += count(prm["attrs"], t)
        walk(r["items"], None)
        if p != "implfn":
            break           # nested invocations re-emit what the first one produced
    return o


def main():
    chk = vf.Check("C18")
    thorough = vf.tier() == "thorough"
    cases, res = vf.mc_cases(chk, "MC_C18", cfg_edits=({'Extras = {"none"}': 'Extras = {"none", "before", "after"}'} if thorough else None),
                             actions=["AttributeFlow"], workers=4)
    crate = vf.Crate(os.path.join(chk.work, "crate"), "c18cases", deps=["vt"])
    for c in cases:
        crate.add_case(c["case"], render(c["in"]))
    dump = os.path.join(chk.work, "dump")
    dropped, first_dump, iters = crate.build(mode="check", dump=dump, max_iter=20)
    by_case, allrecs = vf.records_by_case(chk, first_dump)
    expand.conformance(chk, allrecs, "attrs")         # attribute placements against the pipeline model (spec/Expand.tla)
    events = []
    for c in cases:
        cid = c["case"]
        recs = sorted(by_case.get(cid, []), key=lambda r: (r["pid"], r["seq"]))
        if not recs:
            raise vf.ToolError(f"C18: no expansion record for case {cid}")
        if c["in"]["place"] == "implfn":
            recs = [r for r in recs if r["tok"]["input_kind"] == "impl"] or recs
        o = observe(c["in"], recs)
        o["compiled"] = cid not in dropped
        o["diag"] = [d["message"][:120] for d in dropped.get(cid, [])][:2]
        events.append({"case": cid, "l1": {"place": c["in"]["place"], "kind": c["in"]["kind"]}, "obs": o, "pred": c["pred"], "cls": ""})
    bad, drift = vf.validate(chk, "Trace_C18", events)
    byid = {c["case"]: c for c in cases}
    ev = {e["case"]: e for e in events}
    chk.cov["evaluations"] = len(events)
    chk.cov["distinct_nontrivial"] = sum(1 for e in events if e["obs"]["expanded"])
    chk.cov["rule"] = (("thorough: every input also with an unrelated `#[allow(dead_code)]` before / after the marker; " if thorough else "") + "attribute kind {doc, lint, enabled cfg, disabled cfg, tool attribute, inert built-in, cfg_attr, two stacked cfgs (enabled then disabled)} x placement {fn, parameter (identifier, `_` and destructuring patterns), module fn, "
                       "impl-block fn, trait method} x sync/async x deps/no_deps (where the combination is legal Rust); all replayed")
    chk.cov["exhaustive"] = True
    vf.report_drift(chk, drift, lambda d: f"in={byid[d['case']]['in']} obs={ev[d['case']]['obs']}")
    chk.cov["samples"] = [{"in": byid[e["case"]]["in"], "observed": e["obs"]} for e in events[::15][:5]]
    for b in bad:
        b["detail"] = f"in={byid[b['case']]['in']} obs={ev[b['case']]['obs']}"

    def write_replay(viol):
        d = chk.replay_dir()
        for cid in sorted({v["case"] for v in viol})[:30]:
            with open(os.path.join(d, f"case_{cid}.rs"), "w") as f:
                f.write(render(byid[cid]["in"]))
            with open(os.path.join(d, f"case_{cid}.json"), "w") as f:
                json.dump({"violations": [x for x in viol if x["case"] == cid], "event": ev[cid]}, f, indent=1)
        return d

    chk.reconcile(bad, write_replay)
    chk.assumptions += ["an attribute is identified by its canonical token text; spans are not observable"]
    return chk.finish()
