"""C11 - unimock wiring: named mock API, and un-mocked calls reach the real function.

TLC (MC_C11) models the positional `unmock_with` list (f | f(a..) | _) per method and drives mock / partial /
impl scenarios through the Level-1 machine.  The programs (fn, mod of 2..3 same-signature fns, entraited trait;
generic / impl / no_deps / concrete dependencies; sync/async; parameters incl. same-typed and destructured ones)
are built with the real macro (unimock feature on) and run against unimock 0.6.8: a mocked call must hand the
caller's arguments in order to the answer function and return its answer without entering the real function; a
partial mock must run the method's own function with the mock object as dependency and give the Impl<T> result;
concrete-dependency functions and entraited traits must panic as not un-mockable.  The mock API is named through
exactly the `mock_api` identifier (compilation of the scenarios)."""
import json
import os
import random

from lib import vf
from gen import mockprogs
from checks import c01


def main():
    chk = vf.Check("C11")
    thorough = vf.tier() == "thorough"
    cases, res = vf.mc_cases(chk, "MC_C11", cfg_edits=({"MaxParams = 2": "MaxParams = 3"} if thorough else None),
                             actions=["TraitCall", "MockMatch", "Unmock", "Delegate", "FnBody", "TraitRet"], workers=8)
    rng = random.Random(vf.seed())
    if thorough:
        sel = cases
    else:
        groups = {}
        for c in cases:
            p = c["prog"]
            groups.setdefault((p["mode"], p["deps"], p["async"], len(p["params"]), p.get("stamp", False), p.get("featoff", False), p.get("viafeat", False), "lstr" in p["params"]), []).append(c)
        sel = []
        for k in sorted(groups, key=str):
            g = groups[k]
            rng.shuffle(g)
            sel += g[:4]
    progs = {}
    for c in sel:
        c["feature"] = not c["prog"].get("featoff", False)
        progs[c["case"]] = mockprogs.render("c" + c["case"], c, vf.seed())
    events, dropped, recs = c01.run_programs(chk, sel, progs, "c11", mockprogs.PRELUDE, ["vt"], off_deps=["unimock"])
    bad, drift = vf.validate(chk, "Trace_Runtime", events, timeout=2400)
    byid = {c["case"]: c for c in sel}
    # drift: the unmock_with list in the recorded expansion vs Level 2
    ndrift = 0
    for c in sel:
        for r in recs.get(c["case"], []):
            for it in r["items"]:
                traits = [it] if it["k"] == "trait" else [x for x in it.get("items", []) if x["k"] == "trait"] if it["k"] == "mod" else []
                for t in traits:
                    for a in t["attrs"]:
                        if a["kind"] == "unimock" and "unmock_with" in a["args"]:
                            lst = a["args"].split("unmock_with = [", 1)[1].rsplit("]", 1)[0]
                            kinds = []
                            depth = 0
                            cur = ""
                            for ch in lst + ",":
                                if ch == "," and depth == 0:
                                    e = cur.strip()
                                    if e:
                                        kinds.append("none" if e == "_" else ("fnargs" if "(" in e else "fn"))
                                    cur = ""
                                else:
                                    depth += ch == "("
                                    depth -= ch == ")"
                                    cur += ch
                            if kinds != c["unmock"]:
                                ndrift += 1
                                vf.log(f"SPEC-DRIFT C11 case={c['case']} unmock_with observed={kinds} predicted={c['unmock']}")
    chk.cov["drift"] = ndrift
    chk.cov["evaluations"] = sum(1 for e in events if e["e"] == "scenario")
    chk.cov["events"] = len(events)
    chk.cov["programs_replayed"] = len(sel)
    chk.cov["programs_enumerated"] = len(cases)
    chk.cov["programs_rejected_by_rustc"] = len(dropped)
    chk.cov["distinct_nontrivial"] = len({json.dumps(c["prog"], sort_keys=True) for c in sel if c["case"] not in dropped})
    chk.cov["rule"] = ("mockable programs: fn | mod of 2..3 same-signature fns | entraited trait x deps {generic &D, &impl Bound, no_deps, concrete} x "
                       "sync/async x {unimock switched on by the `unimock` option; by the cargo feature alone, through `entrait_export(.., export = true)`} x {entrait's unimock feature on; off, with the `unimock` option and the crate's own unimock dependency (sync, <= 1 parameter)} x <= N parameters of kinds {i32, String, &str, &'l str with an explicit lifetime parameter of the function, destructured tuple}; scenarios mock / partial / impl (or "
                       "partial-panics for concrete deps and traits) per method; quick: four seeded programs per (mode, deps, async, arity)")
    chk.cov["exhaustive"] = bool(thorough)
    chk.cov["samples"] = [{"program": c["prog"], "scenarios": c["scens"], "unmock_with": c["unmock"]} for c in sel[:: max(1, len(sel) // 5)][:5]]
    for b in bad:
        b["detail"] = f"scenario={b['sc']} at={b['at']} program={byid[b['case']]['prog']}"
    for cid, why in c01.CRASHED.items():
        bad.append({"case": cid, "conjunct": "runs-to-completion", "cls": "", "detail": f"program={byid[cid]['prog']} {why}"})
    for c in sel:
        if not c["compiles"] and c["case"] not in dropped:
            ndrift += 1
            vf.log(f"SPEC-DRIFT C11 case={c['case']} compiles although Level 2 predicts that it cannot (program={c['prog']})")
    chk.cov["drift"] = ndrift
    for cid in dropped:
        bad.append({"case": cid, "conjunct": "mock-api-nameable-and-compiles", # (the named deviation is the missing re-export, nothing else that may go wrong in such a program)
                    "cls": byid[cid].get("cls", "") if any("cannot find `__unimock` in `entrait`" in d["message"] for d in dropped[cid]) else "",
                    "detail": f"program={byid[cid]['prog']} diag={[d['message'][:160] for d in dropped[cid]][:2]}"})

    def write_replay(viol):
        d = chk.replay_dir()
        for cid in sorted({v["case"] for v in viol})[:30]:
            with open(os.path.join(d, f"case_{cid}.rs"), "w") as f:
                f.write(progs[cid][0])
            with open(os.path.join(d, f"case_{cid}.json"), "w") as f:
                json.dump({"violations": [x for x in viol if x["case"] == cid], "program": byid[cid]["prog"]}, f, indent=1)
        return d

    chk.reconcile(bad, write_replay)
    chk.assumptions += ["unimock 0.6.8 as shipped decides clause matching and un-mocking; entrait's part is the attribute it emits"]
    return chk.finish()
