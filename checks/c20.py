"""C20 - expansion is a pure function of (attribute, item).

Spec: Session.tla (memo of key -> output across processes); TLC model-checks the pure session (Functional
holds) and an impure one (a counter leaking into outputs: Functional must be violated - vacuity guard).
Code: a corpus (hand-written invocations that need several generated names, seeded random fns/mods/impl blocks,
every invocation twice per process, plus the repository's own suite) is expanded in K separate rustc processes
with permuted module order, different job counts and environments; TLC (Trace_Session) replays the records of
all processes as one history and checks that equal keys never yield different outputs."""
import glob
import json
import os
import random
import subprocess

from lib import vf, toks, suite
from gen import corpus
from checks import c08, c16

# variables that build tools, CI services and documentation builders are known to set (a macro that consults any of them is not a
# function of (attribute, item))
WELL_KNOWN = {"DOCS_RS": "1", "CI": "true", "GITHUB_ACTIONS": "true", "SOURCE_DATE_EPOCH": "0", "NO_COLOR": "1", "CLICOLOR_FORCE": "1", "TERM": "dumb",
              "PROFILE": "release", "DEBUG": "false", "OPT_LEVEL": "3", "TARGET": "x86_64-unknown-linux-gnu", "HOST": "x86_64-unknown-linux-gnu",
              "RUST_LOG": "trace", "RUSTDOC": "rustdoc", "CARGO_PRIMARY_PACKAGE": "1", "CARGO_CFG_TEST": "1", "RUSTC_BOOTSTRAP": "0",
              "ENTRAIT_DEBUG": "1", "ENTRAIT_EXPORT": "1", "UNIMOCK": "1", "MOCKALL": "1", "USER": "nobody", "TMPDIR": "/var/tmp"}
ENVS = [{"LANG": "C", "LC_ALL": "C"}, WELL_KNOWN, {"LANG": "tr_TR.UTF-8", "LC_ALL": "tr_TR.UTF-8", "TZ": "Pacific/Kiritimati"},
        {"LANG": "en_US.UTF-8", "RUST_BACKTRACE": "1", "TMPDIR": "/tmp", "COLUMNS": "40"}, {"CARGO_BUILD_JOBS": "1", "RAYON_NUM_THREADS": "1"}]


def main():
    chk = vf.Check("C20")
    thorough = vf.tier() == "thorough"
    # ---- model level
    m1 = vf.run_tlc(chk.work, "Session", cfg="MC_Session", workers=4, timeout=600)
    vf.need_ok(m1, "MC_Session")
    chk.add_tlc(m1, "MC_Session")
    chk.vacuity(m1, ["StartProcess", "EndProcess", "Invoke"])
    m2 = vf.run_tlc(chk.work, "Session", cfg="MC_Session_impure", workers=4, timeout=600, tag="impure")
    if not m2["invariant_violated"]:
        raise vf.ToolError("C20: the impure session model does not violate Functional: the invariant is vacuous")
    chk.cov["impure_model_violates_functional"] = True
    # ---- code level
    nproc = 16 if thorough else 4
    norders = 8 if thorough else 2
    corp = corpus.build(vf.seed(), nrand=(600 if thorough else 200))
    # the renaming stages keep per-signature state (taken identifiers, retry loops): every pattern list of the C16 model up to
    # length 2 that contains an interaction symbol (names equal to the function's, to a would-be generated or would-be renamed
    # one) joins the corpus, so that such state leaking from one invocation into the next shows as order dependence
    pcases, _ = vf.mc_cases(chk, "MC_C16", actions=["Simplify", "LiftInner", "Autogenerate", "GenDone", "FixIdentConflicts", "FixDone", "FixImplParamConflicts", "Finish"])
    inter = {"fnname", "fnname_", "rawfn", "gnext", "gprev", "ugnext", "ugprev", "liftfn", "liftfn_", "wild", "tup2", "implname"}
    pick = [c for c in pcases if inter & set(c["list"])]
    prng = random.Random(vf.seed())
    prng.shuffle(pick)
    pick = pick if thorough else pick[:500]
    for c in pick:
        corp.append((f"p{c['case']}", c16.render(c)))
    chk.cov["pattern_list_invocations"] = len(pick)
    crate = vf.Crate(os.path.join(chk.work, "crate"), "c20cases", deps=["vt", "async-trait"])
    crate.prelude = c08.PRELUDE + "pub struct X;\n" + c16.PRELUDE
    for cid, src in corp:
        crate.add_case(cid + "a", src)
        crate.add_case(cid + "b", src)      # the same invocation twice in one process
    ids = list(crate.cases)
    events = []
    run = 0
    for p in range(nproc):
        order = list(ids)
        rng = random.Random(vf.seed() * 1000 + (p % norders))
        if p % norders:
            rng.shuffle(order)
        with open(os.path.join(crate.root, "src", "cases", "mod.rs"), "w") as f:
            for c in order:
                f.write(f"pub mod {crate.cases[c]};\n")
        with open(os.path.join(crate.root, "src", "main.rs"), "w") as f:
            f.write(crate.crate_attrs + crate.prelude + f"\n// process {p}\npub mod cases;\nfn main() {{}}\n")
        dump = os.path.join(chk.work, f"dump{p}")
        for f in glob.glob(dump + ".*"):
            os.remove(f)
        env = vf.cargo_env(dump)
        env.update(ENVS[p % len(ENVS)])
        chk.cov.setdefault("environments", []).append(sorted(ENVS[p % len(ENVS)]))
        jobs = ["-j1"] if p % 2 else []
        subprocess.run(["cargo", "check", "--offline", *jobs], cwd=crate.root, env=env, capture_output=True, text=True, timeout=1800)
        files = sorted(glob.glob(dump + ".*"))
        if not files:
            raise vf.ToolError(f"C20: process {p} recorded nothing (hook off?)")
        for fpath in files:
            with open(fpath) as f:
                for line in f:
                    r = json.loads(line)
                    events.append((p, r))
    # the repository's own suite, twice
    for k in range(2):
        sd = suite.build_suite(chk.work, os.path.join(chk.work, f"suitedump{k}"), extra_env=ENVS[k])
        with open(sd) as f:
            for line in f:
                events.append((nproc + k, json.loads(line)))
    kint, oint = {}, {}
    trace = []
    meta = {}
    for n, (p, r) in enumerate(events):
        key = json.dumps([r["macro"], r["attr"], r["input"]])
        out = json.dumps([r["output"], r.get("panic")])
        kid = kint.setdefault(key, len(kint) + 1)
        oid = oint.setdefault(out, len(oint) + 1)
        cid = f"{n:06d}"
        trace.append({"case": cid, "run": p, "pid": r["pid"], "seq": r["seq"], "key": kid, "out": oid})
        meta[cid] = {"process": p, "file": r["file"], "line": r["line"], "macro": r["macro"], "key": kid, "out": oid}
    bad, drift = vf.validate(chk, "Trace_Session", trace, timeout=2400)
    if drift:
        raise vf.ToolError(f"C20: hook sequence numbers are not increasing within a process: {drift[:3]}")
    per_key = {}
    for t in trace:
        per_key.setdefault(t["key"], []).append(t)
    chk.cov["evaluations"] = len(trace)
    chk.cov["processes"] = len({(t["run"], t["pid"]) for t in trace})
    chk.cov["distinct_keys"] = len(kint)
    chk.cov["distinct_nontrivial"] = sum(1 for k, v in per_key.items() if len({(x["run"], x["pid"]) for x in v}) >= 2)
    chk.cov["rule"] = (f"{len(corp)} corpus invocations (hand-written generated-name-heavy signatures, seeded random fn/mod/impl inputs), each "
                       f"twice per process, in {nproc} rustc processes x {norders} module orders x job counts x environments, plus the "
                       "repository suite twice; non-trivial = a key observed in at least two different processes")
    chk.cov["exhaustive"] = False
    pick = [t for t in trace[:: max(1, len(trace) // 4)]][:4]
    chk.cov["samples"] = [{**meta[t["case"]], "times_seen": len(per_key[t["key"]])} for t in pick]
    for b in bad:
        m = meta[b["case"]]
        first = per_key[m["key"]][0]
        b["detail"] = f"{m} differs from first occurrence {meta[first['case']]}"
    recs_by_case = {f"{n:06d}": r for n, (p, r) in enumerate(events)}

    def write_replay(viol):
        d = chk.replay_dir()
        for v in viol[:20]:
            m = meta[v["case"]]
            first = per_key[m["key"]][0]
            with open(os.path.join(d, f"case_{v['case']}.json"), "w") as f:
                json.dump({"violation": v, "this": recs_by_case[v["case"]], "first": recs_by_case[first["case"]]}, f, indent=1)
        return d

    chk.reconcile(bad, write_replay)
    chk.assumptions += ["key = (macro variant, attribute tokens, item tokens) as recorded by the hook; spans are not part of it",
                        "hash seeds differ per process (std RandomState); job counts / locale / TZ / HOME varied per process"]
    return chk.finish()
