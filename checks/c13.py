"""C13 - generated traits have exactly the requested visibility.

TLC (MC_C13) computes, for every requested visibility x item visibility x fn / mod / trait input x probe location
(same module, child, sibling, parent, other crate), where the generator puts the trait and with which visibility,
and checks accessibility of the user-visible name against Req!Accessible of the REQUEST (never wider, never
narrower, independent of the item's own visibility).  Every (input, location) is replayed: the item is expanded by
the real macro inside a module tree and a `use` of the trait from the location is compiled (positive and negative
probes; negative ones must fail with privacy errors only).  TLC (Trace_C13) compares the verdicts."""
import json
import os

from lib import vf

PRIVACY = {"E0603", "E0432", "E0433", "E0364", "E0365", "E0624"}


def item(i):
    vis = (i["vis"] + " ") if i["vis"] else ""
    iv = (i["itemvis"] + " ") if i["itemvis"] else ""
    mac = "entrait_export" if i.get("exp") == "macro" else "entrait"
    opt = ", export" if i.get("exp") == "option" else ""
    if i["mode"] == "fn":
        return f"#[::entrait::{mac}({vis}T{opt})]\n    {iv}fn f<D>(deps: &D) {{}}"
    if i["mode"] == "mod":
        return f"#[::entrait::{mac}({vis}T{opt})]\n    {iv}mod m {{ pub fn f<D>(deps: &D) {{}} }}"
    # (the delegation-target trait is called TI: the generated `trait DelegateTr<T>` shadows a trait named `T`, see C19)
    # for trait inputs `itemvis` is the visibility keyword written before the delegation-target trait's name in the
    # attribute: it must not matter - the target trait takes the visibility of the original trait
    inner = "\n        //! inner documentation of the trait\n        " if i.get("inner") else " "
    return f"#[::entrait::entrait({iv}TI, delegate_by = DelegateTr)]\n    {vis}trait Tr {{{inner}fn m(&self); }}"


def tname(i):
    if i.get("via") == "inmod":
        return "m::T"
    if i.get("via") == "deleg":
        return "DelegateTr"
    return "TI" if i["mode"] == "trait" else "T"


def render(i, lib_path=None, modname=None):
    loc = i["loc"]
    it = item(i)
    if modname:
        # `p` of the model is the case module itself
        it = it.replace("pub(in crate::cases::p)", f"pub(in crate::cases::{modname})")
    probe = "#[allow(unused_imports)] use {} as _Probe;"
    inner, outer = "", ""
    t = tname(i)
    if loc == "same":
        inner = probe.format("self::" + t)
    elif loc == "child":
        inner = "pub mod child { " + probe.format("super::" + t) + " }"
    elif loc == "sibling":
        outer = "pub mod sibling { " + probe.format("super::d::" + t) + " }"
    elif loc == "parent":
        outer = probe.format("self::d::" + t)
    return f"pub mod d {{\n    {it}\n    {inner}\n}}\n{outer}\n"


def main():
    chk = vf.Check("C13")
    thorough = vf.tier() == "thorough"
    cases, res = vf.mc_cases(chk, "MC_C13", cfg_edits=({"Deep = FALSE": "Deep = TRUE"} if thorough else None),
                             actions=["GenTraitVisibility", "ResolveProbe"], workers=4)
    lib = vf.Crate(os.path.join(chk.work, "c13lib"), "c13lib", lib=True)
    ext = vf.Crate(os.path.join(chk.work, "c13ext"), "c13ext", deps=[f'c13lib = {{ path = "{os.path.join(chk.work, "c13lib")}" }}'], entrait=False)
    for c in cases:
        i = c["in"]
        if i["loc"] == "other-crate":
            # the item lives in the library (it must compile there), the probe in the dependent crate
            lib.add_case("x" + c["case"], render({**i, "loc": "none"}, modname="cx" + c["case"]))
            ext.add_case(c["case"], f"#[allow(unused_imports)] use ::c13lib::cases::cx{c['case']}::d::{tname(i)} as _Probe;\n")
        elif i["loc"] == "cousin":
            # the item in one case module, the probe in another module of the same crate
            lib.add_case("y" + c["case"], render({**i, "loc": "none"}, modname="cy" + c["case"]))
            lib.add_case("u" + c["case"], f"#[allow(unused_imports)] use crate::cases::cy{c['case']}::d::{tname(i)} as _Probe;\n")
        else:
            lib.add_case(c["case"], render(i, modname="c" + c["case"]))
    dump = os.path.join(chk.work, "dump")
    dropped_lib, first_dump, it1 = lib.build(mode="check", dump=dump)
    bad_items = [k for k in dropped_lib if k.startswith("x") or k.startswith("y")]
    if bad_items:
        raise vf.ToolError(f"C13: library items of other-crate probes do not compile: {bad_items[:3]} {dropped_lib[bad_items[0]][:1]}")
    dropped_ext, _, it2 = ext.build(mode="check", dump=None)
    by_case, _ = vf.records_by_case(chk, first_dump)
    events = []
    for c in cases:
        cid = c["case"]
        i = c["in"]
        d = dropped_ext.get(cid) if i["loc"] == "other-crate" else dropped_lib.get("u" + cid) if i["loc"] == "cousin" else dropped_lib.get(cid)
        codes = sorted({x["code"] for x in d}) if d else []
        recs = by_case.get(("x" + cid) if i["loc"] == "other-crate" else ("y" + cid) if i["loc"] == "cousin" else cid) or []
        vistext = None
        for r in sorted(recs, key=lambda r: (r["pid"], r["seq"]))[:1]:
            for it in r["items"]:
                if i.get("via") == "inmod":
                    if it["k"] == "mod":
                        for sub in it["items"]:
                            if sub["k"] == "trait" and sub["name"] == "T":
                                vistext = sub["vis"]
                    continue
                if it["k"] == "trait" and it["name"] == tname(i):
                    vistext = it["vis"]
                if it["k"] == "use" and it["path"].endswith("::T"):
                    vistext = it["vis"]
        if vistext is None:
            raise vf.ToolError(f"C13: cannot find the generated trait T in the expansion of case {cid}")
        o = {"compiled": d is None, "privacyonly": all(cd in PRIVACY for cd in codes) if d else True, "codes": codes,
             "vistext": vistext, "diag": [x["message"][:100] for x in (d or [])][:2]}
        events.append({"case": cid, "l1": c["l1"], "obs": o, "pred": c["pred"], "predvis": ("pub(super)" if (i.get("via") == "inmod" and i["vis"] in ("", "pub(self)")) else "pub(in super::super)" if (i.get("via") == "inmod" and i["vis"] == "pub(super)") else i["vis"]).replace(" ", "").replace("crate::cases::p)", "crate::cases::" + ("cx" if i["loc"] == "other-crate" else "cy" if i["loc"] == "cousin" else "c") + cid + ")"), "cls": ""})
    bad, drift = vf.validate(chk, "Trace_C13", events)
    byid = {c["case"]: c for c in cases}
    ev = {e["case"]: e for e in events}
    chk.cov["evaluations"] = len(events)
    chk.cov["distinct_nontrivial"] = sum(1 for e in events if not e["obs"]["compiled"])
    chk.cov["positive_probes"] = sum(1 for e in events if e["obs"]["compiled"])
    chk.cov["rule"] = (("thorough: also pub(self) / pub(in crate::cases) on modules, pub(super) / pub(in crate::cases) on entraited traits, and exporting invocations with every requested visibility; " if thorough else "") + "requested visibility {none, pub, pub(crate), and for fn inputs pub(super), pub(in crate::cases), pub(in crate::cases::<the module of the case>)} x item visibility (for trait inputs: the visibility keyword written before the target trait's name) {none, pub, "
                       "pub(crate)} x {fn, mod, trait (delegation-target trait)} x {plain, `export` option, entrait_export} (fn / mod, requests none and pub(crate)) x probe location {same module, child, sibling, parent, cousin (another module of the crate, outside the parent), other crate}; module inputs are probed through both names, the "
                       "re-export D::T and the trait itself D::m::T (from the locations that can name m); "
                       "all points replayed; non-trivial = negative probe (naming the trait must NOT compile)")
    chk.cov["exhaustive"] = True
    vf.report_drift(chk, drift, lambda d: f"in={byid[d['case']]['in']} obs={ev[d['case']]['obs']}")
    chk.cov["samples"] = [{"in": byid[e["case"]]["in"], "compiled": e["obs"]["compiled"], "codes": e["obs"]["codes"]} for e in events[::30][:5]]
    for b in bad:
        b["detail"] = f"in={byid[b['case']]['in']} obs={ev[b['case']]['obs']}"

    def write_replay(viol):
        d = chk.replay_dir()
        for cid in sorted({v["case"] for v in viol})[:30]:
            with open(os.path.join(d, f"case_{cid}.rs"), "w") as f:
                f.write("// module crate::cases::c<id>\n" + render(byid[cid]["in"], modname="c" + cid))
            with open(os.path.join(d, f"case_{cid}.json"), "w") as f:
                json.dump({"violations": [x for x in viol if x["case"] == cid], "event": ev[cid]}, f, indent=1)
        return d

    chk.reconcile(bad, write_replay)
    chk.assumptions += ["rustc's privacy checker decides each probe; all enclosing modules of the test crates are `pub`"]
    return chk.finish()
