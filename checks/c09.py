"""C09 - an entraited trait definition is preserved.

TLC (MC_C09) applies the two stages analyze_trait -> gen_trait_def to every subset of 13 trait components under 8
trait-mode option sets and checks that nothing the user wrote is lost (except on named deviation classes).  The
traits are rendered and expanded by the real macro; the projector parses the user's trait (hook input) and the
emitted trait (hook output) with syn, independently of the macro, into a component-wise normal form; TLC
(Trace_C09) compares the two component by component (Req!C09), allowing only macro-owned attributes to be added
and the documented async rewrite."""
import glob
import json
import os
import random
import subprocess

from lib import vf, expand

OPTS = {"none": "", "unimock": "mock_api = Mk, unimock", "mockall": "mockall", "ref": "delegate_by = ref", "borrow": "delegate_by = Borrow",
        "static-di": "TrImpl, delegate_by = DelegateTr", "dyn-di": "TrImpl, delegate_by = ref", "async_trait": ""}
PREDFAIL = {"unsafe": "unsafe", "default-body": "default-bodies", "assoc-type": "assoc-types"}


def render(c):
    cs = set(c["comps"])
    lines = []
    lines.append(f"#[::entrait::entrait({OPTS[c['opt']]})]")
    if "doc" in cs:
        lines.append("/// The trait's documentation.\n/// Second line with `code`.")
    if "lint" in cs:
        lines.append("#[allow(dead_code, clippy::needless_lifetimes)]")
    if c["opt"] == "async_trait":
        lines.append("#[::async_trait::async_trait]")
    # (a written visibility rotates over pub / pub(crate) / pub(super) / pub(in path))
    vis = ["pub ", "pub(crate) ", "pub(super) ", "pub(in crate::cases) "][int(c["case"]) % 4] if "pubvis" in cs else ""
    head = vis + ("unsafe " if "unsafe" in cs else "") + "trait Tr"
    if "generics" in cs:
        g = "G: Clone" if "where" not in cs else "G"
        head += {"type": f"<{g}>", "const-first": f"<const N: usize, {g}>", "lifetime": f"<'t, {g}>", "default": f"<{g} = u8>",
                 "mixed": f"<'t, const N: usize, {g} = u8>", "lifetime-where": f"<'t, 'u, {g}>"}[c["gk"]]
    if "supertrait" in cs:
        head += ": Sup + 'static"
    preds = (["'t: 'u"] if c.get("gk") == "lifetime-where" else []) + (["G: Clone + Send"] if "where" in cs else [])
    if preds:
        head += " where " + ", ".join(preds)
    body = []
    if "doc" in cs and int(c["case"]) % 2 == 1:
        body.append("    //! Inner documentation of the trait.\n    #![allow(non_snake_case)]")
    if "assoc-type" in cs:
        body.append("    /// An associated type.\n    type A: Send;")
    m = ""
    if "method-attr" in cs:
        m += "    /// Method documentation.\n    #[must_use]\n"
    if "method-cfg" in cs:
        m += "    #[cfg(all())]\n"
    m += "    fn m(&self, a: i32) -> i32" + (" { a + 1 }" if "default-body" in cs else ";")
    body.append(m)
    if "two-methods" in cs:
        body.append("    fn second<'a>(&'a self, s: &'a str, _: u8) -> &'a str;")
    if "async" in cs:
        body.append("    async fn n(&self, b: u8) -> u8;")
        body.append("    async fn unit(&self);")
    return "pub trait Sup {}\n" + "\n".join(lines) + "\n" + head + " {\n" + "\n".join(body) + "\n}\n"


def shape(m):
    g = m["generics"]
    gen = "<" + ",".join(p["text"] for p in g["params"]) + ">" if g["params"] else ""
    wh = " where " + ",".join(w["text"] for w in g["where"]) if g["where"] else ""
    recv = m["recv"].get("text", "") if m["recv"]["kind"] != "none" else ""
    ps = [recv] if recv else []
    ps += [p["text"] + ":" + p["ty"] + "".join("#" + a["text"] for a in p["attrs"]) for p in m["params"]]
    return ("const " if m["const"] else "") + ("unsafe " if m["unsafe"] else "") + m["abi"] + " fn " + m["name"] + gen + "(" + ",".join(ps) + ")" + wh


def normal(t):
    if t is None:
        return {"found": False, "name": "", "vis": "", "unsafe": False, "generics": [], "where": [], "supers": [], "attrs": [], "methods": [], "assoc": []}
    ms = []
    for m in t["methods"]:
        fut = m["fut"] or {}
        ms.append({"name": m["name"], "attrs": [a["text"] for a in m["attrs"]], "shape": shape(m), "async": m["async"],
                   "ret": "" if m["fut"] else m["ret"].replace(" ", ""), "futout": fut.get("output", "").replace(" ", ""), "futsend": fut.get("send", False),
                   "futpath": fut.get("future_path", ""), "default": m["default"]})
    return {"found": True, "name": t["name"], "vis": t["vis"], "unsafe": t["unsafe"], "generics": [p["text"] for p in t["generics"]["params"]],
            "where": [w["text"] for w in t["generics"]["where"]], "supers": t["supers"],
            # (an inner attribute `#![..]` and the outer `#[..]` are the same attribute of the trait)
            "attrs": [{"text": a["text"].replace("# ! [", "# [", 1), "kind": a["kind"]} for a in t["attrs"]], "methods": ms,
            "assoc": [a["text"] for a in t["assoc_types"]] + t["other_items"]}


def main():
    chk = vf.Check("C09")
    thorough = vf.tier() == "thorough"
    cases, res = vf.mc_cases(chk, "MC_C09", actions=["AnalyzeTrait", "GenTraitDef"], workers=12, heap="12g")
    rng = random.Random(vf.seed())
    small = [c for c in cases if len(c["comps"]) <= 2]
    full = [c for c in cases if len(c["comps"]) >= 11]
    rest = [c for c in cases if 2 < len(c["comps"]) < 11]
    rng.shuffle(rest)
    # (thorough: TLC has model-checked every component set; one crate of all of them no longer type-checks within the hour,
    #  so the replay takes every small and every (nearly) full set plus a seeded 5 000 of the others)
    sel = small + full + rest[:(5000 if thorough else 1500)]
    chk.cov["component_sets_model_checked"] = len(cases)
    crate = vf.Crate(os.path.join(chk.work, "crate"), "c09cases", deps=["async-trait"])
    for c in sel:
        crate.add_case(c["case"], render(c))
    crate.write_root(None)
    dump = os.path.join(chk.work, "dump")
    subprocess.run(["cargo", "check", "--offline", "--message-format=json"], cwd=crate.root, env=vf.cargo_env(dump),
                   capture_output=True, text=True, timeout=(5400 if thorough else 1800))
    allf = dump + "-all"
    with open(allf, "w") as o:
        for f in sorted(glob.glob(dump + ".*")):
            with open(f) as fin:
                o.write(fin.read())
    by_case, allrecs = vf.records_by_case(chk, allf)
    expand.conformance(chk, allrecs, "traits")        # every replayed trait against the pipeline model (spec/Expand.tla)
    events = []
    for c in sel:
        recs = sorted(by_case.get(c["case"], []), key=lambda r: (r["pid"], r["seq"]))
        if not recs:
            raise vf.ToolError(f"C09: no expansion record for case {c['case']} (hook off or the rendered trait does not parse)")
        r = recs[0]
        tin = next((i for i in r["in_items"] if i["k"] == "trait" and i["name"] == "Tr"), None)
        tout = next((i for i in r["items"] if i["k"] == "trait" and i["name"] == "Tr"), None)
        if tin is None:
            raise vf.ToolError(f"C09: the projector cannot find the input trait of case {c['case']}")
        events.append({"case": c["case"], "i": normal(tin), "o": normal(tout), "cls": c["cls"],
                       "predfail": sorted({PREDFAIL[d] for d in c["dropped"]}), "errors": r["errors"]})
    bad, drift = vf.validate(chk, "Trace_C09", events, timeout=2400)
    byid = {c["case"]: c for c in sel}
    ev = {e["case"]: e for e in events}
    chk.cov["evaluations"] = len(events)
    chk.cov["cases_enumerated"] = len(cases)
    chk.cov["distinct_nontrivial"] = sum(1 for e in events if e["o"]["found"] and len(byid[e["case"]]["comps"]) >= 1)
    chk.cov["rule"] = ("every subset of 13 trait components {doc (every second case additionally as inner doc + inner lint attribute), lint attribute, pub, unsafe, generics (6 shapes: type / const-before-type / lifetime / defaulted / all / two lifetimes with an outlives where-predicate), supertrait, where, default body, "
                       "associated type, method doc/attribute, method cfg, async methods, second method} x 8 trait-mode option sets; quick: all "
                       "subsets of size <= 2 and >= 11 plus 1500 seeded others; non-trivial = expanded and at least one component")
    chk.cov["exhaustive"] = False      # (the model check is exhaustive over the component sets; the replay is a seeded sample in both tiers)
    vf.report_drift(chk, drift, lambda d: f"comps={byid[d['case']]['comps']} opt={byid[d['case']]['opt']} errors={ev[d['case']]['errors']}")
    chk.cov["samples"] = [{"comps": c["comps"], "gk": c["gk"], "opt": c["opt"], "emitted_attrs": [a["text"] for a in ev[c["case"]]["o"]["attrs"]]}
                          for c in sel[:: max(1, len(sel) // 4)][:4]]
    for b in bad:
        c = byid[b["case"]]
        b["detail"] = f"comps={c['comps']} gk={c['gk']} opt={c['opt']} errors={ev[b['case']]['errors']}"
        # a deviation class only covers its own conjunct
        want = {"unsafe-trait-dropped": {"unsafe"}, "associated-types-dropped": {"assoc-types", "unsafe", "default-bodies"},
                "default-method-body-dropped": {"default-bodies"}}
        allowed = {PREDFAIL[d] for d in c["dropped"]}
        if b["conjunct"] not in allowed:
            b["cls"] = ""
        else:
            b["cls"] = {"unsafe": "unsafe-trait-dropped", "assoc-types": "associated-types-dropped", "default-bodies": "default-method-body-dropped"}[b["conjunct"]]

    def write_replay(viol):
        d = chk.replay_dir()
        for cid in sorted({v["case"] for v in viol})[:30]:
            with open(os.path.join(d, f"case_{cid}.rs"), "w") as f:
                f.write(render(byid[cid]))
            with open(os.path.join(d, f"case_{cid}.json"), "w") as f:
                json.dump({"violations": [x for x in viol if x["case"] == cid], "event": ev[cid]}, f, indent=1)
        return d

    chk.reconcile(bad, write_replay)
    chk.assumptions += ["component identity = canonical token text as parsed by syn from the hook's token lists"]
    return chk.finish()
