"""C02 - append-only: the annotated fn / mod / impl items are emitted unchanged.

Design level: TLC (MC_Items) shows that the item splitter partitions every module / impl body of the
catalogue into consecutive chunks (lossless re-emission).  Code level: TLC (Trace_C02) evaluates the
token relations of Level 1 on the REAL (input, output) token streams recorded by the hook for
 (a) every TLC-enumerated module and impl body,
 (b) seeded random fns / mods / impl blocks with rich attributes, qualifiers and token soups,
 (c) the repository's own test-suite, built with the hook on."""
import json
import os
import random

from lib import vf, toks, suite, expand
from gen import soup
from checks import c08

PRELUDE = c08.PRELUDE + """
pub mod helper { }
"""

CE_PREFIX = ["P:j", "P:a", "Icore", "P:j", "P:a", "Icompile_error", "P!a"]


def is_compile_error(out):
    return out[:7] == CE_PREFIX or (len(out) == 0)


def render_impl_case(c):
    """hand-written delegation-target trait + the entraited impl block built from the catalogue items"""
    n = int(c["case"])
    items = "\n    ".join(c08.item_text(c, k) for k in range(len(c["body"])))
    methods = []
    for idx in c["truth"]:
        q = c["quals"][idx - 1]
        methods.append(f"    {'async ' if 'a' in q else ''}fn f{idx}(__impl: &::entrait::Impl<T>) -> u32;")
    return f"""pub trait TI<T>: 'static {{
{chr(10).join(methods)}
}}
pub struct X;
#[::entrait::entrait]
impl TI for X {{
    {items}
}}
"""


def nosp(ts):
    """token identity without the punctuation spacing hint (see Req!C02)"""
    return [t[:2] if t.startswith("P") else t for t in ts]


def l1_of(rec, intern):
    """abstract input of Level 1 (Req!C02) from the recorded input tokens; purely mechanical segmentation"""
    inp = rec["input"]
    kind = toks.input_kind(inp)
    if kind in ("fn", "mod"):
        # an `async_trait` attribute below entrait is moved to the generated items (C12): the original is the item minus it
        _, attrs = toks.skip_attrs(inp)
        drop = set()
        for (a, b) in attrs:
            idents = []
            for t in inp[a:b][2:]:
                if t.startswith("I"):
                    idents.append(t[1:])
                elif t.startswith("G"):
                    break
            if idents and idents[-1] == "async_trait":
                drop.update(range(a, b))
        if drop:
            inp = [t for n, t in enumerate(inp) if n not in drop]
    l1 = {"kind": kind, "toks": intern(nosp(inp)), "close": 0, "keep": [], "sp": [], "bodyFrom": 1}
    if kind == "fn":
        l1["sp"] = intern(inp)
        opens = [idx for idx, t, c in toks.top_level(inp) if t == "G{"]
        l1["bodyFrom"] = (opens[-1] + 1) if opens else 1
    obs_extra = {"closeOut": 0}
    out = rec["output"]
    if kind == "mod":
        i, _ = toks.skip_attrs(inp)
        op = inp.index("G{", i)
        cl = toks.matching_close(inp, op)
        l1["close"] = cl + 1                      # 1-based
        if len(out) > op and out[op] == "G{":
            obs_extra["closeOut"] = toks.matching_close(out, op) + 1
    elif kind == "impl":
        i, attrs = toks.skip_attrs(inp)
        keep = []
        for (a, b) in attrs:
            body = inp[a:b]
            # path of the attribute: identifiers before the first group inside the bracket
            idents = []
            for t in body[2:]:
                if t.startswith("I"):
                    idents.append(t[1:])
                elif t.startswith("G"):
                    break
            if idents and idents[-1] == "async_trait":
                continue
            keep += body
        j = i
        if inp[j] == "Iunsafe":
            keep.append("Iunsafe")
            j += 1
        assert inp[j] == "Iimpl"
        keep.append("Iimpl")
        # trait path up to the top-level `for`, then the self type up to the body
        k = j + 1
        for_idx = None
        body_idx = None
        for idx, t, c in toks.top_level(inp, k):
            if t == "Ifor" and for_idx is None:
                for_idx = idx
            if t == "G{" and for_idx is not None:
                body_idx = idx
                break
        if for_idx is None or body_idx is None:
            kind = "other"
            l1["kind"] = "other"
        else:
            keep += inp[for_idx + 1:body_idx]
            keep += inp[body_idx:toks.matching_close(inp, body_idx) + 1]
            l1["keep"] = intern(nosp(keep))
    return l1, obs_extra


def main():
    chk = vf.Check("C02")
    thorough = vf.tier() == "thorough"
    rng = random.Random(vf.seed())
    edits = {"MaxItems = 2": "MaxItems = 3", "MaxImplItems = 2": "MaxImplItems = 3"} if thorough else None
    cases, res = vf.mc_cases(chk, "MC_Items", cfg_edits=edits,
                             actions=["BeginItem", "ParseSigThenBodyOrSemi", "ScanToBraceOrSemi", "EatTrailingSemis", "Finish"],
                             workers=12, heap="12g")
    crate = vf.Crate(os.path.join(chk.work, "crate"), "c02cases", deps=["vt", "async-trait"])
    crate.prelude = PRELUDE
    origin = {}
    if thorough:
        # 42^3 three-item bodies make one crate of 75 000 modules: replay all bodies of <= 2 items and a seeded 20 000 of the rest
        # (TLC has model-checked all of them)
        small = [c for c in cases if len(c["body"]) <= 2]
        big = [c for c in cases if len(c["body"]) > 2]
        rng.shuffle(big)
        chk.cov["bodies_model_checked"] = len(cases)
        cases = small + big[:20000]
    for c in cases:
        cid = "e" + c["case"]
        if c["mode"] == "mod":
            src = c08.render(c)
        else:
            src = render_impl_case(c)
        crate.add_case(cid, src)
        origin[cid] = ("enumerated-" + c["mode"], c["body"])
    # option sets x item visibilities x both macro names on a small module, fn and impl block: nothing an option turns on may
    # touch the annotated item itself
    OPTS = ["pub T", "T", "pub(crate) T", "pub T, mockall", "pub T, export, mockall", "T, export, mockall", "pub(crate) T, export, mock_api = Mk, unimock",
            "pub T, mock_api = Mk, unimock", "pub T, ?Send", "pub T, no_deps", "pub T, export = false, mockall"]
    k = 0
    for mac in ("entrait", "entrait_export"):
        for opts in OPTS:
            for ivis in ("", "pub ", "pub(crate) "):
                if "no_deps" in opts:
                    body = "pub fn f(a: u32) -> u32 { a }"
                    single = f"{ivis}fn g{k}(a: u32) -> u32 {{ a }}"
                else:
                    body = "pub fn f<D>(d: &D, a: u32) -> u32 { a }"
                    single = f"{ivis}async fn g{k}<D: Sync>(d: &D, a: u32) -> u32 {{ a }}"
                cid = f"o{k:04d}"
                crate.add_case(cid, f"#[::entrait::{mac}({opts})]\n{ivis}mod m {{\n    {body}\n    const K: u8 = 1;\n}}\n")
                origin[cid] = ("options-mod", None)
                cid = f"p{k:04d}"
                crate.add_case(cid, f"#[::entrait::{mac}({opts})]\n{single}\n")
                origin[cid] = ("options-fn", None)
                k += 1
    # attributes below entrait on an impl block: everything except async_trait stays on the inherent impl
    IATTRS = ["#[automock]", "#[mockall::automock]", "#[::mockall::automock]", "/// doc", "#[allow(dead_code)]", "#[cfg(all())]", "#[rustfmt::skip]",
              "#[::async_trait::async_trait]", "#[automock]\n#[allow(dead_code)]", "#[deprecated]\n#[::async_trait::async_trait]\n#[automock]"]
    for k2, ia in enumerate(IATTRS):
        for kind in ("", "ref"):
            cid = f"q{k2:02d}{'d' if kind else 's'}"
            asy = "async " if "async_trait" in ia else ""
            crate.add_case(cid, f"pub trait TI<T>: 'static {{ }}\npub struct X;\n#[::entrait::entrait({kind})]\n{ia}\nimpl TI for X {{\n"
                                f"    pub {asy}fn f<D: Sync>(d: &D, a: u32) -> u32 {{ a }}\n}}\n")
            origin[cid] = ("attrs-impl", None)
    # attributes below entrait on a function / module: all of them stay, in the order written - except async_trait, which moves
    FATTRS = ["#[::async_trait::async_trait]\n/// doc one\n/// doc two\n#[allow(dead_code)]", "/// doc one\n#[::async_trait::async_trait]\n#[deny(unused_variables)]\n#[allow(unused_variables)]",
              "#[allow(dead_code)]\n#[inline]\n/// doc\n#[::async_trait::async_trait]", "/// doc one\n#[allow(dead_code)]\n/// doc two\n#[cfg(all())]"]
    for k4, fa in enumerate(FATTRS):
        crate.add_case(f"a{k4:02d}f", f"#[::entrait::entrait(pub T)]\n{fa}\nasync fn f<D: Sync>(d: &D, a: u32) -> u32 {{ a }}\n")
        origin[f"a{k4:02d}f"] = ("attrs-fn", None)
        crate.add_case(f"a{k4:02d}m", f"#[::entrait::entrait(pub T)]\n{fa.replace('#[inline]', '#[allow(unused)]')}\npub mod m {{\n    pub async fn f<D: Sync>(d: &D, a: u32) -> u32 {{ a }}\n}}\n")
        origin[f"a{k4:02d}m"] = ("attrs-mod", None)
    # items assembled by macro_rules!: fragments arrive wrapped in invisible groups, which carry meaning (`$e * 2` with
    # `$e = 1 + 2`); and syntax that a parse / print round trip normalises away (`fn a<>()`, an empty `where`, `T:`)
    FRAG = [
        ("($e:expr)", "(1 + 2)", "#[::entrait::entrait(pub T)]\nfn f<D>(deps: &D, x: [u8; $e * 2]) -> usize { x.len() }"),
        ("($t:ty)", "(dyn ::core::any::Any + Send)", "#[::entrait::entrait(pub T)]\nfn f<D>(deps: &D, x: &$t) -> u8 { 1 }"),
        ("($p:pat)", "(1 | _)", "#[::entrait::entrait(pub T, no_deps)]\nfn f((x @ $p): i32) -> i32 { x }"),
        ("($e:expr)", "(1 + 2)", "#[::entrait::entrait(pub T)]\npub mod m {\n    pub const K: usize = $e * 2;\n    pub fn f<D>(deps: &D, x: [u8; $e * 2]) -> usize { x.len() + K }\n    fn g() -> usize { $e * 2 }\n}"),
        ("($e:expr)", "(1 + 2)", "pub trait TI<T>: 'static { }\npub struct X;\n#[::entrait::entrait]\nimpl TI for X {\n    const K: usize = $e * 2;\n    pub fn f<D>(deps: &D, x: [u8; $e * 2]) -> usize { x.len() }\n}"),
        ("($b:block)", "({ 1 })", "#[::entrait::entrait(pub T)]\nfn f<D>(deps: &D) -> u8 $b"),
        ("($v:vis)", "(pub(crate))", "#[::entrait::entrait(pub T)]\n$v fn f<D>(deps: &D) -> u8 { 1 }"),
        ("($l:lifetime)", "('a)", "#[::entrait::entrait(pub T)]\nfn f<$l, D>(deps: &$l D, s: &$l str) -> &$l str { s }"),
        ("()", "()", "#[::entrait::entrait(pub T, no_deps)]\nfn f<>(x: u8) -> u8 where { x }"),
        ("()", "()", "#[::entrait::entrait(pub T)]\nfn f<'a:, D:>(deps: &'a D) -> u8 { 1 }"),
        ("()", "()", "#[::entrait::entrait(pub T)]\npub mod m {\n    pub fn f<'a:, D:>(deps: &'a D) -> u8 where { 1 }\n}"),
    ]
    for k3, (pat, arg, item) in enumerate(FRAG):
        cid = f"m{k3:02d}"
        crate.add_case(cid, f"macro_rules! mk {{ {pat} => {{\n{item}\n}} }}\nmk!{arg};\n")
        origin[cid] = ("macro-assembled", None)
    nrand = 6000 if thorough else 1500
    for n in range(nrand):
        kind, attr, item = soup.gen_case(rng, n)
        cid = f"r{n:05d}"
        crate.add_case(cid, f"use crate::nothing;\n{attr}\n{item}\n")
        origin[cid] = ("random-" + kind, None)
    with open(os.path.join(crate.root, "src", "cases", "mod.rs"), "a") as f:
        pass
    dump = os.path.join(chk.work, "dump")
    # type-checking is not needed: the records are written at expansion time; one pass, errors ignored
    crate.write_root(None)
    import glob
    import subprocess
    r = subprocess.run(["cargo", "check", "--offline", "--message-format=json"], cwd=crate.root, env=vf.cargo_env(dump),
                       capture_output=True, text=True, timeout=3600)
    parse_errors = []
    for line in r.stdout.splitlines():
        if line.startswith("{") and '"compiler-message"' in line:
            m = json.loads(line)
            msg = m.get("message", {})
            if msg.get("level") == "error" and ("expected" in msg.get("message", "") and "found" in msg.get("message", "")):
                parse_errors.append(msg.get("rendered", "")[:300])
    dump_all = dump + "-all"
    with open(dump_all, "w") as o:
        for f in sorted(glob.glob(dump + ".*")):
            with open(f) as fin:
                o.write(fin.read())
    by_case, recs = vf.records_by_case(chk, dump_all)
    missing = [cid for cid in origin if cid[1:] and ("e" + cid[1:] if cid[0] == "e" else cid) and (cid.lstrip("") not in by_case)]
    # case ids in file names are prefixed with "c": c + cid
    missing = [cid for cid in origin if cid not in by_case]
    if len(missing) > 0:
        raise vf.ToolError(f"C02: {len(missing)} cases produced no expansion record (rustc parse error in a generated "
                           f"file or hook off), e.g. {missing[:3]}; {parse_errors[:2]}")
    # (c) the repository's own suite
    sdump = suite.build_suite(chk.work, os.path.join(chk.work, "suitedump"))
    srecs = vf.project(sdump, os.path.join(chk.work, "suite-obs.ndjson"))

    intern = toks.Interner()
    events = []
    meta = {}

    def add_event(cid, rec, src, pred_expanded=None):
        kind = toks.input_kind(rec["input"])
        if kind not in ("fn", "mod", "impl"):
            return
        l1, extra = l1_of(rec, intern)
        expanded = rec["panic"] is None and not is_compile_error(rec["output"])
        o = {"expanded": expanded, "out": intern(nosp(rec["output"])), "closeOut": extra["closeOut"],
             "outsp": intern(rec["output"]) if kind == "fn" else []}
        events.append({"case": cid, "l1": l1, "obs": o, "cls": "", "pred_expanded": expanded if pred_expanded is None else pred_expanded})
        meta[cid] = {"origin": src, "kind": kind, "n_in": len(rec["input"]), "n_out": len(rec["output"]),
                     "attr": rec["attr_text"], "expanded": expanded, "file": rec["file"], "line": rec["line"]}

    for cid, (src, body) in origin.items():
        for rec in by_case[cid]:
            add_event(cid, rec, src, pred_expanded=True if src.startswith("enumerated") else None)
    for k, rec in enumerate(srecs):
        add_event(f"suite{k:03d}", rec, "suite:" + os.path.basename(rec["file"]))
    bad, drift = vf.validate(chk, "Trace_C02", events, timeout=2400)
    # the end-to-end pipeline model (spec/Expand.tla): design invariants by TLC, then every recorded invocation of this check
    # (catalogue bodies, random corpus, the repository's suite) must have the shape the model computes for it
    expand.model_check(chk, thorough)
    expand.conformance(chk, srecs, "suite")
    expand.conformance(chk, recs, "corpus")
    chk.cov["evaluations"] = len(events)
    kinds = {}
    for m in meta.values():
        kinds[m["origin"].split(":")[0]] = kinds.get(m["origin"].split(":")[0], 0) + 1
    chk.cov["by_origin"] = kinds
    chk.cov["accepted_by_macro"] = sum(1 for m in meta.values() if m["expanded"])
    chk.cov["distinct_nontrivial"] = len({json.dumps(e["l1"]["toks"]) for e in events if e["obs"]["expanded"] and len(e["l1"]["toks"]) > 8})
    chk.cov["rule"] = ("(a) every catalogue body of spec/Items.tla (mod and impl) up to the tier's item bound, (a') 11 option sets x 3 item visibilities x both macro names on a module and a fn, 10 attribute lists on static and dyn impl blocks, 11 items assembled by macro_rules! from fragments (invisible groups) or with syntax a print round trip normalises, (b) seeded random "
                       "fn/mod/impl inputs with attributes, qualifiers and macro-embedded token soups (gen/soup.py), (c) every "
                       "invocation of the repository's tests/it suite; non-trivial = accepted by the macro and > 8 tokens; "
                       "distinct by input token sequence")
    chk.cov["exhaustive"] = False
    chk.cov["distinct_tokens"] = len(intern.ids)
    vf.report_drift(chk, drift, lambda d: f"{meta[d['case']]}")
    pick = [e for e in events if e["obs"]["expanded"]]
    step = max(1, len(pick) // 4)
    chk.cov["samples"] = [{"case": e["case"], **meta[e["case"]]} for e in pick[::step][:5]]
    ev = {e["case"]: e for e in events}
    for b in bad:
        b["detail"] = json.dumps(meta[b["case"]])
        # class of the input, computed from the tokens: a single fn whose first qualifier is `unsafe`
    recs_by_id = {}

    def write_replay(viol):
        d = chk.replay_dir()
        for cid in sorted({v["case"] for v in viol})[:40]:
            stem = crate.cases.get(cid)
            if stem:
                import shutil
                shutil.copy(os.path.join(crate.root, "src", "cases", stem + ".rs"), os.path.join(d, f"case_{cid}.rs"))
            with open(os.path.join(d, f"case_{cid}.json"), "w") as f:
                json.dump({"violations": [x for x in viol if x["case"] == cid], "meta": meta[cid]}, f, indent=1)
        return d

    chk.reconcile(bad, write_replay)
    chk.assumptions += ["token identity = (kind, text, punctuation spacing) as recorded by the hook; spans are not observable",
                        "rustc's parser accepts the rendered item (attribute macros only ever see parseable items)"]
    return chk.finish()
