"""C07 - dependency inversion: Impl<T> reaches the selected implementation block (driver shared with C06)."""
from checks import c06


def main():
    return c06.main("C07")
