"""C14 - static delegation is zero-cost: no boxing, no dynamic dispatch, no allocation.

TLC (MC_C14) walks call chains of depth 1..3 for every program kind (fn, mod, entraited trait with Self
delegation, static dependency inversion; sync and async; with and without allocating work; plus the dynamic
async_trait control) with Level 2's per-hop allocation cost and checks trait-path allocations = direct-path
allocations for static delegation.  The programs are built with the real macro and run under a counting global
allocator; TLC (Trace_Runtime) compares the allocation counts of the paired scenarios and judges the token scan
of the generated items (no `dyn` / `Box` unless dynamic dispatch was requested)."""
import json
import os

from lib import vf
from gen import allocprogs
from checks import c01

PRELUDE = ("#[global_allocator]\nstatic ALLOC: ::vt::CountingAlloc = ::vt::CountingAlloc;\n"
           "pub trait Marker {}\nimpl<T> Marker for ::entrait::Impl<T> {}\n")


def main():
    chk = vf.Check("C14")
    thorough = vf.tier() == "thorough"
    maxdepth = 6 if thorough else 3
    cases, res = vf.mc_cases(chk, "MC_C14", cfg_edits=({"MaxDepth = 3": f"MaxDepth = {maxdepth}"} if thorough else None),
                             actions=["OuterCall", "NestedCall", "Work"], workers=8)
    progs = {}
    for n, c in enumerate(cases):
        c["feature"] = (n % 2 == 0)
        progs[c["case"]] = allocprogs.render("c" + c["case"], c)
    events, dropped, recs = c01.run_programs(chk, cases, progs, "c14", PRELUDE, ["vt", "async-trait"])
    byid = {c["case"]: c for c in cases}
    # X: token scan of what the macro generated (items other than the user's own fn / mod / inherent impl)
    scan_events = []
    for cid, rlist in recs.items():
        c = byid[cid]
        dyn = box = False
        for r in rlist:
            for it in r["items"]:
                gen_items = []
                if it["k"] in ("trait", "impl"):
                    if it["k"] == "impl" and it.get("inherent"):
                        continue
                    if it["k"] == "trait" and any(x["k"] == "trait" and x["name"] == it["name"] for x in r["in_items"]):
                        # the user's own trait re-emitted; its tokens are the user's
                        continue
                    gen_items.append(it)
                elif it["k"] == "mod":
                    gen_items += [x for x in it["items"] if x["k"] in ("trait", "impl")]
                for g in gen_items:
                    dyn = dyn or g.get("dyn", False)
                    box = box or g.get("box", False)
        scan_events.append({"e": "scenario", "case": cid, "sc": 99, "own": {}, "deps": {}, "expect": "ok", "avail": {}, "pair": "",
                            "allocpair": "", "answer": "", "kind": "genscan"})
        scan_events.append({"e": "genscan", "dyn": dyn, "box": box, "requested": not c["static"]})
    events += scan_events
    bad, drift = vf.validate(chk, "Trace_Runtime", events)
    observed = {}
    cur = None
    for e in events:
        if e["e"] == "scenario":
            cur = (e["case"], e["kind"])
        elif e["e"] == "alloc":
            observed[cur] = e["allocs"]
    ndrift = 0
    for c in cases:
        for k in ("direct", "trait"):
            o = observed.get((c["case"], k))
            if o is not None and o != c["pred"][k]:
                ndrift += 1
                if ndrift <= 5:
                    vf.log(f"SPEC-DRIFT C14 case={c['case']} path={k} observed_allocs={o} predicted={c['pred'][k]} prog={c['prog']}")
    chk.cov["drift"] = ndrift
    chk.cov["evaluations"] = len(observed)
    chk.cov["programs_rejected_by_rustc"] = len(dropped)
    chk.cov["distinct_nontrivial"] = sum(1 for c in cases if c["static"] and c["case"] not in dropped)
    chk.cov["rule"] = ("program kinds {fn, mod, entraited trait (Self), static dependency inversion, dyn async_trait (control)} x call-chain depth "
                       f"1..{maxdepth} " "x sync/async x innermost work {none, 1 allocation, a 4 KiB buffer held across an await} x {1, 2} bounds on each dependency parameter x returning {an owned value, a borrow, an opaque `impl Fn() -> u64` (sync fn / mod)} x {no mock option, `mockall` (fn / mod, depth <= 2)} x {plain, generic over a further type parameter (depth 1), a further by-reference argument}; per program a direct-call and a trait-call scenario measured by a "
                       "counting global allocator (after a warm-up call); non-trivial = static delegation and compiled")
    chk.cov["exhaustive"] = True
    chk.cov["samples"] = [{"program": c["prog"], "allocs": {k: observed.get((c["case"], k)) for k in ("direct", "trait")}} for c in cases[::24][:5]]
    for b in bad:
        c = byid[b["case"]]
        b["detail"] = f"program={c['prog']} allocs={ {k: observed.get((c['case'], k)) for k in ('direct', 'trait')} }"
    for cid, why in c01.CRASHED.items():
        bad.append({"case": cid, "conjunct": "runs-to-completion", "cls": "", "detail": f"program={byid[cid]['prog']} {why}"})
    for cid in dropped:
        bad.append({"case": cid, "conjunct": "compiles", "cls": "", "detail": f"program={byid[cid]['prog']} diag={[d['message'][:140] for d in dropped[cid]][:2]}"})

    def write_replay(viol):
        d = chk.replay_dir()
        for cid in sorted({v["case"] for v in viol})[:30]:
            with open(os.path.join(d, f"case_{cid}.rs"), "w") as f:
                f.write(progs[cid][0])
            with open(os.path.join(d, f"case_{cid}.json"), "w") as f:
                json.dump({"violations": [x for x in viol if x["case"] == cid], "program": byid[cid]["prog"]}, f, indent=1)
        return d

    chk.reconcile(bad, write_replay)
    chk.assumptions += ["allocation = a call of the global allocator's alloc/realloc between the two measurement points",
                        "bodies are non-logging; the hand-written block_on does not allocate"]
    return chk.finish()
