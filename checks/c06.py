"""C06 - entraited traits: Impl<T> forwards every method to T (Self / ref / Borrow).
C07 - dependency inversion: Impl<T> reaches the selected implementation block.

Both checks share this driver (checks/c07.py calls main("C07")).  TLC (MC_C06) drives every abstract trait program
through TraitCall -> RunDelegatingBody (Level 2's call shape) -> provider / target body -> TraitRet against the
guards of the Level-1 machine, and compares Level 2's `T:` bounds with the availability requirement.  The programs
are rendered with logging providers / competing logging targets, built with the real macro and run; TLC
(Trace_Runtime) validates the event logs (own provider/target, that very receiver, arguments in order, exactly
once, result unchanged, nested dependency calls) and the observed availability of `Impl<App>: Trait`."""
import json
import os
import random

from lib import vf
from gen import traitprogs
from checks import c01

KNOWN_CLASS = {"C06": "dyn-async-delegation-demands-send"}


MC = {"C06": ("MC_C06", ["TraitCall", "RunDelegatingBody", "CalleeBody", "TraitRet"]),
      "C07": ("MC_C06", ["TraitCall", "RunDelegatingBody", "CalleeBody", "TraitRet"]),
      "C05": ("MC_C05", ["TraitCall", "ImplTBody", "ConcreteBody", "ProviderBody", "FnBody", "Return"])}
RULE = {"C05": "concrete dependency shapes {ident, path, generic instantiation, tuple, reference with explicit lifetime} x sync/async x "
               "{owned, borrowed-from-deps, borrowed-from-argument} returns x <= N parameters x {not mockable, `mockall`}; per program a direct call, a call on C, on "
               "Impl<C> and on Impl<App> (hand-written `impl Tr for App`), plus availability of C, Impl<C>, App, Impl<App>, X, Impl<X>, "
               "a non-Sync App and its Impl"}


def main(pid="C06"):
    chk = vf.Check(pid)
    thorough = vf.tier() == "thorough"
    module, actions = MC[pid]
    cases, res = vf.mc_cases(chk, module, cfg_edits=({"MaxParams = 2": "MaxParams = 3"} if thorough else None),
                             actions=actions, workers=12, heap="12g")
    for c in cases:
        c["prog"].setdefault("prop", pid)
    cases = [c for c in cases if c["prog"]["prop"] == pid]
    rng = random.Random(vf.seed())
    if not thorough:
        groups = {}
        for c in cases:
            p = c["prog"]
            key = (p["async"], p.get("sel"), p.get("extra"), p.get("kind"), p.get("depbounds"), len(p["params"]), p.get("shape"), p.get("ret"), p.get("target"), p.get("mock"), p.get("mixed"), p.get("typed"))
            groups.setdefault(key, []).append(c)
        sel = []
        for k in sorted(groups, key=str):
            g = groups[k]
            rng.shuffle(g)
            sel += g[:3]
    else:
        sel = cases
    progs = {}
    for n, c in enumerate(sel):
        c["feature"] = (n % 2 == 0)
        render = {"C06": traitprogs.render_c06, "C07": traitprogs.render_c07, "C05": traitprogs.render_c05}[pid]
        progs[c["case"]] = render("c" + c["case"], c, vf.seed())
    events, dropped, recs = c01.run_programs(chk, sel, progs, pid.lower(), "", ["vt", "async-trait"])
    bad, drift = vf.validate(chk, "Trace_Runtime", events, timeout=2400)
    byid = {c["case"]: c for c in sel}
    observed = {}
    cur = None
    for e in events:
        if e["e"] == "scenario":
            cur = e["case"]
        elif e["e"] == "avail":
            observed[(cur, e["probe"])] = e["has"]
    ndrift = 0
    for c in sel:
        for a, v in c["avail"].items():
            k = (c["case"], a)
            if k in observed and observed[k] != v["pred"]:
                ndrift += 1
                if ndrift <= 5:
                    vf.log(f"SPEC-DRIFT {pid} case={c['case']} app={a} observed={observed[k]} predicted={v['pred']} prog={c['prog']}")
    chk.cov["drift"] = ndrift
    nscen = sum(1 for e in events if e["e"] == "scenario")
    chk.cov["evaluations"] = nscen
    chk.cov["events"] = len(events)
    chk.cov["programs_replayed"] = len(sel)
    chk.cov["programs_enumerated"] = len(cases)
    chk.cov["programs_rejected_by_rustc"] = len(dropped)
    chk.cov["distinct_nontrivial"] = len({json.dumps(c["prog"], sort_keys=True) for c in sel if c["case"] not in dropped})
    chk.cov["rule"] = (RULE[pid] + "; non-trivial = compiled") if pid in RULE else ("abstract trait programs of spec/TraitPrograms.tla: " +
                       ("1..3 same-signature methods x <= N parameters x {sync, async fn, async_trait} x {Self, ref, Borrow} x "
                        "{generic trait, where clause, generic method, supertrait, borrowed return}; applications that provide / do not provide / "
                        "are not Sync / are not Send" if pid == "C06" else
                        "1..2 same-signature methods x <= N parameters x {sync, async fn, async_trait} x {static, dyn} x 0..2 further dependency "
                        "bounds exercised by nested calls; two competing targets X1/X2, applications A->X1, B->X2, NoSel") +
                       "; quick: three seeded programs per combination of the non-parameter dimensions; non-trivial = compiled")
    chk.cov["exhaustive"] = bool(thorough)
    chk.cov["samples"] = [{"program": c["prog"], "availability_observed": {k[1]: v for k, v in observed.items() if k[0] == c["case"]}}
                          for c in sel[:: max(1, len(sel) // 4)][:4]]
    for b in bad:
        c = byid[b["case"]]
        b["detail"] = f"scenario={b['sc']} at={b['at']} program={c['prog']} observed_avail={ {k[1]: v for k, v in observed.items() if k[0] == b['case']} }"
        if b["conjunct"] == "available-iff":
            wrong = [a for a, v in c["avail"].items() if observed.get((c["case"], a)) != v["expect"]]
            classes = {c["avail"][a]["cls"] for a in wrong}
            if classes and "" not in classes and len(classes) == 1:
                b["cls"] = classes.pop()
    for cid, why in c01.CRASHED.items():
        bad.append({"case": cid, "conjunct": "runs-to-completion", "cls": "", "detail": f"program={byid[cid]['prog']} {why}"})
    for cid in dropped:
        bad.append({"case": cid, "conjunct": "compiles", "cls": "", "detail": f"program={byid[cid]['prog']} diag={[d['message'][:140] for d in dropped[cid]][:2]}"})

    def write_replay(viol):
        d = chk.replay_dir()
        for cid in sorted({v["case"] for v in viol})[:30]:
            with open(os.path.join(d, f"case_{cid}.rs"), "w") as f:
                f.write(progs[cid][0])
            with open(os.path.join(d, f"case_{cid}.json"), "w") as f:
                json.dump({"violations": [x for x in viol if x["case"] == cid], "program": byid[cid]["prog"]}, f, indent=1)
        return d

    chk.reconcile(bad, write_replay)
    chk.assumptions += ["providers / targets are generated logging bodies; identity = address of the provider object / of the Impl<T> receiver"]
    return chk.finish()
