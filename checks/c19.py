"""C19 - generated code is self-contained: no imports, no std, no name capture.

TLC (MC_C19) tags every name the generator refers to with how it is written (absolute path, method call, the
macro's own parameters, user tokens, third-party output) and resolves them one by one against every scope
variant (clean; each of 15 names shadowed; all shadowed; generated trait named `Send` / `Sync`; no_std): nothing
may be captured.  Fourteen programs (one per input mode / delegation kind) are rendered into each variant - invoked
by absolute path in modules that import nothing - expanded by the real macro, compiled and run (the no_std
variant is a `#![no_std]` library, compile-only); TLC (Trace_C19) requires every variant to compile and to give
the same run-time result and trait availability as the clean-scope run."""
import json
import os

from lib import vf
from gen import scopeprogs as sp


def main():
    chk = vf.Check("C19")
    thorough = vf.tier() == "thorough"
    cases, res = vf.mc_cases(chk, "MC_C19", cfg_edits=({"PairShadows = FALSE": "PairShadows = TRUE"} if thorough else None),
                             actions=["ResolveRef", "Done"], workers=12, heap="12g")
    crate = vf.Crate(os.path.join(chk.work, "crate"), "c19cases", deps=["vt", "async-trait"])
    nostd = vf.Crate(os.path.join(chk.work, "nostd"), "c19nostd", lib=True)
    nostd.crate_attrs = "#![no_std]\n#![allow(warnings)]\n"
    for c in cases:
        if c["kind"] == "no_std":
            if c["prog"] == "di-dyn-at":
                continue            # async_trait needs alloc's Box: third-party requirement
            nostd.add_case(c["case"], sp.source(c["prog"], c["name"], c["shadows"], "c" + c["case"], with_run=False, dname=c.get("dname", "DelegateN")))
        else:
            crate.add_case(c["case"], sp.source(c["prog"], c["name"], c["shadows"], "c" + c["case"], dname=c.get("dname", "DelegateN")))

    def main_fn(live):
        return "\n".join(f"    cases::{crate.cases[cid]}::run();" for cid in live)

    dump = os.path.join(chk.work, "dump")
    dropped, first_dump, iters = crate.build(mode="build", dump=dump, main_fn=main_fn)
    dropped2, _, _ = nostd.build(mode="check", dump=None)
    r = crate.run()
    if r.returncode != 0:
        raise vf.ToolError("C19 client binary failed: " + (r.stderr or r.stdout)[-1500:])
    results, avail = {}, {}
    cur = None
    for line in r.stdout.splitlines():
        if not line.startswith("{"):
            continue
        e = json.loads(line)
        if e["e"] == "scenario":
            cur = e["case"][1:]
            avail[cur] = []
        elif e["e"] == "avail":
            avail[cur].append([e["probe"], e["has"]])
        elif e["e"] == "end":
            results[cur] = e["result"]
    events = []
    order = {"clean": 0}
    for c in sorted(cases, key=lambda c: (order.get(c["kind"], 1), c["case"])):
        cid = c["case"]
        if c["kind"] == "no_std":
            if c["prog"] == "di-dyn-at":
                continue
            compiled, ran = cid not in dropped2, False
            diag = [d["message"][:120] for d in dropped2.get(cid, [])][:2]
        else:
            compiled, ran = cid not in dropped, cid in results
            diag = [d["message"][:120] for d in dropped.get(cid, [])][:2]
        events.append({"case": cid, "prog": c["prog"], "kind": c["kind"], "compiled": compiled, "ran": ran, "result": results.get(cid, ""),
                       "avail": avail.get(cid, []), "pred": c["pred"], "cls": "", "diag": diag, "shadows": c["shadows"], "name": c["name"], "dname": c.get("dname", "DelegateN")})
    bad, drift = vf.validate(chk, "Trace_C19", events)
    ev = {e["case"]: e for e in events}
    chk.cov["evaluations"] = len(events)
    chk.cov["distinct_nontrivial"] = sum(1 for e in events if e["kind"] != "clean")
    chk.cov["run_and_compared_with_clean_scope"] = sum(1 for e in events if e["ran"] and e["kind"] != "clean")
    chk.cov["rule"] = ("17 programs (fn, a chain of fns whose generated traits are each other's dependency bounds, async fn with bounds, by-value deps, mod, concrete deps, entraited trait Self / async / ref / Borrow, "
                       "entraited trait with a by-value receiver, entraited trait / concrete-dependency fn whose own method is called as_ref, "
                       "static dependency inversion, dyn dependency inversion by ref (sync, and async with async_trait) and by Borrow) x scope variants {clean, each of 18 names shadowed (Impl, core, entrait, Future, Send, "
                       "Sync, AsRef, Borrow, Sized, Box, Option, Result, std, a value named like the trait, a value named EntraitT, blanket traits with methods as_ref / borrow / into_inner), all shadowed, "
                       + ("every pair of them shadowed together, " if thorough else "") + "trait named Send / Sync, delegation trait of the static dependency inversion named AsRef / Send / Sync / Impl / Future, #![no_std] library, #![no_implicit_prelude] module}; invoked by absolute path with no imports; non-trivial = not the clean variant")
    chk.cov["exhaustive"] = True
    vf.report_drift(chk, drift, lambda d: f"prog={ev[d['case']]['prog']} kind={ev[d['case']]['kind']} shadows={ev[d['case']]['shadows']} diag={ev[d['case']]['diag']}")
    chk.cov["samples"] = [{k: e[k] for k in ("prog", "kind", "shadows", "name", "compiled", "result", "avail")} for e in events[::45][:5]]
    for b in bad:
        e = ev[b["case"]]
        b["detail"] = f"prog={e['prog']} variant={e['kind']} shadows={e['shadows']} trait_name={e['name']} compiled={e['compiled']} result={e['result']!r} avail={e['avail']} diag={e['diag']}"

    def write_replay(viol):
        d = chk.replay_dir()
        for cid in sorted({v["case"] for v in viol})[:30]:
            e = ev[cid]
            with open(os.path.join(d, f"case_{cid}.rs"), "w") as f:
                f.write(sp.source(e["prog"], e["name"], e["shadows"], "c" + cid, with_run=e["kind"] != "no_std", dname=e.get("dname", "DelegateN")))
            with open(os.path.join(d, f"case_{cid}.json"), "w") as f:
                json.dump({"violations": [x for x in viol if x["case"] == cid], "event": e}, f, indent=1)
        return d

    chk.reconcile(bad, write_replay)
    chk.assumptions += ["client code in the hostile modules uses absolute paths only, so that only the macro's references depend on the scope",
                        "async_trait's own expansion writes a bare `Box` (third party): Box is not shadowed for the async_trait program"]
    return chk.finish()
