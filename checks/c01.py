"""C01 - calling a generated trait method is calling the original function.

TLC (MC_C01) drives, for every abstract fn/mod program (deps kinds x parameter kinds x sync/async x option
sets x 1..3 same-signature functions), the behaviour TraitCall -> RunDelegatingBody -> FnBody -> TraitRet with
Level 2's delegating body and checks the guards of the Level-1 call-stack machine (Runtime).  The programs are
rendered with logging function bodies, built with the real macro under both cargo feature settings and run:
direct-call, trait-call and dropped-future scenarios with seeded injective argument values.  TLC
(Trace_Runtime) accepts the event log iff it is a behaviour of the Level-1 machine."""
import json
import os
import random

from lib import vf
from gen import programs


def pick(cases, thorough, seed):
    """quick: a stratified seeded sample - every (parameter list, deps kind) pair occurs, with three seeded choices of
    the remaining dimensions (mode / number of functions / async / option set)"""
    rng = random.Random(seed)
    groups = {}
    for c in cases:
        groups.setdefault((tuple(c["prog"]["params"]), c["prog"]["deps"], c["prog"].get("hyg", False), c["prog"].get("hygtr", False)), []).append(c)
    out = []
    for k in sorted(groups):
        g = groups[k]
        rng.shuffle(g)
        # (thorough: the parameter lists of length 3 add 4 900 groups: one seeded program of each - the whole family is model-checked
        #  by TLC; replaying all of it logs 1.7 million events, more than one TLC validation run gets through in an hour)
        out += g[:(1 if len(k[0]) > 2 else 3)]
    return out


CRASHED = {}      # case -> description, filled by run_programs (a crash is reported by the caller as a violation)


def run_programs(chk, cases, progs_by_case, name_prefix, prelude, deps, on_prelude="", off_deps=()):
    """builds feature-on and feature-off crates, runs them, returns the enriched event list and expansion records"""
    events = []
    dropped_all = {}
    recs_all = {}
    crashed_all = CRASHED
    crashed_all.clear()
    for feature in (False, True):
        name = f"{name_prefix}{'on' if feature else 'off'}"
        mine = [c for c in cases if c["feature"] == feature]
        if not mine:
            continue
        crate = vf.Crate(os.path.join(chk.work, name), name, features=(["unimock"] if feature else []),
                         deps=deps + (["unimock"] if feature else list(off_deps)))
        crate.prelude = prelude + (on_prelude if feature else "")
        desc = {}
        for c in mine:
            src, d = progs_by_case[c["case"]]
            crate.add_case(c["case"], src)
            desc[c["case"]] = d

        def main_fn(live, crate=crate):
            lines = ['    let skip = ::std::env::var("VT_SKIP").unwrap_or_default();',
                     '    let skip: Vec<&str> = skip.split(\',\').collect();']
            lines += [f'    if !skip.contains(&"{cid}") {{ cases::{crate.cases[cid]}::run(); }}' for cid in live]
            return "\n".join(lines)

        dump = os.path.join(chk.work, name + "-dump")
        dropped, first_dump, iters = crate.build(mode="build", dump=dump, main_fn=main_fn)
        dropped_all.update(dropped)
        by_case, _ = vf.records_by_case(chk, first_dump, name=name + "-obs")
        recs_all.update(by_case)
        # A crash of the client (stack overflow, abort) is an observation about the case that was running, not a tool
        # failure: that case is reported, skipped, and the binary is run again for the others.
        skip = []
        lines_out = []
        for attempt in range(600):
            r = crate.run(timeout=900, env={"VT_SKIP": ",".join(skip)})
            out_lines = [l for l in r.stdout.splitlines() if l.startswith("{")]
            if r.returncode == 0:
                lines_out = out_lines
                break
            last = None
            for l in out_lines:
                if '"e":"scenario"' in l:
                    last = json.loads(l)
            if last is None:
                raise vf.ToolError(f"{name}: client binary failed before any scenario (exit {r.returncode}): " + (r.stderr or r.stdout)[-1500:])
            cid = last["case"][1:]
            crashed_all[cid] = f"client crashed (exit {r.returncode}) in scenario {last['sc']}: " + (r.stderr or "")[-200:].strip()
            skip.append(cid)
        else:
            raise vf.ToolError(f"{name}: client binary keeps crashing")
        for line in lines_out:
            e = json.loads(line)
            e.pop("n", None)
            if e["e"] == "scenario":
                e["case"] = e["case"][1:]          # function ids use the module name "c<case>"
                e.update(desc[e["case"]][e["sc"]])
            events.append(e)
    return events, dropped_all, recs_all


def main():
    chk = vf.Check("C01")
    thorough = vf.tier() == "thorough"
    cases, res = vf.mc_cases(chk, "MC_C01", cfg_edits=({"MaxParams = 2": "MaxParams = 3"} if thorough else None),
                             actions=["TraitCall", "HandOutFuture", "RunDelegatingBody", "FnBody", "TraitRet"], workers=12, heap="12g")
    sel = pick(cases, thorough, vf.seed())
    progs = {}
    for n, c in enumerate(sel):
        c["feature"] = True if c["prog"]["opt"] == "unimock" else (n % 2 == 0)
        pr = programs.Prog("c" + c["case"], c["prog"], c["leaves"], vf.seed())
        src, scs = pr.source()
        progs[c["case"]] = (src, pr.descriptors(scs))
        c["nscen"] = len(scs)
    # the generated case ids are used as module names: programs use "c<case>" in function ids
    events, dropped, recs = run_programs(chk, sel, progs, "c01", programs.PRELUDE, ["vt", "mockall"])
    if dropped:
        # a program of the supported class that does not compile is a finding of C03's kind; here it is only counted
        chk.notes.append(f"{len(dropped)} programs rejected by rustc")
    bad, drift = vf.validate(chk, "Trace_Runtime", events, timeout=2400)
    nscen = sum(1 for e in events if e["e"] == "scenario")
    chk.cov["evaluations"] = nscen
    chk.cov["events"] = len(events)
    chk.cov["programs_replayed"] = len(sel)
    chk.cov["programs_enumerated"] = len(cases)
    chk.cov["programs_rejected_by_rustc"] = len(dropped)
    chk.cov["distinct_nontrivial"] = len({json.dumps(c["prog"], sort_keys=True) for c in sel if c["case"] not in dropped and c["prog"]["params"]})
    chk.cov["rule"] = ("abstract programs of spec/Programs.tla (fn | mod of 2..3 same-signature fns) x deps kind x <= "
                       f"{3 if thorough else 2} parameters of 6 kinds x sync/async x 5 option sets, both cargo feature settings; "
                       "quick replays all programs with <= 1 parameter plus a seeded sample; per method a direct-call, a trait-call "
                       "and (async) a dropped-future scenario with seeded injective values; non-trivial = compiled and has parameters")
    chk.cov["exhaustive"] = False      # (TLC explores the whole family; the replay is a stratified seeded sample in both tiers)
    byid = {c["case"]: c for c in sel}
    chk.cov["samples"] = [{"program": c["prog"], "scenarios": c["nscen"]} for c in sel[:: max(1, len(sel) // 5)][:5]]
    if dropped:
        first = sorted(dropped)[0]
        chk.cov["rejected_example"] = {"program": byid[first]["prog"], "diag": [d["message"][:120] for d in dropped[first]][:2]}
    for b in bad:
        b["detail"] = f"scenario={b['sc']} at={b['at']} program={byid[b['case']]['prog']}"
    for cid, why in CRASHED.items():
        bad.append({"case": cid, "conjunct": "runs-to-completion", "cls": "", "detail": f"program={byid[cid]['prog']} {why}"})
    for cid in dropped:
        bad.append({"case": cid, "conjunct": "compiles", "cls": "", "detail": f"program={byid[cid]['prog']} diag={[d['message'][:100] for d in dropped[cid]][:2]}"})

    def write_replay(viol):
        d = chk.replay_dir()
        for cid in sorted({v["case"] for v in viol})[:30]:
            with open(os.path.join(d, f"case_{cid}.rs"), "w") as f:
                f.write(f"// feature unimock: {byid[cid]['feature']}\n" + progs[cid][0])
            with open(os.path.join(d, f"case_{cid}.json"), "w") as f:
                json.dump({"violations": [x for x in viol if x["case"] == cid], "program": byid[cid]["prog"],
                           "events": [e for e in events if e.get("case") == cid][:3]}, f, indent=1)
        return d

    chk.reconcile(bad, write_replay)
    chk.assumptions += ["function bodies are generated logging bodies; values are seeded injective assignments",
                        "receiver identity = address (borrowed deps) or an id carried by the application (by-value deps)"]
    return chk.finish()
