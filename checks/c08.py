"""C08 - module mode: the trait's methods are exactly the module's non-private functions.

TLC (MC_Items) explores the item-splitting cursor machine over every module body of up to N catalogue
items (each template carries its ground-truth label) and checks `methods found = ground truth`.
Every body is rendered (unique names, a deps parameter on every fn-like thing so that a wrongly included
function shows up as an extra method), expanded by the real macro (X), compiled together with a client
in the parent scope that names the trait and calls every expected method (V), and run (R).
TLC (Trace_C08) evaluates Level 1 on the real observations and the B3 round trip of the renderer."""
import json
import os

from lib import vf, toks

PRELUDE = """
pub struct Wr { pub a: u8 }
pub struct Nt<const N: usize>(*const u8);
pub fn forty_two() -> u32 { 42 }
#[macro_export]
macro_rules! nothing { ($($t:tt)*) => {}; }
"""
TVIS = ["", "pub ", "pub(crate) ", "pub(in crate::cases) ", "pub(super) ", "pub(self) "]


def fname(idx):
    """name of the visible function at (1-based) position idx: DESCENDING with the position, so that source order is not
    alphabetical order"""
    return f"f{10 - idx}"


def mname(c, idx):
    """name of the visible function at (1-based) position idx of the body"""
    if c["body"][idx - 1] in ("cfgoffalt", "cfgonalt"):
        return "alt" + str(int(c["case"].lstrip("w")) + (500000 if c.get("assembled") else 0))
    return fname(idx)


def item_text(c, k):
    return c["texts"][k].replace("fn f{i}", "fn " + fname(k + 1)).replace("{i}", str(k + 1)).replace("{n}", str(int(c["case"].lstrip("w")) + (500000 if c.get("assembled") else 0)))


# templates whose text is one syntactically complete item (what a `$i:item` matcher accepts) without macro definitions of its own
FRAGMENT_OK = {"pubfn", "privfn", "cratefn", "superasync", "selffn", "pubinfn", "unsafefn", "externfn", "constfn", "allquals", "docfn",
               "fnimpl", "wherefn", "privasync", "privconst", "struct", "tstruct", "ustruct", "enum", "implblk", "pubmod", "pubuse",
               "pubconst", "pubstatic", "pubtype", "constbrace", "cfgfn"}


def render(c):
    n = int(c["case"].lstrip("w"))
    tvis = TVIS[n % len(TVIS)]
    items = "\n    ".join(item_text(c, k) for k in range(len(c["body"])))
    if c.get("assembled"):
        # the same module, assembled by a macro_rules! macro: every item reaches the entrait invocation as an `$i:item`
        # fragment, i.e. wrapped in an invisible group
        head = (f"macro_rules! asm {{ ($($i:item)*) => {{\n    #[::entrait::entrait({tvis}T)]\n    pub mod m {{ $($i)* }}\n}}; }}\n"
                f"asm! {{\n    {items}\n}}\n")
    else:
        head = f"#[::entrait::entrait({tvis}T)]\npub mod m {{\n    {items}\n}}\n"
    calls = []
    for idx in c["truth"]:
        q = c["quals"][idx - 1]
        if "X" in q:
            continue            # a cfg-disabled alternative: nothing to call
        call = f"T::{mname(c, idx)}(&app)"
        if "f" in q:
            call = f"({call})()"
        if "a" in q:
            call = f"::vt::block_on({call})"
        if "u" in q:
            call = f"unsafe {{ {call} }}"
        calls.append(call)
    return f"""{head}pub fn run() -> Vec<u32> {{
    let app = ::entrait::Impl::new(());
    let r = vec![{", ".join(calls)}];
    r
}}
"""


def observe(c, recs, dropped, rt):
    o = {"expanded": False, "mnames": [], "compiled": False, "reached": [], "diag": [], "errors": []}
    if not recs:
        raise vf.ToolError(f"C08: no expansion record for case {c['case']} (hook off?)")
    rec = recs[0]
    o["errors"] = rec["errors"]
    if rec["panic"] is None and not rec["errors"] and rec["parse_ok"]:
        mod = next((i for i in rec["items"] if i["k"] == "mod" and i["name"] == "m"), None)
        trait = None
        if mod:
            trait = next((i for i in mod["items"] if i["k"] == "trait" and i["name"] == "T"), None)
        if trait is None:   # tolerate the trait being emitted next to the module
            trait = next((i for i in rec["items"] if i["k"] == "trait" and i["name"] == "T"), None)
        if trait is not None:
            o["expanded"] = True
            o["mnames"] = [m["name"] for m in trait["methods"]]
    cid = c["case"]
    o["compiled"] = cid not in dropped
    if cid in dropped:
        o["diag"] = [d["code"] + ": " + d["message"][:140] for d in dropped[cid]][:3]
    if cid in rt:
        o["reached"] = rt[cid]
    if c.get("assembled"):
        return o, []
    # kinds of the module body as the hook saw it (B3)
    inp = rec["input"]
    op = inp.index("G{")
    cl = toks.matching_close(inp, op)
    return o, toks.kinds_of(inp, op + 1, cl)


def main():
    chk = vf.Check("C08")
    thorough = vf.tier() == "thorough"
    edits = {"MaxItems = 2": "MaxItems = 3"} if thorough else None
    cases, res = vf.mc_cases(chk, "MC_Items", cfg_edits=edits,
                             actions=["BeginItem", "ParseSigThenBodyOrSemi", "ScanToBraceOrSemi", "EatTrailingSemis", "Finish"],
                             workers=12, heap="12g")
    cases = [c for c in cases if c["mode"] == "mod"]
    # macro-assembled twins (spec/Items.tla, "fragments"): the split of a body of wrapped items is the split of the body
    twins = [dict(c, case="w" + c["case"], assembled=True, twin_of=c["case"]) for c in cases
             if c["body"] and len(c["body"]) <= 2 and set(c["body"]) <= FRAGMENT_OK]
    if not thorough:
        twins = twins[::2]
    cases = cases + twins
    crate = vf.Crate(os.path.join(chk.work, "crate"), "c08cases", deps=["vt"])
    crate.prelude = PRELUDE
    for c in cases:
        crate.add_case(c["case"], render(c))

    def main_fn(live):
        rows = ",\n".join(f'        ("{cid}", cases::{crate.cases[cid]}::run as fn() -> Vec<u32>)' for cid in live)
        return ("    let table: &[(&str, fn() -> Vec<u32>)] = &[\n" + rows + "\n    ];\n"
                '    for (id, f) in table { println!("{{\\"case\\":\\"{}\\",\\"r\\":{:?}}}", id, f()); }')

    dump = os.path.join(chk.work, "dump")
    dropped, first_dump, iters = crate.build(mode="build", dump=dump, main_fn=main_fn)
    r = crate.run()
    if r.returncode != 0:
        raise vf.ToolError("C08 client binary failed: " + r.stderr[-2000:])
    rt = {}
    for line in r.stdout.splitlines():
        if line.startswith("{"):
            j = json.loads(line)
            rt[j["case"]] = j["r"]
    by_case, _ = vf.records_by_case(chk, first_dump)
    events = []
    kinds_of_case = {}
    for c in cases:
        o, kinds = observe(c, by_case.get(c["case"]), dropped, rt)
        if c.get("assembled"):
            kinds = kinds_of_case[c["twin_of"]]       # (B3 is about the renderer's item texts: those of the plain twin)
        kinds_of_case[c["case"]] = kinds
        l1 = {"truth": [mname(c, i) for i in c["truth"]], "ids": [i for i in c["truth"] if "X" not in c["quals"][i - 1]]}
        cls = ""
        events.append({"case": c["case"], "l1": l1, "obs": o, "pred": {"mnames": [mname(c, i) for i in c["pred"]]},
                       "kinds_in": kinds, "body": c["body"], "cls": cls})
    bad, drift = vf.validate(chk, "Trace_C08", events)
    ev = {e["case"]: e for e in events}
    chk.cov["evaluations"] = len(events)
    chk.cov["distinct_nontrivial"] = sum(1 for c in cases if len(c["body"]) > 0)
    chk.cov["macro_assembled_twins"] = len(twins)
    chk.cov["rule"] = (f"every module body of <= {3 if thorough else 2} items from the {42}-template catalogue of spec/Items.tla "
                       "(every visibility x qualifier combination of fns, private fns, consts/statics with brace initialisers, "
                       "structs, impls, nested mods, extern blocks, macros, uses, types); plus, for bodies of <= 2 plain items, the same module assembled by a macro_rules! macro "
                       "(every item an `$i:item` fragment); non-trivial = non-empty body")
    chk.cov["exhaustive"] = True
    chk.cov["build_iterations"] = iters
    chk.cov["rejected_by_rustc"] = len(dropped)
    vf.report_drift(chk, drift, lambda d: f"obs={ev[d['case']]['obs']['mnames']} pred={ev[d['case']]['pred']['mnames']} body={ev[d['case']]['body']}")
    if any(d["field"] == "B3-roundtrip" for d in drift):
        raise vf.ToolError("C08: B3 round trip failed: catalogue kinds differ from the rendered tokens")
    step = max(1, len(cases) // 5)
    chk.cov["samples"] = [{"case": c["case"], "body": c["body"], "truth": c["truth"], "observed": ev[c["case"]]["obs"]}
                          for c in cases[::step][:5]]
    for b in bad:
        e = ev[b["case"]]
        b["detail"] = f"body={e['body']} truth={e['l1']['truth']} methods={e['obs']['mnames']} diag={e['obs']['diag']}"

    def write_replay(viol):
        d = chk.replay_dir()
        for cid in sorted({v["case"] for v in viol})[:50]:
            c = cases_by_id[cid]
            with open(os.path.join(d, f"case_{cid}.rs"), "w") as f:
                f.write(render(c))
            with open(os.path.join(d, f"case_{cid}.json"), "w") as f:
                json.dump({"violations": [x for x in viol if x["case"] == cid], "event": ev[cid]}, f, indent=1)
        return d

    cases_by_id = {c["case"]: c for c in cases}
    chk.reconcile(bad, write_replay)
    chk.assumptions += ["rustc/cargo decide `compiled`", "catalogue templates are the item shapes considered; "
                        "their kinds are checked against the rendered tokens (B3)"]
    return chk.finish()
