"""C12 - async methods: exact Output type, Send by default, opt-out honoured; async_trait re-applied.

TLC (MC_C12) models the async part of signature conversion and the re-application of async_trait over fn / mod /
trait / impl-block inputs x return shapes x ?Send and checks Level 1 on the model.  Every input is rendered three
times - with a witness that ascribes the exact Output type to the future and drives it, with a generic caller
that requires `Send`, and with a body holding a !Send value across an await - expanded by the real macro and
compiled; TLC (Trace_C12) judges the compile verdicts (positive and negative) and the projected async signature
and attributes of the emitted trait and impls."""
import json
import os

from lib import vf, expand
from gen import asyncprogs

VARIANTS = ("base", "send", "rc")


def main():
    chk = vf.Check("C12")
    thorough = vf.tier() == "thorough"
    cases, res = vf.mc_cases(chk, "MC_C12", cfg_edits=({"MoreRets = FALSE": "MoreRets = TRUE"} if thorough else None), actions=["MakeTraitFnSig"], workers=4)
    crate = vf.Crate(os.path.join(chk.work, "crate"), "c12cases", deps=["vt", "async-trait"])
    crate.prelude = asyncprogs.PRELUDE
    for c in cases:
        for v in VARIANTS:
            crate.add_case(f"{c['case']}{v}", asyncprogs.render(c["in"], v))
    dump = os.path.join(chk.work, "dump")
    dropped, first_dump, iters = crate.build(mode="check", dump=dump, max_iter=20)
    by_case, allrecs = vf.records_by_case(chk, first_dump)
    expand.conformance(chk, allrecs, "async")         # async inputs of all modes against the pipeline model (spec/Expand.tla)
    events = []
    for c in cases:
        cid = c["case"]
        i = c["in"]
        o = {"expanded": False, "base_compiles": (cid + "base") not in dropped, "w_output": (cid + "base") not in dropped,
             "w_send": (cid + "send") not in dropped, "w_nonsend_body": (cid + "rc") not in dropped, "kept_async": False, "futout": "",
             "futsend": False, "attr_on_trait": False, "attr_on_impls": False, "attr_on_item": False,
             "diag": {v: [d["message"][:110] for d in dropped.get(cid + v, [])][:2] for v in VARIANTS if (cid + v) in dropped}}
        recs = sorted(by_case.get(cid + "base", []), key=lambda r: (r["pid"], r["seq"]))
        trait = None
        impls = []
        for r in recs:
            for it in r["items"]:
                if (it["k"] == "fn" and it["name"] == "f") or (it["k"] == "mod" and it["name"] == "m"):
                    # the annotated item as re-emitted
                    o["attr_on_item"] = o["attr_on_item"] or any(a["kind"] == "async_trait" for a in it.get("attrs", []))
                subs = it["items"] if it["k"] == "mod" else [it]
                for s in subs:
                    if s["k"] == "trait" and s["name"] == "T":
                        trait = s           # a nested invocation re-emits the trait: the last emission is the trait rustc sees
                    if s["k"] == "impl" and not s["inherent"]:
                        impls.append(s)
        if trait is not None:
            m = next((x for x in trait["methods"] if x["name"] == "f"), None)
            if m is not None:
                o["expanded"] = True
                o["kept_async"] = m["async"]
                if m["fut"]:
                    o["futout"] = m["fut"]["output"].replace(" ", "")
                    o["futsend"] = m["fut"]["send"]
                o["attr_on_trait"] = any(a["kind"] == "async_trait" for a in trait["attrs"])
                o["attr_on_impls"] = bool(impls) and all(any(a["kind"] == "async_trait" for a in s["attrs"]) for s in impls)
        events.append({"case": cid, "l1": c["l1"], "obs": o, "pred": c["pred"], "cls": ""})
    bad, drift = vf.validate(chk, "Trace_C12", events)
    byid = {c["case"]: c for c in cases}
    ev = {e["case"]: e for e in events}
    chk.cov["evaluations"] = len(events) * len(VARIANTS)
    chk.cov["distinct_nontrivial"] = sum(1 for e in events if e["obs"]["expanded"])
    chk.cov["negative_probes_rejected"] = sum((not e["obs"]["w_send"]) + (not e["obs"]["w_nonsend_body"]) for e in events)
    chk.cov["rule"] = ("{fn, mod, entraited trait (Self), static dependency inversion, and with async_trait: trait (Self / ref), static / dyn "
                       "dependency inversion; the attribute written bare and as `async_trait(?Send)`} x return {omitted, owned, borrowed from deps, borrowed from an argument, generic" + (", tuple, Result<u8, String>, &'static str" if thorough else "") + "} x ?Send {absent, bare, written `= true` / `= false`} x {plain, with the `mockall` option (fn / mod / trait)}; three "
                       "renderings per input (Output witness + run, Send-requiring generic caller, !Send body); non-trivial = expanded")
    chk.cov["exhaustive"] = True
    chk.cov["build_iterations"] = iters
    vf.report_drift(chk, drift, lambda d: f"in={byid[d['case']]['in']} obs={ev[d['case']]['obs'][d['field']]} pred={byid[d['case']]['pred'][d['field']]} diag={ev[d['case']]['obs']['diag']}")
    chk.cov["samples"] = [{"in": byid[e["case"]]["in"], "observed": {k: v for k, v in e["obs"].items() if k != "diag"}} for e in events[::10][:5]]
    for b in bad:
        b["detail"] = f"in={byid[b['case']]['in']} obs={ev[b['case']]['obs']}"

    def write_replay(viol):
        d = chk.replay_dir()
        for cid in sorted({v["case"] for v in viol})[:20]:
            for v in VARIANTS:
                with open(os.path.join(d, f"case_{cid}_{v}.rs"), "w") as f:
                    f.write(asyncprogs.render(byid[cid]["in"], v))
            with open(os.path.join(d, f"case_{cid}.json"), "w") as f:
                json.dump({"violations": [x for x in viol if x["case"] == cid], "event": ev[cid]}, f, indent=1)
        return d

    chk.reconcile(bad, write_replay)
    chk.assumptions += ["rustc decides the witnesses; a negative witness is any compile error in its file (the positive twin of the same item compiles)"]
    return chk.finish()
