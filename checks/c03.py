"""C03 - every supported signature expands to compiling code with the same call type.

TLC (MC_C03) runs every signature of the supported class (deps: named generic / impl Trait / concrete / none; by
& / &'a / value; further parameters owned, &T, &'a T, generic with inline or where bound, impl Trait, [u8; N];
lifetime where-predicates; const generics; sync/async; unsafe / extern "C"; returns unit, owned, borrowed from deps
or argument, generic; fn, module of one or two functions with different or equal generic names, static / dyn impl
block) through generics collection (a shared accumulator, one step per function) and signature conversion and
checks the static-semantics-lite of the emitted trait and impls.  Each replayed signature is expanded by the real
macro and compiled together with a witness that coerces the function and the generated trait method to ONE
fn-pointer type written from the original signature (async: both futures' Output ascribed)."""
import json
import os

from lib import vf
from gen import sigprogs


def split(src):
    """the witness functions go into a second file so that the verdict on the expansion and on the witness are separate"""
    i = src.index("pub fn witness")
    return src[:i], src[i:]


def main():
    chk = vf.Check("C03")
    thorough = vf.tier() == "thorough"
    edits = {"SampleSize = 2500": "SampleSize = 0"} if thorough else None
    cases, res = vf.mc_cases(chk, "MC_C03", cfg_edits=edits, actions=["AnalyzeFn", "ConvertSignatures", "StaticCheck"], workers=12, heap="12g",
                             timeout=3000)
    # both cargo feature settings of entrait: quick assigns each signature to one of the two crates, thorough builds every
    # signature in both; under the feature a quarter of the signatures also name a mock_api (the derivation stays test-gated)
    crates = {"off": vf.Crate(os.path.join(chk.work, "crate"), "c03cases", deps=["vt"]),
              "on": vf.Crate(os.path.join(chk.work, "crate-on"), "c03on", deps=["vt"], features=("unimock",))}
    srcs = {}
    where = {}
    for n, c in enumerate(cases):
        c["xopt"] = ", mock_api = Mk" if n % 4 == 0 else ""
        where[c["case"]] = ["off", "on"] if thorough else (["on"] if n % 2 == 0 else ["off"])
    for name, crate in crates.items():
        crate.prelude = sigprogs.PRELUDE
        for c in cases:
            if name not in where[c["case"]]:
                continue
            src = sigprogs.render({**c, "xopt": c["xopt"] if name == "on" else ""})
            srcs[c["case"]] = src
            items, wit = split(src)
            crate.add_case(c["case"] + "i", items)
            crate.add_case(c["case"] + "w", src)          # items again + witness (own module, own expansion)
    dropped, iters = {}, 0
    for name, crate in crates.items():
        d, first_dump, it = crate.build(mode="check", dump=os.path.join(chk.work, "dump-" + name), max_iter=20)
        for k, v in d.items():
            dropped.setdefault(k, []).extend(v)
        iters = max(iters, it)
    events = []
    for c in cases:
        cid = c["case"]
        compiled = (cid + "i") not in dropped
        wit = (cid + "w") not in dropped
        o = {"compiled": compiled, "witness": wit,
             "diag": [d["code"] + " " + d["message"][:110] for d in (dropped.get(cid + "i") or dropped.get(cid + "w") or [])][:2]}
        events.append({"case": cid, "obs": o, "pred": c["pred"], "cls": c["cls"]})
    bad, drift = vf.validate(chk, "Trace_C03", events)
    byid = {c["case"]: c for c in cases}
    ev = {e["case"]: e for e in events}
    chk.cov["evaluations"] = len(events)
    chk.cov["distinct_nontrivial"] = len({json.dumps([c["mode"], c["fns"]], sort_keys=True) for c in cases if ev[c["case"]]["obs"]["compiled"] and c["fns"][0]["params"]})
    chk.cov["rule"] = ("signatures of the supported class as enumerated by MC_C03 (16 442 inputs with <= 2 further parameters); quick replays a "
                       "random subset of 2 500 drawn by TLC (RandomSubset), thorough all; per signature the expansion and a fn-pointer / Output "
                       "witness are compiled separately, with entrait's `unimock` feature off or on (quick: one of the two per signature, thorough: both); non-trivial = compiled and has further parameters")
    chk.cov["exhaustive"] = bool(thorough)
    chk.cov["build_iterations"] = iters
    chk.cov["rejected_by_rustc"] = sum(1 for e in events if not e["obs"]["compiled"])
    vf.report_drift(chk, drift, lambda d: f"mode={byid[d['case']]['mode']} fns={byid[d['case']]['fns']} obs={ev[d['case']]['obs']}")
    chk.cov["samples"] = [{"mode": c["mode"], "fn": c["fns"][0], "observed": ev[c["case"]]["obs"]} for c in cases[:: max(1, len(cases) // 5)][:5]]
    for b in bad:
        c = byid[b["case"]]
        b["detail"] = f"mode={c['mode']} fns={c['fns']} obs={ev[b['case']]['obs']}"

    def write_replay(viol):
        d = chk.replay_dir()
        for cid in sorted({v["case"] for v in viol})[:30]:
            with open(os.path.join(d, f"case_{cid}.rs"), "w") as f:
                f.write(srcs[cid])
            with open(os.path.join(d, f"case_{cid}.json"), "w") as f:
                json.dump({"violations": [x for x in viol if x["case"] == cid], "case": byid[cid], "obs": ev[cid]["obs"]}, f, indent=1)
        return d

    chk.reconcile(bad, write_replay)
    chk.assumptions += ["rustc (type, borrow and lifetime checking) decides every verdict; TLA+ enumerates the class and predicts the verdict"]
    return chk.finish()
