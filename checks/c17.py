"""C17 - options mean what the table says; macro variants are option shorthands.

TLC (MC_C17) explores the attribute parser over all well-formed option lists (distinct keys) per target, both
macro names and feature settings, checks that the front end is constant on every metamorphic pair of the
statement, and dumps the pairs and the per-target single-option acceptance cases.  Every invocation of every
pair is expanded by the real macro (two crates: entrait with and without the `unimock` feature); TLC
(Trace_C17) compares the recorded output token streams of each pair and the acceptance verdicts."""
import glob
import json
import os
import subprocess

from lib import vf, toks, items


def expand_all(chk, invs):
    """invs: dict key -> (target, macro, feature, text). Returns key -> projected record."""
    out = {}
    for feature in (False, True):
        name = "c17on" if feature else "c17off"
        crate = vf.Crate(os.path.join(chk.work, name), name, features=(["unimock"] if feature else []),
                         deps=["async-trait"] + (["unimock"] if feature else []))
        keys = [k for k, v in invs.items() if v[2] == feature]
        ids = {}
        for n, k in enumerate(keys):
            target, macro, _, text = invs[k]
            cid = f"{n:06d}"
            ids[cid] = k
            crate.add_case(cid, items.source(target, macro, text))
        crate.write_root(None)
        dump = os.path.join(chk.work, name + "-dump")
        for f in glob.glob(dump + ".*"):
            os.remove(f)
        subprocess.run(["cargo", "check", "--offline", "--message-format=json"], cwd=crate.root, env=vf.cargo_env(dump),
                       capture_output=True, text=True, timeout=1800)
        allf = dump + "-all"
        with open(allf, "w") as o:
            for f in sorted(glob.glob(dump + ".*")):
                with open(f) as fin:
                    o.write(fin.read())
        by_case, _ = vf.records_by_case(chk, allf, name=name + "-obs")
        for cid, k in ids.items():
            recs = by_case.get(cid)
            if not recs:
                raise vf.ToolError(f"C17: no expansion record for {invs[k]} (hook off or rustc parse error)")
            # the first record of the file is the case's own invocation (nested entrait invocations follow)
            out[k] = sorted(recs, key=lambda r: (r["pid"], r["seq"]))[0]
    return out


def main():
    chk = vf.Check("C17")
    thorough = vf.tier() == "thorough"
    edits = {"MaxOpts = 2": "MaxOpts = 3"} if thorough else None
    cases, res = vf.mc_cases(chk, "MC_C17", cfg_edits=edits, actions=["ParseOneOpt", "EndOfOpts", "ApplyVariantFallbacks"],
                             workers=12, heap="12g")
    invs = {}

    def key(i):
        k = json.dumps([i["target"], i["macro"], i["feature"], i["text"]])
        invs[k] = (i["target"], i["macro"], i["feature"], i["text"])
        return k

    for c in cases:
        if c["kind"] == "pair":
            c["lk"], c["rk"] = key(c["left"]), key(c["right"])
        else:
            c["lk"] = key({"target": c["target"], "macro": "entrait", "feature": False, "text": c["text"]})
    recs = expand_all(chk, invs)
    intern = toks.Interner()
    events = []
    for c in cases:
        if c["kind"] == "pair":
            l, r = recs[c["lk"]], recs[c["rk"]]
            events.append({"case": c["case"], "kind": "pair", "rel": c["rel"], "left": intern(l["output"]),
                           "right": intern(r["output"]), "cls": c.get("cls", ""), "obserr": items.err_class(l), "prederr": c["prederr"],
                           "target": c["left"]["target"], "key": "", "wellformed": True, "accepted": True, "panicked": False})
        else:
            r = recs[c["lk"]]
            ec = items.err_class(r)
            events.append({"case": c["case"], "kind": "accept", "rel": "", "left": [], "right": [], "cls": "",
                           "obserr": ec, "prederr": c["prederr"], "target": c["target"], "key": c["key"],
                           "wellformed": c["wellformed"], "accepted": ec == "", "panicked": ec == "panic"})
    bad, drift = vf.validate(chk, "Trace_C17", events, timeout=2400)
    byid = {c["case"]: c for c in cases}
    chk.cov["evaluations"] = len(events)
    chk.cov["invocations_expanded"] = len(invs)
    chk.cov["pairs_by_relation"] = {}
    for c in cases:
        if c["kind"] == "pair":
            chk.cov["pairs_by_relation"][c["rel"]] = chk.cov["pairs_by_relation"].get(c["rel"], 0) + 1
    chk.cov["distinct_nontrivial"] = len({(c["lk"], c.get("rk")) for c in cases if c["kind"] == "pair" and c["lk"] != c["rk"]})
    chk.cov["rule"] = (f"all metamorphic pairs (bare=true, false=omitted, order, export-variant, unimock-feature, explicit-export, explicit-unimock) over option lists "
                       f"of <= {3 if thorough else 2} distinct keys x 4 targets x 2 macro names x 2 feature settings, plus every single "
                       "option token (well- and ill-formed) on every target; non-trivial = the two attribute texts differ")
    chk.cov["exhaustive"] = True
    vf.report_drift(chk, drift, lambda d: f"{byid[d['case']].get('text') or byid[d['case']]['left']} obs={[e for e in events if e['case']==d['case']][0]['obserr']} pred={byid[d['case']]['prederr']}")
    pairs = [c for c in cases if c["kind"] == "pair"]
    step = max(1, len(pairs) // 4)
    chk.cov["samples"] = [{"rel": c["rel"], "left": c["left"], "right": c["right"],
                           "output_tokens": len(recs[c["lk"]]["output"])} for c in pairs[::step][:4]] + \
                         [{"accept": c["text"], "target": c["target"], "observed": items.err_class(recs[c["lk"]])}
                          for c in cases if c["kind"] == "accept"][:3]
    for b in bad:
        c = byid[b["case"]]
        b["detail"] = json.dumps({k: c[k] for k in ("rel", "left", "right") if k in c} if c["kind"] == "pair" else
                                 {"target": c["target"], "attr": c["text"], "observed": items.err_class(recs[c["lk"]])})

    def write_replay(viol):
        d = chk.replay_dir()
        for v in viol[:40]:
            c = byid[v["case"]]
            with open(os.path.join(d, f"case_{v['case']}.json"), "w") as f:
                json.dump({"violation": v, "case": {k: c[k] for k in c if k not in ("lk", "rk")}}, f, indent=1)
            if c["kind"] == "pair":
                for side in ("left", "right"):
                    i = c[side]
                    with open(os.path.join(d, f"case_{v['case']}_{side}.rs"), "w") as f:
                        f.write(f"// feature unimock: {i['feature']}\n" + items.source(i["target"], i["macro"], i["text"]))
        return d

    chk.reconcile(bad, write_replay)
    chk.assumptions += ["output equality is token equality incl. punctuation spacing (spans are not observable)",
                        "acceptance table transcribed from src/lib.rs; `debug` (undocumented) and `no_deps` on modules carry no requirement"]
    return chk.finish()
