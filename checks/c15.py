"""C15 - misuse yields a compile-time diagnostic; the macro never panics.

TLC (MC_C15) drives every option list (well- and ill-formed), every non-supported item kind, every dependency
parameter shape in fn / mod / impl-block mode and a family of trait shapes through the modelled front end and
checks that no outcome is a panic and that each documented misuse is rejected with its own class.  Every case
is replayed through the real macro in real rustc; TLC (Trace_C15) judges the hook's record (panic flag, emitted
tokens) and rustc's diagnostics per case against Level 1, and compares the outcome class with the model."""
import json
import os

from lib import vf, items, expand

PRELUDE = """
pub struct Conc;
pub struct N(pub i32); pub struct N2(pub i32, pub i32); pub struct S { pub v: i32 }
pub struct Gen<T>(pub T);
pub trait Tr {}
pub trait Assoc { type Out; }
impl Assoc for Conc { type Out = Conc; }
#[macro_export]
macro_rules! nothing { ($($t:tt)*) => {}; }
"""
OTHER = {
    "struct": "struct S;", "enum": "enum E { A }", "union": "union U { a: u8 }", "const": "const C: u8 = 1;",
    "static": "static Z: u8 = 1;", "type": "type A = u8;", "use": "use core::fmt;", "modsemi": "mod outofline;",
    "inherent-impl": "impl crate::Conc { }", "extern-block": "extern \"C\" { }", "macro-call": "crate::nothing! { }",
    "unsafe-mod": "unsafe mod m { }", "auto-trait": "auto trait A { }", "extern-crate": "extern crate core as c;",
    "trait-alias": "trait A = Clone;", "unsafe-fn-ok": "unsafe fn f<D>(deps: &D) { }",
}
DELEG = {"none": "", "ref": "delegate_by = ref", "borrow": "delegate_by = Borrow", "custom+target": "TImpl, delegate_by = DelegateTr",
         "ref+target": "TImpl, delegate_by = ref", "custom-only": "delegate_by = DelegateTr", "target-only": "TImpl"}
PAT = {"ident": ", a: i32", "wild": ", _: i32", "tuple": ", (a, b): (i32, i32)", "mut": ", mut a: i32", "none": ""}
EXTRA = {"none": "", "const-item": "const K: u8;", "assoc-type": "type A;", "static-method": "fn s(a: u8) -> u8;",
         "self-by-value": "fn v(self) -> u8;", "default-body": "fn d(&self) -> u8 { 1 }", "generic-method": "fn g<X>(&self, x: X);",
         "macro-item": "crate::nothing! { }"}
VOCAB = ["dependency", "no_deps", "self receiver", "concrete dependenc", "option", "nsupported option", "delegat", "delegate_by"]


def render(rec):
    c = rec["c"]
    k = c["kind"]
    if k == "attr":
        return items.source(c["target"], "entrait", rec["attrtext"])
    if k == "item":
        return f"use crate::Conc;\n#[::entrait::entrait({'T' if c['withname'] else ''})]\n{OTHER[c['item']]}\n"
    if k == "deps":
        nd = {(True, "short"): ", no_deps", (False, "short"): "", (True, "eq"): ", no_deps = true", (False, "eq"): ", no_deps = false"}[(c["nodeps"], c.get("ndform", "short"))]
        use = "use crate::{Conc, Gen};\n"
        if c["mode"] == "fn":
            return f"{use}#[::entrait::entrait(T{nd})]\nfn f<D>({rec['paramtext']}) {{ }}\n"
        if c["mode"] == "mod":
            return (f"{use}#[::entrait::entrait(T{nd})]\nmod m {{\n    use crate::{{Conc, Gen}};\n    pub fn a<D>({rec['secondtext']}) {{ }}\n"
                    f"    pub fn b<D>({rec['paramtext']}) {{ }}\n}}\n")
        return (f"{use}pub struct X;\npub trait TI<T>: 'static {{ }}\n#[::entrait::entrait]\nimpl TI for X {{\n"
                f"    fn a<D>({rec['secondtext']}) {{ }}\n    fn b<D>({rec['paramtext']}) {{ }}\n}}\n")
    if k == "trait":
        return (f"#[::entrait::entrait({DELEG[c['deleg']]})]\ntrait Tr {{\n    fn m(&self{PAT[c['pat']]}) -> i32;\n"
                f"    {EXTRA[c['extra']]}\n}}\n")
    if k == "pat":
        use = "use crate::{N, N2, S};\n"
        f, pt = rec["fname"], rec["ptext"]
        if c["pos"] == "fn":
            return f"{use}#[::entrait::entrait(T)]\nfn {f}<D>(deps: &D, {pt}) {{ }}\n"
        if c["pos"] == "mod":
            return f"{use}#[::entrait::entrait(T)]\nmod m {{\n    use crate::{{N, N2, S}};\n    pub fn {f}<D>(deps: &D, {pt}) {{ }}\n}}\n"
        if c["pos"] == "impl":
            return f"{use}pub struct X;\npub trait TI<T>: 'static {{ }}\n#[::entrait::entrait]\nimpl TI for X {{\n    fn {f}<D>(deps: &D, {pt}) {{ }}\n}}\n"
        return f"{use}#[::entrait::entrait]\ntrait Tr {{\n    fn {f}(&self, {pt});\n}}\n"
    if k == "implpath":
        path = {"plain": "TI", "prefixed": "self::TI", "generic": "TI<u8>"}[c["path"]]
        decl = "pub trait TI<V, T>: 'static { }" if c["path"] == "generic" else "pub trait TI<T>: 'static { }"
        return f"pub struct X;\n{decl}\n#[::entrait::entrait]\nimpl {path} for X {{\n    fn a<D>(deps: &D) {{ }}\n}}\n"
    if k == "gen":
        gens, where, params = ["'a", "'b"], [], []
        db = c["dbound"]
        if db == "impl":
            params.append("deps: &'a impl Sync")
        else:
            gens.append("D: Sync" if db == "inline" else "D")
            params.append("deps: &'a D")
            if db == "where":
                where.append("D: Sync")
        gens.append("U: IntoIterator")
        params += ["u: U", "s: &'b str"]
        where += {"none": [], "path": ["U: Clone"], "assoc": ["U::Item: Clone"], "tuple": ["(U,): Sized"],
                  "hrtb": ["for<'x> &'x U: IntoIterator"], "life": ["'b: 'a"]}[c["pred"]]
        w = (" where " + ", ".join(where)) if where else ""
        f = f"fn g<{', '.join(gens)}>({', '.join(params)}){w} {{ let _ = (deps, u, s); }}"
        if c["mode"] == "fn":
            return f"#[::entrait::entrait(T)]\n{f}\n"
        if c["mode"] == "mod":
            return f"#[::entrait::entrait(T)]\nmod m {{\n    pub {f}\n}}\n"
        # impl block: the delegation-target trait is the user's; its generics are the user's business, so no lifted parameter here
        f = f.replace("U: IntoIterator", "U: IntoIterator + 'static")
        return (f"pub struct X;\npub trait TI<T>: 'static {{ }}\n#[::entrait::entrait]\nimpl TI for X {{\n    {f}\n}}\n")
    raise vf.ToolError("unknown case kind " + k)


def main():
    chk = vf.Check("C15")
    thorough = vf.tier() == "thorough"
    cases, res = vf.mc_cases(chk, "MC_C15", cfg_edits={"MaxToks = 1": "MaxToks = 2"},
                             actions=["ClassifyItem", "ParseAttr", "AnalyzeFnDeps", "TraitChecks", "FixParamIdents", "CollectGenerics", "ParseImplHeader"], workers=12, heap="12g")
    crate = vf.Crate(os.path.join(chk.work, "crate"), "c15cases", deps=["async-trait"])
    crate.prelude = PRELUDE
    for c in cases:
        crate.add_case(c["case"], render(c))
    dump = os.path.join(chk.work, "dump")
    dropped, first_dump, iters = crate.build(mode="check", dump=dump, max_iter=20)
    by_case, allrecs = vf.records_by_case(chk, first_dump)
    expand.conformance(chk, allrecs, "misuse")        # well- and ill-formed invocations against the pipeline model (spec/Expand.tla)
    events = []
    for c in cases:
        cid = c["case"]
        recs = sorted(by_case.get(cid, []), key=lambda r: (r["pid"], r["seq"]))
        diags = dropped.get(cid, [])
        o = {"invoked": bool(recs), "panicked": False, "rejected": False, "parses": True, "diagnosed": False, "phrases": [],
             "outcome": "ok", "class": "", "message": "", "diag": [d["message"][:120] for d in diags][:3]}
        if any("panicked" in d["message"] for d in diags):
            o["panicked"] = True
        if recs:
            r = recs[0]
            if r["panic"] is not None:
                o["panicked"] = True
                o["message"] = r["panic"]
            cls = items.err_class(r)
            if cls not in ("", "panic"):
                o["rejected"] = True
                msg = " ".join(json.loads(t[1:]) if t[1:].startswith('"') else t[1:] for t in r["output"] if t.startswith("L"))
                o["message"] = msg
                o["diagnosed"] = any(msg and (msg in d["message"] or d["message"] in msg) for d in diags)
                o["phrases"] = [v for v in VOCAB if v in msg] + ([c["optname"]] if c["optname"] and c["optname"] in msg else [])
                o["class"] = refine_class(cls, msg)
                o["outcome"] = "error"
            elif cls == "":
                o["parses"] = bool(r["parse_ok"])
            if o["panicked"]:
                o["outcome"], o["class"] = "panic", ""
        events.append({"case": cid, "l1": {"fault": c["fault"], "optname": c["optname"]}, "obs": o, "pred": c["pred"], "cls": ""})
    bad, drift = vf.validate(chk, "Trace_C15", events)
    ev = {e["case"]: e for e in events}
    byid = {c["case"]: c for c in cases}
    chk.cov["evaluations"] = len(events)
    chk.cov["distinct_nontrivial"] = sum(1 for e in events if e["obs"]["invoked"] and e["obs"]["outcome"] != "ok")
    chk.cov["not_invoked_by_rustc"] = sum(1 for e in events if not e["obs"]["invoked"])
    chk.cov["documented_misuse_cases"] = sum(1 for c in cases if c["fault"])
    chk.cov["by_kind"] = {k: sum(1 for c in cases if c["c"]["kind"] == k) for k in ("attr", "item", "deps", "trait", "pat", "gen", "implpath")}
    chk.cov["rule"] = (f"option lists (well- and ill-formed) of <= 2 tokens x leads x trailing comma x 4 targets; 16 "
                       "non-supported item kinds; every dependency-parameter shape (13 bases x 6 wrappings) x fn/mod/impl x no_deps; "
                       "5 parameter patterns x 7 delegation kinds x 8 extra trait items; every pattern symbol of spec/Params.tla as a parameter of a fn / module fn / "
                       "impl-block fn / trait method x {ordinary, would-be-generated, raw} function names; 4 ways of bounding the dependency parameter x 6 kinds of "
                       "further where-predicate x fn/mod/impl; the trait path of an impl block {plain, with a module prefix, with generic arguments}; non-trivial = the macro was invoked and rejected or panicked")
    chk.cov["exhaustive"] = True
    chk.cov["build_iterations"] = iters
    vf.report_drift(chk, drift, lambda d: f"{byid[d['case']]['c']} obs={ev[d['case']]['obs']['outcome']}:{ev[d['case']]['obs']['class']} '{ev[d['case']]['obs']['message'][:80]}' pred={byid[d['case']]['pred']}")
    rej = [e for e in events if e["obs"]["rejected"]]
    chk.cov["samples"] = [{"case": byid[e["case"]]["c"], "fault": e["l1"]["fault"], "message": e["obs"]["message"][:160]}
                          for e in rej[::max(1, len(rej) // 5)][:6]]
    for b in bad:
        e = ev[b["case"]]
        c = byid[b["case"]]["c"]
        b["detail"] = f"{c} fault={e['l1']['fault']} obs={ {k: e['obs'][k] for k in ('panicked','rejected','parses','diagnosed','phrases','message','diag')} }"
        if b["conjunct"] in ("no-panic",) and c["kind"] == "trait" and c["pat"] in ("wild", "tuple"):
            b["cls"] = "trait-method-non-ident-pattern-panics"

    def write_replay(viol):
        d = chk.replay_dir()
        for cid in sorted({v["case"] for v in viol})[:40]:
            with open(os.path.join(d, f"case_{cid}.rs"), "w") as f:
                f.write(render(byid[cid]))
            with open(os.path.join(d, f"case_{cid}.json"), "w") as f:
                json.dump({"violations": [x for x in viol if x["case"] == cid], "event": ev[cid]}, f, indent=1)
        return d

    chk.reconcile(bad, write_replay)
    chk.assumptions += ["diagnostic spans are observed as 'rustc attributes the macro's message to the case file'",
                        "messages are recognised by key phrases, exact texts only for drift"]
    return chk.finish()


def refine_class(cls, msg):
    if cls != "syntax":
        return cls
    table = [("dependency 'receiver'", "missing-deps"), ("self receiver", "self-receiver"),
             ("concrete dependencies in a module", "concrete-in-module"), ("concrete dependency in an impl block", "concrete-in-impl"),
             ("No self allowed", "no-self-allowed"), ("No leading colon", "no-leading-colon"),
             ("does not support this kind of trait item", "unsupported-trait-item"),
             ("generic arguments on the trait of an impl block", "impl-trait-path-arguments")]
    for k, v in table:
        if k in msg:
            return v
    return "syntax"
