"""C04 - dependency bounds bubble up exactly: implemented iff the deps are satisfied.

TLC (MC_C04) enumerates all ways of declaring 0..3 bounds on the dependency of fn and 2-function mod inputs
(inline / where / impl Trait / split / contributed by either function), all mock settings, by-reference and
by-value dependencies and both feature settings; Level 2 is the generated impl header evaluated by the Resolve
fix-point, Level 1 the availability requirement (Req!C04_AvailReq) for a family of probe types each missing
exactly one bound or auto trait.  Every case is expanded by the real macro and compiled; the generated binary
reports for every (case, probe) whether the trait is implemented; TLC (Trace_Runtime) compares with Level 1."""
import json
import os
import random

from lib import vf
from checks import c01

PRELUDE = """
use ::core::marker::PhantomData;
pub trait B1 {} pub trait B3 {}
// B2 is a different trait whose path ends in the same identifier as B1's (`alt::B1`); half of the programs spell it that way
pub mod alt { pub trait B1 {} }
pub use alt::B1 as B2;
pub struct PAll; pub struct PNo1; pub struct PNo2; pub struct PNo3; pub struct PNone;
pub struct PNoSync(pub ::core::cell::Cell<u8>);
pub struct PNoSend(pub PhantomData<::std::sync::MutexGuard<'static, ()>>);
macro_rules! sat { ($t:ty : $($b:ident)*) => { $( impl $b for $t {} impl $b for ::entrait::Impl<$t> {} )* }; }
sat!(PAll: B1 B2 B3); sat!(PNo1: B2 B3); sat!(PNo2: B1 B3); sat!(PNo3: B1 B2); sat!(PNoSync: B1 B2 B3); sat!(PNoSend: B1 B2 B3);
"""
UNIMOCK_PRELUDE = "impl B1 for ::unimock::Unimock {} impl B2 for ::unimock::Unimock {} impl B3 for ::unimock::Unimock {}\n"


def fn_text(name, d, vis="", alt=False, asy=False):
    if asy:
        return fn_text(name, d, vis=vis, alt=alt).replace(f"{vis}fn {name}", f"{vis}async fn {name}", 1)
    S = [("alt::B1" if (alt and b == "B2") else b) for b in sorted(d["S"])]
    byvalue = d["byvalue"]
    amp = "" if byvalue else "&"
    plus = " + ".join(S)
    if d["form"] == "inline" or not S:
        g = f"<D: {plus}>" if S else "<D>"
        return f"{vis}fn {name}{g}(deps: {amp}D) {{}}"
    if d["form"] == "where":
        return f"{vis}fn {name}<D>(deps: {amp}D) where D: {plus} {{}}"
    if d["form"] == "impl":
        ty = f"impl {plus}" if byvalue else f"&(impl {plus})"
        return f"{vis}fn {name}(deps: {ty}) {{}}"
    if d["form"] == "split":
        return f"{vis}fn {name}<D: {S[0]}>(deps: {amp}D) where D: {' + '.join(S[1:])} {{}}"
    raise vf.ToolError("form " + d["form"])


def render(c):
    i = c["in"]
    cid = c["case"]
    alt = int(cid) % 2 == 0
    if i["mode"] == "fn":
        item = fn_text("f", i["fns"][0], alt=alt, asy=i["mock"] == "async")
    else:
        fns = "\n".join("    " + fn_text(f"f{k + 1}", d, vis="pub ", alt=alt, asy=i["mock"] == "async") for k, d in enumerate(i["fns"]))
        item = f"pub mod m {{\n    #[allow(unused_imports)] use crate::{{B1, B2, B3, alt}};\n{fns}\n}}"
    probes = []
    for pr in c["probes"]:
        ty = f"crate::P{pr['name']}"
        if pr["shape"] == "implT":
            ty = f"::entrait::Impl<{ty}>"
        key = f"{pr['name']}:{pr['shape']}"
        probes.append(f'    ::vt::emit("avail", &format!("\\"probe\\":\\"{key}\\",\\"has\\":{{}}", ::vt::has_impl!({ty}: T)));')
    body = "\n".join(probes)
    return f"""#[allow(unused_imports)] use crate::{{B1, B2, B3, alt}};
#[::entrait::entrait({c['attr']})]
{item}
pub fn run() {{
    ::vt::emit("scenario", "\\"case\\":\\"c{cid}\\",\\"sc\\":1");
{body}
    ::vt::emit("end", "\\"panicked\\":false,\\"result\\":\\"\\"");
}}
"""


def main():
    chk = vf.Check("C04")
    thorough = vf.tier() == "thorough"
    cases, res = vf.mc_cases(chk, "MC_C04", actions=["ApplyImplRule"], workers=12, heap="12g")
    rng = random.Random(vf.seed())
    fnc = [c for c in cases if c["in"]["mode"] == "fn"]
    modc = [c for c in cases if c["in"]["mode"] == "mod"]
    if not thorough:
        rng.shuffle(modc)
        modc = modc[:700]
    sel = fnc + modc
    progs = {}
    for c in sel:
        c["feature"] = c["in"]["feature"]
        desc = {1: {"own": {}, "deps": {}, "expect": "ok", "avail": {f"{p['name']}:{p['shape']}": p["expect"] for p in c["probes"]},
                    "pair": "", "allocpair": "", "answer": "", "kind": "avail"}}
        progs[c["case"]] = (render(c), desc)
    events, dropped, recs = c01.run_programs(chk, sel, progs, "c04", PRELUDE, ["vt", "mockall"], on_prelude=UNIMOCK_PRELUDE)
    # feature-on crate needs the bounds on the mock type (un-mocked calls hand Unimock to the functions)
    bad, drift = vf.validate(chk, "Trace_Runtime", events, timeout=2400)
    byid = {c["case"]: c for c in sel}
    # drift: Level 2's predicted availability vs observed
    observed = {}
    cur = None
    for e in events:
        if e["e"] == "scenario":
            cur = e["case"]
        elif e["e"] == "avail":
            observed[(cur, e["probe"])] = e["has"]
    ndrift = 0
    for c in sel:
        for p in c["probes"]:
            k = (c["case"], f"{p['name']}:{p['shape']}")
            if k in observed and observed[k] != p["pred"]:
                ndrift += 1
                if ndrift <= 5:
                    vf.log(f"SPEC-DRIFT C04 case={c['case']} probe={k[1]} observed={observed[k]} predicted={p['pred']} in={c['in']}")
    chk.cov["drift"] = ndrift
    chk.cov["evaluations"] = len(observed)
    chk.cov["cases_replayed"] = len(sel)
    chk.cov["cases_enumerated"] = len(cases)
    chk.cov["cases_rejected_by_rustc"] = len(dropped)
    chk.cov["distinct_nontrivial"] = len({json.dumps(c["in"], sort_keys=True) for c in sel if c["case"] not in dropped and c["l1"]["declared"]})
    chk.cov["rule"] = ("fn inputs: every subset of {B1,B2,B3} x {inline, where, impl Trait, split}; 2-function modules: bound sets "
                       "per function x forms (quick: seeded sample of 500 modules); x by-ref/by-value per function x 6 mock settings and `?Send` x feature; 14 probes per case "
                       "(7 probe types x bare / Impl<P>); non-trivial = compiled and at least one declared bound")
    chk.cov["exhaustive"] = bool(thorough)
    chk.cov["samples"] = [{"in": c["in"], "attr": c["attr"], "observed": {k[1]: v for k, v in observed.items() if k[0] == c["case"]}}
                          for c in sel[:: max(1, len(sel) // 4)][:4]]
    for b in bad:
        c = byid[b["case"]]
        b["cls"] = c["cls"]
        b["detail"] = f"in={c['in']} attr=({c['attr']}) observed={ {k[1]: v for k, v in observed.items() if k[0] == b['case']} }"
    for cid, why in c01.CRASHED.items():
        bad.append({"case": cid, "conjunct": "runs-to-completion", "cls": "", "detail": f"in={byid[cid]['in']} {why}"})
    # every program of the domain is a legitimate use: the expansion has to compile
    for cid in dropped:
        bad.append({"case": cid, "conjunct": "compiles", "cls": "", "detail": f"in={byid[cid]['in']} diag={[d['message'][:140] for d in dropped[cid]][:2]}"})
    if dropped:
        first = sorted(dropped)[0]
        chk.cov["rejected_example"] = {"in": byid[first]["in"], "diag": [d["message"][:160] for d in dropped[first]][:2]}

    def write_replay(viol):
        d = chk.replay_dir()
        for cid in sorted({v["case"] for v in viol})[:30]:
            with open(os.path.join(d, f"case_{cid}.rs"), "w") as f:
                f.write(f"// feature unimock: {byid[cid]['feature']}\n" + progs[cid][0])
            with open(os.path.join(d, f"case_{cid}.json"), "w") as f:
                json.dump({"violations": [x for x in viol if x["case"] == cid], "case": byid[cid]}, f, indent=1)
        return d

    chk.reconcile(bad, write_replay)
    chk.assumptions += ["availability is observed through inherent-over-trait method resolution (vt::has_impl!)",
                        "'static is not probed at run time (all probe types are 'static)"]
    return chk.finish()
