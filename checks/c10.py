"""C10 - mock code is generated only when enabled and is test-gated unless exported.

TLC (MC_C10) runs every point of the lattice {macro} x {feature} x {unimock, mockall, export: absent/true/false}
x {mock_api} x {fn, mod, trait} through the attribute front end and the mock-attribute decisions, and checks the
outcome against Level 1. Every point is expanded by the real macro in a feature-on and a feature-off crate; each
crate is built as a binary (not(test)) and as a test harness (cfg(test)) and both are run: the attribute list of
the emitted trait (X) and the presence of `Unimock: T` / `MockT` in each build (R) are validated by TLC."""
import json
import os

from lib import vf

# per target: item, fallback definitions (glob-imported, shadowed by generated items of the same name),
# and the paths whose resolution shows whether the unimock API / the mockall struct were generated
ITEM = {
    "fn": ("fn f<D>(deps: &D, a: i32) -> i32 { a }",
           "pub struct MockT; pub struct Mk;"),
    "fnconc": ("fn f(deps: &crate::Conc, a: i32) -> i32 { a }",
               "pub struct MockT; pub struct Mk;"),
    "mod": ("pub mod m {\n    #[allow(unused_imports)] pub use super::fb::*;\n    pub fn f<D>(deps: &D, a: i32) -> i32 { a }\n"
            "    pub fn g<D>(deps: &D) -> u8 { 7 }\n}",
            "pub struct MockT; pub mod Mk { pub struct f; }"),
    "trait": ("pub trait T {\n    fn m(&self, a: i32) -> i32;\n    fn n(&self) -> u8;\n}",
              "pub struct MockT; pub mod Mk { pub struct m; } pub mod TMock { pub struct m; }"),
    "marker": ("pub trait T {}", "pub struct MockT; pub mod Mk { } pub mod TMock { }"),
}


def probes(i):
    if i["target"] in ("fn", "fnconc"):
        return "Mk", "MockT"
    if i["target"] == "mod":
        return "m::Mk::f", "m::MockT"
    return None, "MockT"     # entraited trait: `Unimock: T` itself is the mock implementation (no blanket impl exists)


def render(c):
    i = c["in"]
    item, fb = ITEM[i["target"]]
    # the requested trait visibility rotates over the points of the lattice: gating must not depend on it
    vis = ["pub ", "", "pub(crate) "][int(c["case"]) % 3]
    text = c["text"]
    if i["target"] in ("trait", "marker"):
        item = item.replace("pub trait T", vis + "trait T", 1)
    elif text.startswith("pub T"):
        text = vis + text[4:]
    pu, pm = probes(i)
    uprobe = f'!::core::any::type_name::<{pu}>().contains("::fb::")' if pu else "::vt::has_impl!(::unimock::Unimock: T)"
    if i["target"] == "fnconc":     # no blanket impl exists for concrete dependencies: `Unimock: T` is a mock implementation too
        uprobe = f"({uprobe} || ::vt::has_impl!(::unimock::Unimock: T))"
    return f"""#[allow(non_camel_case_types, non_snake_case)]
pub mod fb {{ {fb} }}
#[allow(unused_imports)] use fb::*;
#[::entrait::{i['macro']}({text})]
{item}
pub fn probe() -> (bool, bool) {{
    ({uprobe}, !::core::any::type_name::<{pm}>().contains("::fb::"))
}}
"""


def find_trait(items):
    for it in items:
        if it["k"] == "trait" and it["name"] == "T":
            return it
        if it["k"] == "mod":
            for sub in it["items"]:
                if sub["k"] == "trait" and sub["name"] == "T":
                    return sub
    return None


def mark(o, attrs):
    for a in attrs:
        if a["kind"] == "unimock":
            o["unimock"], o["ugated"] = True, a["gated"]
        if a["kind"] == "mockall":
            o["mockall"], o["mgated"] = True, a["gated"]


def main():
    chk = vf.Check("C10")
    cases, res = vf.mc_cases(chk, "MC_C10", actions=["ParseOneOpt", "EndOfOpts", "ApplyVariantFallbacks", "GenTraitDef", "NestedEntraitOnTrait"], workers=8)
    obs = {}
    allrecs = {}
    built = {}
    for feature in (False, True):
        name = "c10on" if feature else "c10off"
        mine = [c for c in cases if c["in"]["feature"] == feature]
        results = {}
        for test in (False, True):
            crate = vf.Crate(os.path.join(chk.work, name + ("-test" if test else "-bin")), name,
                             features=(["unimock"] if feature else []), deps=["vt", "unimock", "mockall"])
            crate.prelude = "pub struct Conc;\n"
            for c in mine:
                crate.add_case(c["case"], render(c))

            def main_fn(live, crate=crate):
                return "\n".join(f'    {{ let p = cases::{crate.cases[cid]}::probe(); println!("{{{{\\"case\\":\\"{cid}\\",\\"unimock\\":{{}},\\"mockall\\":{{}}}}}}", p.0, p.1); }}' for cid in live)

            dump = os.path.join(chk.work, f"{name}-{'test' if test else 'bin'}-dump")
            dropped, first_dump, iters = crate.build(mode="build", dump=dump, main_fn=main_fn, test=test)
            r = crate.run(args=(["--nocapture", "--test-threads=1"] if test else []))
            if r.returncode != 0:
                raise vf.ToolError(f"C10 {name} {'test' if test else 'bin'} binary failed: " + (r.stderr + r.stdout)[-2000:])
            seen = {}
            for line in r.stdout.splitlines():
                line = line.strip()
                if line.startswith("{"):
                    j = json.loads(line)
                    seen[j["case"]] = j
            results[test] = (dropped, seen)
            if not test:
                by_case, _ = vf.records_by_case(chk, first_dump, name=name + "-obs")
                for c in mine:
                    recs = by_case.get(c["case"])
                    if not recs:
                        raise vf.ToolError(f"C10: no expansion record for {c['text']}")
                    allrecs[c["case"]] = sorted(recs, key=lambda r: (r["pid"], r["seq"]))
                    obs[c["case"]] = allrecs[c["case"]][0]
        for c in mine:
            cid = c["case"]
            ok = all(cid not in results[t][0] and cid in results[t][1] for t in (False, True))
            built[cid] = (ok, results)
    events = []
    for c in cases:
        cid = c["case"]
        rec = obs[cid]
        i = c["in"]
        o = {"expanded": False, "unimock": False, "mockall": False, "ugated": False, "mgated": False, "built": False,
             "nt_unimock": False, "t_unimock": False, "nt_mockall": False, "t_mockall": False, "errors": []}
        if rec["panic"] is None and rec["parse_ok"] and not rec["errors"]:
            trait = find_trait(rec["items"])
            if trait is not None:
                o["expanded"] = True
                mark(o, trait["attrs"])
            # a nested entrait invocation on the generated trait (concrete deps) may add derivations of its own:
            # what its output trait carries beyond what its input trait carried
            for nested in allrecs[cid][1:]:
                tin, tout = find_trait(nested["in_items"]), find_trait(nested["items"])
                if tin is not None and tout is not None:
                    had = {a["text"] for a in tin["attrs"]}
                    mark(o, [a for a in tout["attrs"] if a["text"] not in had])
        o["errors"] = rec["errors"]
        ok, results = built[cid]
        if ok:
            o["built"] = True
            o["nt_unimock"], o["nt_mockall"] = results[False][1][cid]["unimock"], results[False][1][cid]["mockall"]
            o["t_unimock"], o["t_mockall"] = results[True][1][cid]["unimock"], results[True][1][cid]["mockall"]
        else:
            o["diag"] = [d["message"][:100] for t in (False, True) for d in results[t][0].get(cid, [])][:2]
        events.append({"case": cid, "l1": i, "obs": o, "pred": c["pred"], "cls": ""})
    bad, drift = vf.validate(chk, "Trace_C10", events)
    ev = {e["case"]: e for e in events}
    byid = {c["case"]: c for c in cases}
    chk.cov["evaluations"] = len(events)
    chk.cov["distinct_nontrivial"] = sum(1 for e in events if e["obs"]["expanded"])
    chk.cov["built_and_run_in_both_configurations"] = sum(1 for e in events if e["obs"]["built"])
    chk.cov["rule"] = ("every point of {entrait, entrait_export} x {feature on, off} x {unimock, mockall, export: absent/true/false} x "
                       "{mock_api absent/present} x {fn, fn with concrete deps, mod, trait, method-less trait}, the requested trait visibility rotating over pub / none / pub(crate); non-trivial = accepted by the macro; each crate built and run "
                       "as binary (not(test)) and as test harness (cfg(test))")
    chk.cov["exhaustive"] = True
    vf.report_drift(chk, drift, lambda d: f"attr=({byid[d['case']]['text']}) in={byid[d['case']]['in']} obs={ev[d['case']]['obs']}")
    chk.cov["samples"] = [{"in": e["l1"], "attr": byid[e["case"]]["text"], "observed": e["obs"]} for e in events[::160][:5]]
    for b in bad:
        b["detail"] = f"attr=({byid[b['case']]['text']}) in={byid[b['case']]['in']} obs={ev[b['case']]['obs']}"

    def write_replay(viol):
        d = chk.replay_dir()
        for cid in sorted({v["case"] for v in viol})[:40]:
            with open(os.path.join(d, f"case_{cid}.rs"), "w") as f:
                f.write(f"// entrait feature unimock: {byid[cid]['in']['feature']}\n" + render(byid[cid]))
            with open(os.path.join(d, f"case_{cid}.json"), "w") as f:
                json.dump({"violations": [x for x in viol if x["case"] == cid], "event": ev[cid]}, f, indent=1)
        return d

    chk.reconcile(bad, write_replay)
    chk.assumptions += ["unimock 0.6.8 / mockall 0.12.1 as shipped in the offline cache derive the mocks when their attribute is applied",
                        "with the feature off, an explicit `unimock` names ::entrait::__unimock which does not exist: such points are "
                        "observed at attribute level only (built = false)"]
    return chk.finish()
