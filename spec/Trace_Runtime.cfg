SPECIFICATION Spec
CONSTRAINT RegC
INVARIANT ExactlyOnce
POSTCONDITION Post
CHECK_DEADLOCK FALSE
