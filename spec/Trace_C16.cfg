SPECIFICATION Spec
CONSTRAINT Reg
POSTCONDITION Post
CHECK_DEADLOCK FALSE
