------------------------------ MODULE Trace_C03 ------------------------------
(* Trace validation for C03: one event per replayed signature: rustc's verdict on the expansion and on the     *)
(* fn-pointer / Output witness.                                                                                *)
EXTENDS TraceLib
R == INSTANCE Req
VARIABLES l, bad, drift
vars == <<l, bad, drift>>
Init == l = 1 /\ bad = {} /\ drift = {}
Step == /\ l <= Len(Rec) /\ l' = l + 1
        /\ LET e == Rec[l] IN
           /\ bad' = bad \cup { [case |-> e.case, conjunct |-> c, cls |-> e.cls] : c \in R!C03_Fail(e.obs) }
           /\ drift' = drift \cup (IF e.obs.compiled = e.pred THEN {} ELSE {[case |-> e.case, field |-> "compiled"]})
Spec == Init /\ [][Step]_vars
RegC == Reg(l, bad, drift)
=============================================================================
