SPECIFICATION Spec
CONSTANTS
  MaxToks = 1
  DumpCases = TRUE
INVARIANTS NeverPanics MisuseRejected
CHECK_DEADLOCK FALSE
