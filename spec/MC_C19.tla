------------------------------- MODULE MC_C19 -------------------------------
(***************************************************************************)
(* C19: name resolution of what the generator emits.  Level 2 tags every   *)
(* name the generated code refers to with HOW it is written:               *)
(*   "abs"      an absolute path  ::entrait::Impl, ::core::future::Future, *)
(*              ::core::marker::{Send, Sync}, ::core::convert::AsRef, ...  *)
(*   "method"   a method call in method syntax, resolved through whatever   *)
(*              traits the scope provides (captured by a scope without the *)
(*              prelude, by a blanket trait with a method of that name, or *)
(*              by the entraited trait's own method of that name).  The    *)
(*              generator used to write `self.as_ref()`, `.borrow()`,      *)
(*              `.into_inner()` that way; since a "fix:" commit they are   *)
(*              `<::entrait::Impl<T> as ::core::convert::AsRef<T>>::       *)
(*              as_ref(self)` etc. - "abs"                                 *)
(*   "own"      the macro's own generic parameters and receiver            *)
(*              (EntraitT, __impl, and `T` of the generated DelegateX<T>)  *)
(*   "user"     tokens copied from the user's item (resolve in the user's  *)
(*              scope by design)                                           *)
(*   "thirdparty" emitted by a macro entrait merely re-applies             *)
(*              (async_trait writes a bare `Box`)                          *)
(* A reference is captured by a shadow set iff it is written bare and its  *)
(* name is shadowed.  The machine resolves the references one by one.      *)
(***************************************************************************)
EXTENDS TLC, Naturals, FiniteSets, Sequences, SequencesExt, Json, IOUtils
CONSTANTS DumpCases, PairShadows
R == INSTANCE Req

\* "trait-self-named-as_ref" / "concrete-named-as_ref": the entraited trait's method / the function with a concrete dependency is
\* itself called `as_ref`; "trait-self-byvalue": a by-value receiver (`into_inner`)
Progs == {"fn", "fn-async-bounds", "fn-byvalue", "mod", "concrete", "trait-self", "trait-self-async", "trait-ref", "trait-borrow", "di-static", "di-dyn-at", "di-dyn", "di-dyn-borrow", "fn-chain",
          "trait-self-named-as_ref", "concrete-named-as_ref", "trait-self-byvalue"}
\* "m:as_ref" / "m:borrow" / "m:into_inner": a local trait, implemented for every type, with a method of that name
ShadowNames == {"Impl", "core", "entrait", "Future", "Send", "Sync", "AsRef", "Borrow", "Sized", "Box", "Option", "Result", "std", "own-value", "EntraitT-value",
                "m:as_ref", "m:borrow", "m:into_inner"}
Ref(n, how) == [name |-> n, how |-> how]
Common == { Ref("entrait", "abs"), Ref("Impl", "abs"), Ref("core", "abs"), Ref("Sync", "abs"), Ref("EntraitT", "own") }
Refs(p) == Common
  \cup (IF p \in {"fn-async-bounds", "mod", "trait-self-async"} THEN { Ref("Future", "abs"), Ref("Send", "abs") } ELSE {})
  \cup (IF p = "fn-byvalue" THEN { Ref("Send", "abs") } ELSE {})
  \cup (IF p \in {"trait-self", "trait-self-async", "trait-ref", "trait-borrow", "concrete", "trait-self-named-as_ref", "concrete-named-as_ref"} THEN { Ref("m:as_ref", "abs"), Ref("AsRef", "abs") } ELSE {})
  \cup (IF p = "trait-self-byvalue" THEN { Ref("m:into_inner", "abs") } ELSE {})
  \cup (IF p = "trait-ref" THEN { Ref("AsRef", "abs") } ELSE {})
  \cup (IF p = "trait-borrow" THEN { Ref("Borrow", "abs"), Ref("m:borrow", "abs") } ELSE {})
  \cup (IF p \in {"di-static", "di-dyn-at", "di-dyn", "di-dyn-borrow", "fn-chain"} THEN { Ref("__impl", "own"), Ref("T", "own") } ELSE {})
  \cup (IF p = "di-dyn" THEN { Ref("AsRef", "abs") } ELSE {})
  \cup (IF p = "di-dyn-borrow" THEN { Ref("Borrow", "abs") } ELSE {})
  \cup (IF p = "di-dyn-at" THEN { Ref("AsRef", "abs"), Ref("Box", "thirdparty") } ELSE {})
Captured(r, S) == r.how \in {"bare", "thirdparty", "method"} /\ (r.name \in S \/ (r.how = "method" /\ "no-prelude" \in S))

\* variants: clean scope, one shadowed name, all names shadowed, generated trait named like a marker trait, no_std crate
Variants == { [kind |-> "clean", shadows |-> {}, name |-> "T", dname |-> "DelegateN"] }
            \cup { [kind |-> "shadow", shadows |-> {n}, name |-> "T", dname |-> "DelegateN"] : n \in ShadowNames }
            \* (thorough tier) every PAIR of names shadowed together: a capture that needs two local items to line up
            \cup (IF PairShadows THEN { [kind |-> "shadow2", shadows |-> {a, b}, name |-> "T", dname |-> "DelegateN"] : a \in ShadowNames, b \in ShadowNames } ELSE {})
            \cup { [kind |-> "shadow-all", shadows |-> ShadowNames, name |-> "T", dname |-> "DelegateN"] }
            \cup { [kind |-> "marker-name", shadows |-> {}, name |-> n, dname |-> "DelegateN"] : n \in {"Send", "Sync"} }
            \* the user's DELEGATION trait (`delegate_by = <name>`, static dependency inversion) named like something the macro refers to:
            \* only `ref` and the deprecated `Borrow` are reserved values of that option
            \cup { [kind |-> "deleg-name", shadows |-> {}, name |-> "T", dname |-> n] : n \in {"AsRef", "Send", "Sync", "Impl", "Future"} }
            \cup { [kind |-> "no_std", shadows |-> {}, name |-> "T", dname |-> "DelegateN"] }
            \* a module that opts out of the prelude: `#![no_implicit_prelude]` - nothing at all is imported
            \cup { [kind |-> "no-prelude", shadows |-> {"no-prelude"}, name |-> "T", dname |-> "DelegateN"] }
\* async_trait's own output is outside entrait's control: its `Box` must stay visible
Applicable(p, v) == ~(p = "di-dyn-at" /\ ("Box" \in v.shadows \/ v.kind = "no-prelude")) /\ (v.kind = "deleg-name" => p = "di-static")
Inputs == { [prog |-> p, variant |-> v] : p \in Progs, v \in Variants }
InputsOK == { i \in Inputs : Applicable(i.prog, i.variant) }
Effective(v) == v.shadows \cup (IF v.kind = "marker-name" THEN {v.name} ELSE {}) \cup (IF v.kind = "deleg-name" THEN {v.dname} ELSE {})
PredOk(i) == \A r \in Refs(i.prog) : ~Captured(r, Effective(i.variant))

VARIABLES i, todo, captured, pc
vars == <<i, todo, captured, pc>>
Init == i \in InputsOK /\ todo = Refs(i.prog) /\ captured = {} /\ pc = "resolve"
ResolveRef == /\ pc = "resolve" /\ todo # {}
              /\ \E r \in todo : /\ todo' = todo \ {r}
                                 /\ captured' = IF Captured(r, Effective(i.variant)) THEN captured \cup {r} ELSE captured
              /\ UNCHANGED <<i, pc>>
Done == pc = "resolve" /\ todo = {} /\ pc' = "done" /\ UNCHANGED <<i, todo, captured>>
Spec == Init /\ [][ResolveRef \/ Done]_vars
\* Level 1 at design level: nothing the generator writes is at the mercy of the scope
Refines == pc = "done" => captured = {}
ASSUME DumpCases => ndJsonSerialize(IOEnv.OUT, SetToSeq({ [prog |-> x.prog, kind |-> x.variant.kind, shadows |-> SetToSeq(x.variant.shadows),
                                                          name |-> x.variant.name, dname |-> x.variant.dname, pred |-> PredOk(x)] : x \in InputsOK }))
=============================================================================
