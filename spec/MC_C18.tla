------------------------------- MODULE MC_C18 -------------------------------
(***************************************************************************)
(* C18: where a user attribute ends up.  Level 2, the attribute flow of    *)
(* the generator:                                                          *)
(*   fn attrs       -> re-emitted on the fn; only async_trait / automock   *)
(*                     are reused on generated items (sub_attributes.rs)   *)
(*   param attrs    -> kept on the fn, stripped from the converted         *)
(*                     signature (converter.rs)                            *)
(*   module / impl-block fn attrs -> kept on the fn; TraitFn.attrs = []    *)
(*                     except `cfg`, which is mirrored onto the generated  *)
(*                     trait method and delegating method                  *)
(*   trait-method attrs -> TraitFn.attrs: on the emitted trait's method    *)
(*                     (and the delegation-target trait's), mirrored onto  *)
(*                     the delegating method of impl Tr for Impl<T>        *)
(***************************************************************************)
EXTENDS TLC, Naturals, FiniteSets, Sequences, SequencesExt, Json, IOUtils
CONSTANTS DumpCases, Extras
R == INSTANCE Req

Places == {"fn", "param", "modfn", "implfn", "traitmethod"}
\* "cfgattr": a conditionally attached attribute, `#[cfg_attr(all(), allow(..))]` - not a `cfg`, so not mirrored
\* "cfgonoff": two stacked cfgs, the first enabled, the second disabled (the marker is the disabled one)
\* "cfgattroff": a disabled cfg written through cfg_attr, `#[cfg_attr(all(), cfg(any()))]` - it IS a cfg
Kinds == {"doc", "lint", "cfgon", "cfgoff", "tool", "inert", "cfgattr", "cfgonoff", "cfgattroff"}
\* pat: the pattern of the parameter that carries the attribute (place "param"): a plain identifier, `_`, or a destructuring pattern
Pats == {"ident", "wild", "destr"}
\* extra: an unrelated lint attribute (`#[allow(dead_code)]`) written before / after the marker on the same item: where the marker
\* goes must not depend on its position in the attribute list (thorough tier)
Inputs == { i \in [place : Places, kind : Kinds, async : BOOLEAN, nodeps : BOOLEAN, pat : Pats, extra : Extras] :
            /\ (i.place # "param" => i.pat = "ident")
            /\ (i.place = "param" => i.kind \in {"lint", "cfgon"})
            /\ (i.place = "traitmethod" => i.kind \in {"doc", "lint", "cfgon", "cfgoff", "inert", "cfgattr", "cfgonoff", "cfgattroff"})
            /\ (i.place = "fn" => i.kind \notin {"cfgon", "cfgoff", "cfgattr", "cfgonoff", "cfgattroff"})       \* rustc evaluates a cfg on the annotated item itself before the macro runs
            /\ (i.nodeps => i.place \in {"fn", "param", "modfn"}) }

IsCfg(k) == k \in {"cfgon", "cfgoff", "cfgonoff", "cfgattroff"}
Flow(i) ==
  CASE i.place = "fn"    -> [orig |-> 1, gen_items |-> 0, gen_trait_methods |-> 0, gen_impl_methods |-> 0, gen_params |-> 0]
    [] i.place = "param" -> [orig |-> 1, gen_items |-> 0, gen_trait_methods |-> 0, gen_impl_methods |-> 0, gen_params |-> 0]
    [] i.place \in {"modfn", "implfn"} ->
         [orig |-> 1, gen_items |-> 0, gen_trait_methods |-> IF IsCfg(i.kind) /\ i.place = "modfn" THEN 1 ELSE 0,
          gen_impl_methods |-> IF IsCfg(i.kind) THEN 1 ELSE 0, gen_params |-> 0]
    [] i.place = "traitmethod" -> [orig |-> 1, gen_items |-> 0, gen_trait_methods |-> 0, gen_impl_methods |-> 1, gen_params |-> 0]
PredObs(i) == Flow(i) @@ [expanded |-> TRUE, compiled |-> TRUE]

VARIABLES i, pc
vars == <<i, pc>>
Init == i \in Inputs /\ pc = "flow"
AttributeFlow == pc = "flow" /\ pc' = "done" /\ UNCHANGED i
Spec == Init /\ [][AttributeFlow]_vars
Refines == pc = "done" => R!C18_Fail([place |-> i.place, kind |-> i.kind], PredObs(i)) = {}
ASSUME DumpCases => ndJsonSerialize(IOEnv.OUT, SetToSeq({ [in |-> x, pred |-> PredObs(x)] : x \in Inputs }))
=============================================================================
