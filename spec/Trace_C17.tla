------------------------------ MODULE Trace_C17 ------------------------------
(* Trace validation for C17: "pair" events carry the interned output tokens of two real expansions of the  *)
(* same item under related attribute spellings / macro names / feature settings; "accept" events carry     *)
(* whether the real macro accepted a single option on a target.  Level 1 = Req!C17.                        *)
EXTENDS TraceLib
R == INSTANCE Req
VARIABLES l, bad, drift
vars == <<l, bad, drift>>
Init == l = 1 /\ bad = {} /\ drift = {}
Step == /\ l <= Len(Rec) /\ l' = l + 1
        /\ LET e == Rec[l] IN
           /\ bad' = bad \cup { [case |-> e.case, conjunct |-> c, cls |-> e.cls] : c \in R!C17_Fail(e) }
           /\ drift' = drift \cup (IF e.obserr = e.prederr THEN {} ELSE {[case |-> e.case, field |-> "error-class"]})
Spec == Init /\ [][Step]_vars
RegC == Reg(l, bad, drift)
=============================================================================
