SPECIFICATION Spec
CONSTANT DumpCases = TRUE
INVARIANTS StepwiseIsPred OnlyExportOnTraitRejected Refines
CHECK_DEADLOCK FALSE
