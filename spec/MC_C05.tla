------------------------------- MODULE MC_C05 -------------------------------
(***************************************************************************)
(* C05: a function with a CONCRETE dependency type C yields a leaf trait.  *)
(* Level 2 (fn_delegation_codegen with TraitDependencyMode::Concrete, and  *)
(* the nested `#[entrait(unimock = false, mockall = false)]` on the        *)
(* generated trait, i.e. trait mode with delegate_by = Self):              *)
(*   rule 1  impl Tr for C            { fn f(&self, a..) { f(self, a..) } } *)
(*   rule 2  impl<T: Tr + Sync + 'static> Tr for Impl<T>                   *)
(*                                    { fn f(&self, a..) { self.as_ref().f(a..) } } *)
(* Scenarios: a call on C itself, on Impl<C> (two hops), and on Impl<App>  *)
(* with a hand-written `impl Tr for App` (which calls the function on the  *)
(* C it owns).  Availability through the Resolve fix-point.                *)
(***************************************************************************)
EXTENDS Resolve, Runtime, Sequences, Json, IOUtils, SequencesExt
CONSTANTS MaxParams, DumpCases
R == INSTANCE Req

Shapes == {"ident", "path", "inst", "tuple", "reflife"}
PKinds == {"i32", "string", "str"}
ParamLists == UNION { [1..n -> PKinds] : n \in 0..MaxParams }
Rets == {"owned", "borrow-deps", "borrow-arg"}
\* mock: the function is also made mockable (`mockall`; the derivation is test-gated, the programs are non-test builds):
\* the leaf trait and its Impl<T> implementation must not depend on that
Progs == { p \in [shape : Shapes, async : BOOLEAN, ret : Rets, params : ParamLists, mock : {"none", "mockall"}] :
           /\ (p.ret = "borrow-arg" => \E i \in DOMAIN p.params : p.params[i] = "str")
           /\ (p.ret = "borrow-deps" => p.shape \in {"ident", "path", "reflife"})
           /\ (p.shape = "reflife" => p.ret # "borrow-arg") }

\* ---- availability: types C, Impl<C>, App (hand-written impl), Impl<App>, X (nothing), Impl<X>, NoSyncApp (impl, !Sync)
Types == {App("C"), ImplT("C"), App("App"), ImplT("App"), App("X"), ImplT("X"), App("NoSync"), ImplT("NoSync")}
BaseFacts == { <<t, "Sync">> : t \in Types \ {App("NoSync"), ImplT("NoSync")} } \cup { <<t, "static">> : t \in Types }
             \cup { <<App("App"), "Tr">>, <<App("NoSync"), "Tr">> }            \* the hand-written impls
Rules == { [tr |-> "Tr", self |-> "concrete", cty |-> App("C"), pb |-> {}, sb |-> {}],
           [tr |-> "Tr", self |-> "implT", cty |-> App(""), pb |-> {"Tr", "Sync", "static"}, sb |-> {}] }
PredAvail(t) == Avail(BaseFacts, Rules, Types, t, "Tr")
\* Level 1: implemented for C itself, and for Impl<T> for every T that implements the trait (with the fixed Sync + 'static)
ExpectAvail(t) == IF t.k = "app" THEN t.n \in {"C", "App", "NoSync"} ELSE t.n \in {"C", "App"}
AvailRefines == \A t \in Types : PredAvail(t) = ExpectAvail(t)
ASSUME AvailRefines

\* ---- the call-stack behaviour: receiver kinds "C", "ImplC", "ImplApp"
Recvs == {"C", "ImplC", "ImplApp"}
Own(recv) == IF recv = "ImplApp" THEN [f |-> "provider:App::f", fnf |-> "fn:f"] ELSE [f |-> "fn:f", fnf |-> "fn:f"]
Sc(recv) == [own |-> Own(recv), deps |-> [f |-> "recv", fnf |-> "recv"]]
Args(p) == [j \in 1..Len(p.params) |-> ToString(j)]

VARIABLES p, recv, stack, pc, viol, hops
vars == <<p, recv, stack, pc, viol, hops>>
Init == p \in Progs /\ recv \in Recvs /\ stack = <<>> /\ pc = "idle" /\ viol = {} /\ hops = 0
TraitCall == /\ pc = "idle"
             /\ stack' = DoCall(stack, [m |-> "f", recv |-> "the-C", args |-> Args(p)])
             /\ pc' = (IF recv = "C" THEN "concrete" ELSE "implT") /\ UNCHANGED <<p, recv, viol, hops>>
\* rule 2's body: forward to the inner value's own impl (no event: generated code does not log)
ImplTBody == /\ pc = "implT" /\ hops' = hops + 1
             /\ pc' = (IF recv = "ImplC" THEN "concrete" ELSE "provider") /\ UNCHANGED <<p, recv, stack, viol>>
\* rule 1's body: call the function with `self`
ConcreteBody == /\ pc = "concrete"
                /\ LET c == Top(stack) e == [f |-> "fn:f", deps |-> c.recv, args |-> c.args] IN
                   viol' = viol \cup EnterGuard(stack, Sc(recv), e) /\ stack' = DoEnter(stack, e)
                /\ pc' = "fn" /\ UNCHANGED <<p, recv, hops>>
\* the hand-written provider: enters, then calls the function directly on the C it owns
ProviderBody == /\ pc = "provider"
                /\ LET c == Top(stack) e == [f |-> "provider:App::f", deps |-> c.recv, args |-> c.args] IN
                   /\ viol' = viol \cup EnterGuard(stack, Sc(recv), e)
                   /\ stack' = DoCall(DoEnter(stack, e), [m |-> "fnf", recv |-> "the-C", args |-> c.args])
                /\ pc' = "concrete" /\ UNCHANGED <<p, recv, hops>>
FnBody == /\ pc = "fn"
          /\ LET e == [f |-> Top(stack).f, val |-> <<"v">>] IN viol' = viol \cup ExitGuard(stack, e) /\ stack' = DoExit(stack, e)
          /\ pc' = "ret" /\ UNCHANGED <<p, recv, hops>>
Return == /\ pc = "ret"
          /\ LET c == Top(stack) e == [m |-> c.m, val |-> c.val[1]] IN
             /\ viol' = viol \cup RetGuard(stack, Sc(recv), e)
             /\ LET s2 == DoRet(stack, e) IN
                \* unwinding the provider frame as well
                IF s2 # <<>> /\ Top(s2).k = "fn"
                THEN stack' = DoExit(s2, [f |-> Top(s2).f, val |-> e.val]) /\ pc' = "ret"
                ELSE stack' = s2 /\ pc' = "done"
          /\ UNCHANGED <<p, recv, hops>>
Next == TraitCall \/ ImplTBody \/ ConcreteBody \/ ProviderBody \/ FnBody \/ Return
Spec == Init /\ [][Next]_vars
Refines == viol = {}
Completes == pc = "done" => stack = <<>>
HopCount == pc = "done" => hops = (IF recv = "C" THEN 0 ELSE 1)

ASSUME DumpCases => ndJsonSerialize(IOEnv.OUT, SetToSeq({ [prog |-> q, avail |-> [t \in {"C", "ImplC", "App", "ImplApp", "X", "ImplX", "NoSync", "ImplNoSync"} |->
      LET ty == CASE t = "C" -> App("C") [] t = "ImplC" -> ImplT("C") [] t = "App" -> App("App") [] t = "ImplApp" -> ImplT("App")
                  [] t = "X" -> App("X") [] t = "ImplX" -> ImplT("X") [] t = "NoSync" -> App("NoSync") [] t = "ImplNoSync" -> ImplT("NoSync")
      IN [expect |-> ExpectAvail(ty), pred |-> PredAvail(ty)]]] : q \in Progs }))
=============================================================================
