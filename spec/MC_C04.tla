------------------------------- MODULE MC_C04 -------------------------------
(***************************************************************************)
(* C04: all ways of declaring 0..3 dependency bounds on fn and mod inputs,  *)
(* all mock settings, by-reference and by-value dependencies, both feature *)
(* settings, against a family of probe types.  Level 2: the impl header    *)
(* the generator emits (self type by Opts!Mockable, parameter bounds,      *)
(* `Self:` where-clause collected over ALL functions of the trait),        *)
(* evaluated by the Resolve fix-point.  Refinement: for every input and    *)
(* probe, availability per Level 2 = Req!C04_AvailReq.                     *)
(***************************************************************************)
EXTENDS Opts, Resolve, Json, IOUtils
CONSTANTS DumpCases, WithMod
R == INSTANCE Req

B == {"B1", "B2", "B3"}
Forms == {"inline", "where", "impl", "split"}
FormOk(S, f) == (f = "impl" => S # {}) /\ (f = "split" => Cardinality(S) >= 2)
\* each function declares its bounds in some form and takes the dependency by reference or by value
FnDecls == { d \in [S : SUBSET B, form : Forms, byvalue : BOOLEAN] : FormOk(d.S, d.form) }
ModDecls == { d \in [S : {{}, {"B1"}, {"B2"}, {"B1", "B2"}, {"B3"}}, form : {"inline", "where", "impl"}, byvalue : BOOLEAN] : FormOk(d.S, d.form) }
\* ("nosend": no mock setting but `?Send` - the fixed `Sync + 'static` requirement does not depend on it)
\* ("async": no mock setting, every function is an `async fn` - a future that borrows the receiver needs `T: Sync`, which is part of the
\*  fixed requirement, not `T: Send`)
Mocks == {"none", "unimock+api", "api-only", "unimock=false+api", "mockall", "mockall=false", "nosend", "async"}
Inputs == { i \in [mode : {"fn"}, fns : { <<d>> : d \in FnDecls }, mock : Mocks, feature : BOOLEAN]
                  : i.mock = "unimock+api" => i.feature }
          \cup (IF WithMod THEN { i \in [mode : {"mod"}, fns : { <<d1, d2>> : d1 \in ModDecls, d2 \in ModDecls }, mock : Mocks, feature : BOOLEAN]
                                  : i.mock = "unimock+api" => i.feature } ELSE {})

MockOpts(m) == CASE m = "none" -> <<>>
                 [] m = "unimock+api" -> <<Eq("mock_api", "Mk"), Bare("unimock")>>
                 [] m = "api-only" -> <<Eq("mock_api", "Mk")>>
                 [] m = "unimock=false+api" -> <<Eq("unimock", "false"), Eq("mock_api", "Mk")>>
                 [] m = "mockall" -> <<Bare("mockall")>>
                 [] m = "mockall=false" -> <<Eq("mockall", "false")>>
                 [] m = "nosend" -> <<Bare("?Send")>>
                 [] m = "async" -> <<>>
AttrOf(i) == [lead |-> "pub T", opts |-> MockOpts(i.mock), trail |-> ""]
FE(i) == FrontEnd(i.mode, AttrOf(i), "entrait", i.feature)

\* ---- Level 1's view of the input
Declared(i) == UNION { i.fns[k].S : k \in DOMAIN i.fns }
\* mock support enabled (C10's notion): unimock on (option or feature) with a mock_api, or mockall on
MockSupport(i) == LET o == FE(i).opts IN UnimockAttr(i.mode, o) \/ MockallAttr(o)
\* a by-value receiver anywhere in the trait
AnyByValue(i) == \E k \in DOMAIN i.fns : i.fns[k].byvalue
L1In(i) == [declared |-> Declared(i), byvalue |-> AnyByValue(i), mocksupport |-> MockSupport(i)]

\* ---- probes
Probes == { [shape |-> sh, sat |-> S, sync |-> sy, send |-> se, name |-> nm] :
            sh \in {"bare", "implT"},
            <<S, sy, se, nm>> \in { <<B, TRUE, TRUE, "All">>, <<B \ {"B1"}, TRUE, TRUE, "No1">>, <<B \ {"B2"}, TRUE, TRUE, "No2">>,
                                   <<B \ {"B3"}, TRUE, TRUE, "No3">>, <<B, FALSE, TRUE, "NoSync">>, <<B, TRUE, FALSE, "NoSend">>,
                                   <<{}, TRUE, TRUE, "None">> } }
ProbeTy(pr) == IF pr.shape = "bare" THEN App(pr.name) ELSE ImplT(pr.name)
\* base facts: what each probe type satisfies (the declared-bound traits are implemented for P and for Impl<P>)
BaseFacts == UNION { { <<App(pr.name), b>> : b \in pr.sat } \cup { <<ImplT(pr.name), b>> : b \in pr.sat }
                     \cup (IF pr.sync THEN {<<App(pr.name), "Sync">>, <<ImplT(pr.name), "Sync">>} ELSE {})
                     \cup (IF pr.send THEN {<<App(pr.name), "Send">>, <<ImplT(pr.name), "Send">>} ELSE {})
                     \cup {<<App(pr.name), "static">>, <<ImplT(pr.name), "static">>} : pr \in Probes }
Types == { ProbeTy(pr) : pr \in Probes }

\* ---- Level 2: the generated impl header (fn_delegation_codegen.rs gen_impl_block, generics.rs)
ImplRule(i) ==
  LET o == FE(i).opts IN
  [ tr |-> "T", self |-> IF Mockable(o) THEN "implT" ELSE "blanket", cty |-> App(""),
    pb |-> {"Sync", "static"} \cup (IF AnyByValue(i) THEN {"Send"} ELSE {}),       \* has_any_self_by_value over ALL signatures
    sb |-> UNION { i.fns[k].S : k \in DOMAIN i.fns } ]            \* push_impl_t_bounds: every fn's bounds
PredAvail(i, pr) == Avail(BaseFacts, {ImplRule(i)}, Types, ProbeTy(pr), "T")

\* no named deviation is known for this domain (see known_findings.json: the `= false` defect is fixed)
Class(i) == ""

VARIABLES i, facts, pc
vars == <<i, facts, pc>>
Init == i \in Inputs /\ facts = BaseFacts /\ pc = "resolve"
ApplyImplRule == /\ pc = "resolve"
                 /\ facts' = Derive(facts, {ImplRule(i)}, Types)
                 /\ pc' = (IF facts' = facts THEN "done" ELSE "resolve") /\ UNCHANGED i
Spec == Init /\ [][ApplyImplRule]_vars
StepwiseIsFix == pc = "done" => facts = Fix(BaseFacts, {ImplRule(i)}, Types)
Refines == pc = "done" => (Class(i) # "" \/ \A pr \in Probes : (<<ProbeTy(pr), "T">> \in facts) = R!C04_AvailReq(L1In(i), pr))

ProbeRec(i0, pr) == [name |-> pr.name, shape |-> pr.shape, expect |-> R!C04_AvailReq(L1In(i0), pr), pred |-> PredAvail(i0, pr)]
CaseRec(i0) == [ in |-> [mode |-> i0.mode, fns |-> [k \in DOMAIN i0.fns |-> [S |-> SetToSeq(i0.fns[k].S), form |-> i0.fns[k].form, byvalue |-> i0.fns[k].byvalue]],
                         mock |-> i0.mock, feature |-> i0.feature],
                 attr |-> AttrText(i0.mode, AttrOf(i0)), l1 |-> [declared |-> SetToSeq(Declared(i0)), byvalue |-> AnyByValue(i0), mocksupport |-> MockSupport(i0)],
                 cls |-> Class(i0), probes |-> SetToSeq({ ProbeRec(i0, pr) : pr \in Probes }) ]
ASSUME DumpCases => ndJsonSerialize(IOEnv.OUT, SetToSeq({ CaseRec(x) : x \in Inputs }))
ASSUME PrintT(<<"INPUTS", Cardinality(Inputs)>>)
=============================================================================
