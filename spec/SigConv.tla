------------------------------- MODULE SigConv -------------------------------
(***************************************************************************)
(* M1, stages "collect trait generics" and "convert the signature"         *)
(* (analyze_generics.rs: find_deps_generic_bounds, deps_with_generics -    *)
(* state `tgen` is SHARED by all functions of a module / impl block;       *)
(* signature/converter.rs: rewrite the receiver, remove_generic_type_      *)
(* params, tidy_generics), followed by a static-semantics-lite `StaticOk`  *)
(* of the emitted trait / impls that predicts rustc's verdict.             *)
(*                                                                         *)
(* Abstract function:                                                      *)
(*  [deps: [kind, pass], params: Seq(ty), bound ("inline"/"where": how the *)
(*   type parameter of a "generic" parameter declares its bound), lwhere   *)
(*   (a second lifetime 'b that outlives 'a, declared "where" (`where      *)
(*   'b: 'a`) or "inline" (`<'a, 'b: 'a>`); "none"), async, qual, ret, gname *)
(*   (the name prefix of its type parameters), cfirst (a const parameter  *)
(*   declared before the type parameters), cform (how a concrete          *)
(*   dependency type is written: "path" `crate::Conc` / "ident" `Conc`)]   *)
(***************************************************************************)
EXTENDS TLC, Sequences, Naturals, FiniteSets, SequencesExt

DepKinds == {"generic", "implTrait", "concrete", "nodeps"}
Passes == {"ref", "reflife", "value"}
ParamTys == {"owned", "ref", "reflife", "generic", "implTrait", "array"}
Quals == {"plain", "unsafe", "extern"}
\* "borrow-arg-elided": `fn f(.., p1: &str) -> &str` - the borrow is tied to the only reference parameter by ELISION
Rets == {"unit", "owned", "borrow-deps", "borrow-arg", "borrow-arg-elided", "generic"}

UsesLife(f) == f.deps.pass = "reflife" \/ (\E i \in DOMAIN f.params : f.params[i] = "reflife") \/ f.ret \in {"borrow-deps", "borrow-arg"}
\* the generic parameter list of the function, in declaration order: [kind, name]
HasArray(f) == \E i \in DOMAIN f.params : f.params[i] = "array"
\* (cfirst: the const parameter is declared BEFORE the type parameters - legal since Rust 1.59)
Generics(f) ==
  (IF UsesLife(f) THEN << [kind |-> "life", name |-> "'a"] >> ELSE << >>)
  \o (IF f.lwhere # "none" THEN << [kind |-> "life", name |-> "'b"] >> ELSE << >>)
  \o (IF HasArray(f) /\ f.cfirst THEN << [kind |-> "const", name |-> "N"] >> ELSE << >>)
  \o (IF f.deps.kind = "generic" THEN << [kind |-> "type", name |-> "D"] >> ELSE << >>)
  \o SelectSeq([i \in DOMAIN f.params |-> IF f.params[i] = "generic" THEN [kind |-> "type", name |-> f.gname \o ToString(i)] ELSE [kind |-> "none", name |-> ""]],
               LAMBDA g : g.kind # "none")
  \o (IF HasArray(f) /\ ~f.cfirst THEN << [kind |-> "const", name |-> "N"] >> ELSE << >>)
\* where-predicates: [kind \in {"type", "life"}, on]
WherePreds(f) ==
  (IF f.lwhere = "where" THEN << [kind |-> "life", on |-> "'b"] >> ELSE << >>)
  \o (IF f.bound \in {"where", "whereassoc"}
      THEN SelectSeq([i \in DOMAIN f.params |-> IF f.params[i] = "generic" THEN [kind |-> "type", on |-> f.gname \o ToString(i)] ELSE [kind |-> "none", on |-> ""]],
                     LAMBDA g : g.kind # "none") ELSE << >>)
  \* "whereassoc": additionally a predicate on an associated type of the parameter (`U1::Out: Send`), which needs `U1: HasOut` to be known
  \o (IF f.bound = "whereassoc"
      THEN SelectSeq([i \in DOMAIN f.params |-> IF f.params[i] = "generic" THEN [kind |-> "assoc", on |-> f.gname \o ToString(i)] ELSE [kind |-> "none", on |-> ""]],
                     LAMBDA g : g.kind # "none") ELSE << >>)

\* ---- stage: collect trait generics (one function's contribution to the shared accumulator)
LiftedParams(f) == SelectSeq(Generics(f), LAMBDA g : g.kind \in {"type", "const"} /\ ~(g.kind = "type" /\ g.name = "D"))
\* every TYPE predicate is lifted, whatever the dependency kind (since a "fix:" commit: with a named dependency parameter only
\* non-path predicates used to be lifted, without the predicates they build on).  Lifetime predicates stay on the method
\* (since another "fix:" commit; they used to be lifted).
LiftedWhere(f) == SelectSeq(WherePreds(f), LAMBDA w : w.kind \in {"type", "assoc"})
\* ---- stage: convert the signature: the method keeps its lifetimes only (type AND const parameters are the trait's)
MethodParams(f) == SelectSeq(Generics(f), LAMBDA g : g.kind = "life")
MethodWhere(f) == WherePreds(f)

\* the accumulator after all functions of the trait
TraitParams(fs) == FlattenSeq([k \in DOMAIN fs |-> LiftedParams(fs[k])])
TraitWhere(fs) == FlattenSeq([k \in DOMAIN fs |-> LiftedWhere(fs[k])])

\* ---- static-semantics-lite of the emitted code
Names(gs) == [i \in DOMAIN gs |-> gs[i].name]
DistinctSeq(s) == \A i, j \in DOMAIN s : i # j => s[i] # s[j]
\* a receiver inserted for a no_deps function (`&self`) takes part in lifetime elision: an elided output lifetime that
\* meant "the only reference parameter" now means "self"
ElisionCaptured(f) == f.deps.kind = "nodeps" /\ f.ret = "borrow-arg-elided"
StaticOk(fs) ==
  /\ \A k \in DOMAIN fs : ~ElisionCaptured(fs[k])
  /\ DistinctSeq(Names(TraitParams(fs)))                                                \* `trait T<U, U>`
  /\ \A k \in DOMAIN fs : \A g \in ToSet(MethodParams(fs[k])) : g.name \notin ToSet(Names(TraitParams(fs)))   \* declared on trait AND method
  /\ \A w \in ToSet(TraitWhere(fs)) : w.kind # "life"                                   \* a method lifetime in the trait's where-clause
\* named deviations of the code from Level 1 ("" = none)
Class(fs) == IF ~DistinctSeq(Names(TraitParams(fs))) THEN "module-fns-share-a-generic-name"
             ELSE IF \E k \in DOMAIN fs : ElisionCaptured(fs[k]) THEN "no-deps-receiver-captures-elided-lifetime" ELSE ""
=============================================================================
