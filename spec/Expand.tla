------------------------------- MODULE Expand -------------------------------
(***************************************************************************)
(* M1 end to end: the whole expansion of one invocation as a pipeline      *)
(*   ParseAttr (Opts!Parse, fallbacks of the macro variant)                *)
(*   -> ClassifyInput (fn / mod / trait / impl)                            *)
(*   -> AnalyzeFns (Sig: dependency kinds, dependency mode)                *)
(*   -> GenTraitDef  (trait_codegen.rs gen_trait_def: macro-owned          *)
(*        attributes and their gating, visibility rule, async rewrite)     *)
(*   -> GenImplBlock (fn_delegation_codegen.rs: impl header, delegating    *)
(*        bodies) / trait mode: GenDelegationTraits + GenImplForImplT      *)
(*        (entrait_trait/mod.rs) / impl-block mode: inherent impl + impl   *)
(*        of the delegation-target trait (entrait_impl/mod.rs)             *)
(*   -> Assemble                                                           *)
(* The result is the SHAPE of the expansion: one canonical line per        *)
(* emitted item (kind, name, visibility, macro-owned attributes with their *)
(* gate, generic arity, supertraits, per method: receiver, arity, async    *)
(* form, mirrored attributes, and for delegating methods the call shape).  *)
(* lib/expand.py computes the same lines from the syn-parsed tokens the    *)
(* hook recorded; Trace_Expand compares them for EVERY recorded invocation *)
(* (the repository's suite, random corpora, the option lattices).          *)
(*                                                                         *)
(* Abstract input (lib/expand.py derives it mechanically from the recorded *)
(* attribute and item tokens; no semantics there):                         *)
(*  [target, variant, attr: [lead, opts, trail] (as Opts), tvis, tname,    *)
(*   implkind ("static"/"dyn": `ref`/`dyn` written in an impl attribute),  *)
(*   sub: kinds of the item's own attributes in order,                     *)
(*   fns: Seq([name, vis, async, first: [wrap, base, nbounds, basetext],   *)
(*             nparams, ngen, ncfg]),  items: Seq("fn"/"other") (module),  *)
(*   modname, modvis,                                                      *)
(*   tr: [name, vis, ngen, gargs, supers, nother, methods: Seq([name,      *)
(*        async, retfut, recv, nparams, nattrs])],                                 *)
(*   im: [trait, selfty]]                                                  *)
(***************************************************************************)
EXTENDS Opts, Sig

RECURSIVE JoinFromS(_, _, _)
JoinFromS(s, sep, i) == IF i > Len(s) THEN "" ELSE (IF i > 1 THEN sep ELSE "") \o s[i] \o JoinFromS(s, sep, i + 1)
Join(s, sep) == JoinFromS(s, sep, 1)
Num(n) == ToString(n)
RECURSIVE SumSeq(_, _)
SumSeq(s, i) == IF i > Len(s) THEN 0 ELSE s[i] + SumSeq(s, i + 1)

\* ---- stage: parse the attribute for the macro variant that was entered
FrontEndV(target, a, variant) ==
  LET p0 == Parse(target, a)
      p  == IF target = "trait" THEN TraitSemantic(p0) ELSE p0 IN
  [p EXCEPT !.opts = IF p.err = "" THEN ApplyFallbacks(p.opts, variant) ELSE p.opts]

\* attributes of emitted items: [kind, gated (behind cfg_attr(test, ..)), detail]
A(kind, gated, detail) == [kind |-> kind, gated |-> gated, detail |-> detail]
Plain(kind) == A(kind, FALSE, "")
AText(a) == a.kind \o (IF a.gated THEN "?" ELSE "") \o a.detail
Gate(o) == ~ExportValue(o)
OwnedKinds == {"async_trait", "automock", "mockall", "unimock", "entrait"}
HasAsyncTrait(sub) == \E i \in DOMAIN sub : sub[i] = "async_trait"
\* what gen_trait_def re-applies from the attributes below entrait (fn / mod / generated target traits)
Plains(ks) == [i \in DOMAIN ks |-> Plain(ks[i])]
ReusedOnTrait(sub) == Plains(SelectSeq(sub, LAMBDA k : k \in {"async_trait", "automock", "mockall"}))
ReusedOnImpl(sub)  == Plains(SelectSeq(sub, LAMBDA k : k = "async_trait"))

\* ---- method lines
AsyncForm(isasync, sub, o) ==
  IF ~isasync THEN "sync" ELSE IF HasAsyncTrait(sub) THEN "async" ELSE IF FutureSend(o) THEN "fut+send" ELSE "fut"
\* a method of an emitted trait / impl: [name, recv, implp (has the `__impl` parameter), nparams, form, nattrs, call]
NoCall == [kind |-> "", first |-> "", n |-> 0, aw |-> FALSE]
MLine(name, recv, implp, nparams, form, nattrs) ==
  [name |-> name, recv |-> recv, implp |-> implp, nparams |-> nparams, form |-> form, nattrs |-> nattrs, call |-> NoCall]
Call(kind, first, n, aw) == [kind |-> kind, first |-> first, n |-> n, aw |-> aw]
WithCall(m, c) == [m EXCEPT !.call = c]
CallText(c) == IF c.kind = "" THEN "" ELSE "=>" \o c.kind \o "(" \o c.first \o "," \o Num(c.n) \o ")" \o (IF c.aw THEN ".await" ELSE "")
MText(m) == m.name \o "(" \o m.recv \o (IF m.implp THEN "+__impl" ELSE "") \o "," \o Num(m.nparams) \o ")" \o m.form \o "#" \o Num(m.nattrs) \o CallText(m.call)

\* receiver the converter gives a function (converter.rs generate_params): Insert for no_deps, Rewrite otherwise; parentheses
\* (and the invisible groups of macro fragments) are looked through (since a "fix:" commit; `(&D)` used to become a by-value
\* `self`), then a reference type becomes `&self`, anything else a by-value `self`
Unparen(w) == SelectSeq(w, LAMBDA x : x # "paren")
FnRecv(f, nodeps) == IF nodeps THEN "ref"
                     ELSE LET w == Unparen(f.first.wrap) IN IF w # <<>> /\ w[1] \in {"ref", "reflife"} THEN "ref" ELSE "value"
FnArity(f, nodeps) == IF nodeps THEN f.nparams ELSE f.nparams - 1
\* rk: "self" (fn, mod) / "static" / "dyn" (impl blocks)
TraitMethodOfFn(f, nodeps, rk, sub, o, withcfg) ==
  LET r == FnRecv(f, nodeps) IN
  MLine(f.name, IF rk = "static" THEN "none" ELSE r, rk # "self", FnArity(f, nodeps), AsyncForm(f.async, sub, o), IF withcfg THEN f.ncfg ELSE 0)
ImplMethodOfFn(f, nodeps, rk, withcfg) ==
  LET r == FnRecv(f, nodeps) IN
  WithCall(MLine(f.name, IF rk = "static" THEN "none" ELSE r, rk # "self", FnArity(f, nodeps), IF f.async THEN "async" ELSE "sync", IF withcfg THEN f.ncfg ELSE 0),
           Call(IF rk = "self" THEN "fn" ELSE "Self::fn", IF rk # "self" THEN "__impl" ELSE IF nodeps THEN "-" ELSE "self", FnArity(f, nodeps), f.async))

\* ---- item lines
\* emitted items are records; Render turns them into the canonical lines
TraitLine(vis, name, attrs, ngen, supers, methods) ==
  [k |-> "trait", vis |-> vis, name |-> name, attrs |-> attrs, ngen |-> ngen, supers |-> supers, methods |-> methods, ind |-> ""]
ImplLine(trait, nargs, self, attrs, app, nself, methods) ==
  [k |-> "impl", trait |-> trait, nargs |-> nargs, self |-> self, attrs |-> attrs, app |-> app, nself |-> nself, methods |-> methods, ind |-> ""]
Text(t) == [k |-> "text", text |-> t]
Indent(it) == IF it.k = "text" THEN [it EXCEPT !.text = "  " \o @] ELSE [it EXCEPT !.ind = "  "]
LineOf(it) ==
  CASE it.k = "text"  -> it.text
    [] it.k = "trait" -> it.ind \o "trait " \o it.vis \o " " \o it.name \o " [" \o Join([i \in DOMAIN it.attrs |-> AText(it.attrs[i])], ",") \o "] <" \o Num(it.ngen) \o "> :" \o Join(it.supers, "+")
                         \o " { " \o Join([i \in DOMAIN it.methods |-> MText(it.methods[i])], " ; ") \o " }"
    [] it.k = "impl"  -> it.ind \o "impl " \o it.trait \o "<" \o Num(it.nargs) \o "> for " \o it.self \o " [" \o Join([i \in DOMAIN it.attrs |-> AText(it.attrs[i])], ",") \o "] app:" \o Join(it.app, "+")
                         \o " self:" \o Num(it.nself) \o " { " \o Join([i \in DOMAIN it.methods |-> MText(it.methods[i])], " ; ") \o " }"
Render(items) == [i \in DOMAIN items |-> LineOf(items[i])]
SyncB == "::core::marker::Sync"
SendB == "::core::marker::Send"

\* ---- fn and mod mode
\* module mode: the trait is generated one module further in than the attribute is written, so a visibility relative to the
\* attribute's place is re-based by one `super` (since a "fix:" commit; it used to be copied verbatim: `pub(super) T` made the
\* re-export fail, `pub(self) T` made the trait private to the module itself).  Compact token text, as the projector prints it.
ModTraitVis(in) ==
  CASE in.tvis = "" -> "pub(super)"
    [] in.tvisp.head = "self" /\ in.tvisp.rest = "" -> "pub(super)"
    [] in.tvisp.head = "self" -> "pub(insuper" \o in.tvisp.rest \o ")"
    [] in.tvisp.head = "super" -> "pub(insuper::super" \o in.tvisp.rest \o ")"
    [] OTHER -> in.tvis
PubFns(in) == IF in.target = "mod" THEN SelectSeq(in.fns, LAMBDA f : f.vis # "") ELSE in.fns
\* generics lifted to the trait: all type / const parameters, minus the named dependency parameter
Lifted(f, d) == IF d.kind = "generic" /\ d.named THEN f.ngen - 1 ELSE f.ngen
UnimockTok(o, target, nfns) ==
  A("unimock", Gate(o), "(" \o (IF o.mock_api # "absent" THEN (IF target = "fn" THEN "api[]" ELSE "api") ELSE "")
                        \o (IF target # "trait" /\ nfns > 0 THEN "+unmock" ELSE "") \o ")")
FnModItems(in, o) ==
  LET fs == PubFns(in)
      nd == NoDepsValue(o)
      an == AnalyzeFns(in.target, [i \in DOMAIN fs |-> fs[i].first], nd) IN
  IF an.err # "" THEN [err |-> an.err, items |-> <<>>]
  ELSE
  LET conc == an.dmode = "concrete"
      ngen == SumSeq([i \in DOMAIN fs |-> Lifted(fs[i], an.deps[i])], 1)
      withcfg == in.target = "mod"
      tattrs == (IF UnimockAttr(in.target, o) THEN << UnimockTok(o, in.target, Len(fs)) >> ELSE << >>)
                \o (IF conc THEN << A("entrait", FALSE, "(unimock=false,mockall=false)") >> ELSE << >>)
                \o (IF MockallAttr(o) THEN << A("mockall", Gate(o), "") >> ELSE << >>)
                \o ReusedOnTrait(in.sub)
      tvis == IF in.target = "mod" THEN ModTraitVis(in) ELSE in.tvis
      tline == TraitLine(tvis, in.tname, tattrs, ngen, << >>, [i \in DOMAIN fs |-> TraitMethodOfFn(fs[i], nd, "self", in.sub, o, withcfg)])
      byvalue == \E i \in DOMAIN fs : ~nd /\ FnRecv(fs[i], nd) = "value"
      self == IF conc THEN "concrete:" \o fs[1].first.basetext ELSE IF Mockable(o) THEN "implT" ELSE "blanket"
      app == IF conc THEN << >> ELSE << SyncB >> \o (IF byvalue THEN << SendB >> ELSE << >>) \o << "'static" >>
      nself == IF conc THEN 0 ELSE SumSeq([i \in DOMAIN fs |-> IF an.deps[i].kind = "generic" THEN fs[i].first.nbounds ELSE 0], 1)
      iline == ImplLine(in.tname, ngen, self, ReusedOnImpl(in.sub), app, nself, [i \in DOMAIN fs |-> ImplMethodOfFn(fs[i], nd, "self", withcfg)]) IN
  IF in.target = "fn"
  THEN [err |-> "", items |-> << Text("fn " \o in.fns[1].name), tline, iline >>]
  ELSE [err |-> "", items |-> << Text("mod " \o in.modvis \o " " \o in.modname \o " {") >>
                               \o [i \in DOMAIN in.items |-> Text("  " \o in.items[i])]
                               \o << Indent(tline), Indent(iline), Text("}"), Text("use " \o in.tvis \o " " \o in.modname \o "::" \o in.tname) >>]

\* ---- trait mode
TraitMethod(m, sub, o, rk) ==
  \* rk: "orig" the user's trait; "static": receiver replaced by __impl; "dyn": __impl inserted after the receiver
  LET hasrecv == m.recv # "none" IN
  \* (a method the user wrote as `fn m(..) -> impl Future<..>` is re-emitted as written)
  MLine(m.name, IF rk = "static" /\ hasrecv THEN "none" ELSE m.recv, rk # "orig" /\ hasrecv, m.nparams,
        IF ~m.async /\ m.retfut # "" THEN m.retfut ELSE AsyncForm(m.async, sub, o), m.nattrs)
DelegCall(e, m, anyasync, implt) ==
  LET plus == IF anyasync THEN "+Sync" ELSE "" IN
  CASE implt # "" /\ e.delegate = "custom" -> Call("Target", "self", m.nparams, m.async)
    [] implt # "" /\ e.delegate = "ref"    -> Call("AsRef-dyn" \o plus, "self", m.nparams, m.async)
    [] implt # "" /\ e.delegate = "borrow" -> Call("Borrow-dyn" \o plus, "self", m.nparams, m.async)
    \* (the inner value is reached by path - `<::entrait::Impl<T> as ::core::convert::AsRef<T>>::as_ref(self)`,
    \*  `::entrait::Impl::<T>::into_inner(self)` - since a "fix:" commit; it used to be method syntax, `self.as_ref()`)
    [] implt = "" /\ e.delegate = "ref"    -> Call("Impl::as_ref>AsRef-dyn", "-", m.nparams, m.async)
    [] implt = "" /\ e.delegate = "borrow" -> Call("Impl::as_ref>Borrow-dyn", "-", m.nparams, m.async)
    [] OTHER -> Call(IF m.recv = "value" THEN "Impl::into_inner" ELSE "Impl::as_ref", "-", m.nparams, m.async)
TraitItems(in, p) ==
  LET o == p.opts
      e == Effective(p)
      tr == in.tr
      \* (Opts keeps the lead as written, `pub TImpl`; the identifier alone is in.tname)
      implt == IF p.impltrait = "" THEN "" ELSE IF in.tname # "" THEN in.tname ELSE p.impltrait
      anyasync == \E i \in DOMAIN tr.methods : tr.methods[i].async
      owned == Plains(SelectSeq(in.sub, LAMBDA k : k \in OwnedKinds))
      tattrs == (IF UnimockAttr("trait", o) THEN << UnimockTok(o, "trait", Len(tr.methods)) >> ELSE << >>)
                \o (IF MockallAttr(o) THEN << A("mockall", Gate(o), "") >> ELSE << >>) \o owned
      t1 == TraitLine(tr.vis, tr.name, tattrs, tr.ngen, tr.supers, [i \in DOMAIN tr.methods |-> TraitMethod(tr.methods[i], in.sub, o, "orig")])
      asubk == SelectSeq(in.sub, LAMBDA k : k = "async_trait")
      asub == Plains(asubk)
      \* the generated delegation-target trait: async_trait is written once by the caller and once by gen_trait_def
      rk == IF e.delegate = "custom" THEN "static" ELSE "dyn"
      t2 == TraitLine(tr.vis, implt, asub \o asub, tr.ngen + 1, << "'static" >>, [i \in DOMAIN tr.methods |-> TraitMethod(tr.methods[i], asubk, o, rk)])
      \* (the delegation trait goes with the other two; it was `pub` whatever the trait's visibility before a "fix:" commit)
      t3 == TraitLine(tr.vis, p.delegname, << >>, 1, << >>, << >>)
      trargs == tr.name \o tr.gargs
      \* an async method with a by-value receiver moves the Impl<T> into its future: T is Send unless ?Send (since a "fix:" commit;
      \* function and module inputs always did that, see FnModItems)
      movesself == FutureSend(o) /\ \E i \in DOMAIN tr.methods : tr.methods[i].async /\ tr.methods[i].recv = "value"
      app == << SyncB >> \o (IF movesself THEN << SendB >> ELSE << >>) \o << "'static" >> \o
             (CASE implt # "" /\ e.delegate = "custom" -> << p.delegname \o "<EntraitT>", SyncB, "'static" >>
                [] implt # "" /\ e.delegate \in {"ref", "borrow"} ->
                     << (IF e.delegate = "ref" THEN "::core::convert::AsRef" ELSE "::core::borrow::Borrow") \o "<dyn" \o implt \o "<EntraitT>"
                        \o (IF anyasync THEN "+" \o SyncB ELSE "") \o ">" >> \o (IF anyasync THEN << SyncB >> ELSE << >>) \o << "'static" >>
                [] implt = "" /\ e.delegate \in {"ref", "borrow"} ->
                     << (IF e.delegate = "ref" THEN "::core::convert::AsRef" ELSE "::core::borrow::Borrow") \o "<dyn" \o trargs \o ">" >>
                     \o (IF anyasync THEN << SyncB >> ELSE << >>) \o << "'static" >>
                [] OTHER -> << trargs, SyncB >> \o (IF anyasync THEN << "'static" >> ELSE << >>))
      im == ImplLine(tr.name, tr.ngen, "implT", asub, app, 0,
                     [i \in DOMAIN tr.methods |->
                        WithCall(MLine(tr.methods[i].name, tr.methods[i].recv, FALSE, tr.methods[i].nparams, IF tr.methods[i].async THEN "async" ELSE "sync", tr.methods[i].nattrs),
                                 DelegCall(e, tr.methods[i], anyasync, implt))]) IN
  IF tr.nother > 0 THEN [err |-> "unsupported-trait-item", items |-> << >>]
  ELSE [err |-> "", items |-> << t1 >> \o (IF implt = "" THEN << >> ELSE IF e.delegate = "custom" THEN << t2, t3 >> ELSE << t2 >>) \o << im >>]

\* ---- impl-block mode
ImplItems(in, o) ==
  LET fs == in.fns
      rk == in.implkind
      an == AnalyzeFns("impl", [i \in DOMAIN fs |-> fs[i].first], FALSE) IN
  IF an.err # "" THEN [err |-> an.err, items |-> << >>]
  ELSE
  LET ngen == SumSeq([i \in DOMAIN fs |-> Lifted(fs[i], an.deps[i])], 1)
      inh == "inherent " \o in.im.selfty \o " [" \o Join(SelectSeq(in.sub, LAMBDA k : k # "async_trait"), ",") \o "] { " \o Join([i \in DOMAIN fs |-> fs[i].name], " ; ") \o " }"
      il == ImplLine(in.im.trait, ngen + 1, "concrete:" \o in.im.selfty, ReusedOnImpl(in.sub), << >>, 0, [i \in DOMAIN fs |-> ImplMethodOfFn(fs[i], FALSE, rk, TRUE)]) IN
  [err |-> "", items |-> << Text(inh), il >>]

\* ---- the pipeline as one function (Trace_Expand) ...
Generate(in, p) ==
  CASE in.target \in {"fn", "mod"} -> FnModItems(in, p.opts)
    [] in.target = "trait" -> TraitItems(in, p @@ [delegname |-> in.delegname])
    [] in.target = "impl"  -> ImplItems(in, p.opts)
\* the item is parsed before the attribute (Input::parse): an impl block whose trait path carries generic arguments is
\* rejected there (the generated header would append `<EntraitT>` to that path)
ItemErr(in) == IF in.target = "impl" /\ in.im.targs THEN "impl-trait-path-arguments" ELSE ""
Expand(in) ==
  LET p == FrontEndV(in.target, in.attr, in.variant) IN
  IF ItemErr(in) # "" THEN [err |-> ItemErr(in), items |-> << >>, lines |-> << >>]
  ELSE IF p.err # "" THEN [err |-> p.err, items |-> << >>, lines |-> << >>]
  ELSE LET g == Generate(in, p) IN [err |-> g.err, items |-> g.items, lines |-> Render(g.items)]
=============================================================================
