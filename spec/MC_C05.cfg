SPECIFICATION Spec
CONSTANTS
  MaxParams = 2
  DumpCases = TRUE
INVARIANTS Refines Completes HopCount
CHECK_DEADLOCK FALSE
