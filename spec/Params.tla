------------------------------- MODULE Params -------------------------------
(***************************************************************************)
(* M1, stage "parameter renaming" (entrait_macros/src/signature/           *)
(* fn_params.rs).  Level 2: the three stages exactly as coded              *)
(*   Simplify -> LiftInner -> Autogenerate (one step per parameter, with   *)
(* the taken-set and the `_`-prefix retry) -> FixIdentConflicts (one step  *)
(* per parameter, `_`-suffix retry).                                       *)
(* The abstract input is a list of parameter-pattern symbols, a function   *)
(* name and the no_deps flag; the module also owns the concretisation of   *)
(* every symbol (pattern text, binding names), so that the renderer is a   *)
(* table lookup and the model, not python, decides what is generated.      *)
(***************************************************************************)
EXTENDS TLC, Sequences, Naturals, FiniteSets, SequencesExt

\* ---- names: identifiers with an explicit raw flag (TLC strings cannot be sliced)
\* lc: "the text starts with a lower-case letter" - what the lifting visitor counts as a binding
Nm(b)     == [raw |-> FALSE, base |-> b, lc |-> TRUE]
UNm(b)    == [raw |-> FALSE, base |-> b, lc |-> FALSE]      \* `_x`, `X`: not counted
RawNm(b)  == [raw |-> TRUE,  base |-> b, lc |-> TRUE]       \* text `r#..` starts with `r`
NText(n)  == (IF n.raw THEN "r#" ELSE "") \o n.base
NoName    == UNm("")
SameIdent(a, b) == a.base = b.base          \* rustc's identity: r#foo is foo
SameText(a, b)  == a = b                    \* the macro's identity: string comparison

\* ---- the pattern alphabet (property C16 + the interaction symbols of DESIGN 6)
\* (implname: a parameter called `__impl` - the name of the parameter the macro inserts for delegation targets, i.e. for the functions of
\*  an entraited impl block)
PlainSyms == {"id", "mut", "ref", "at", "raw", "fnname", "fnname_", "rawfn", "gnext", "gprev", "ugnext", "ugprev", "implname"}
\* (tsmut / stref / tsat: a single inner binding that carries a binding mode or a subpattern: `N(mut q)`, `S { v: ref q }`, `N(q @ _)`;
\*  tsraw: a single inner binding that is a raw keyword identifier: `N(r#match)`)
DestrSyms == {"wild", "tup2", "tup0", "ts1", "ts1w", "st1", "sts", "refp", "tsu", "nest2", "liftfn", "liftfn_", "tsmut", "stref", "tsat", "tsraw"}
AllSyms   == PlainSyms \cup DestrSyms

RawKw == <<"type", "match", "loop", "move", "async">>
Idx(i) == ToString(i)

\* bindings (as the syn visitor meets them) of symbol s at 1-based position i in fn f
Binds(s, i, f) ==
  CASE s \in {"id", "mut", "ref", "at"} -> << Nm("p" \o Idx(i)) >>
    [] s \in {"raw", "tsraw"} -> << RawNm(RawKw[i]) >>
    [] s = "fnname"  -> << f >>
    [] s = "fnname_" -> << [f EXCEPT !.base = @ \o "_"] >>
    [] s = "rawfn"   -> << RawNm(f.base) >>
    [] s = "gnext"   -> << Nm("arg" \o Idx(i)) >>
    [] s = "gprev"   -> << Nm("arg" \o Idx(i - 2)) >>
    [] s = "ugnext"  -> << UNm("_arg" \o Idx(i)) >>
    [] s = "ugprev"  -> << UNm("_arg" \o Idx(i - 2)) >>
    [] s = "implname" -> << UNm("__impl") >>
    [] s \in {"wild", "tup0"} -> << >>
    [] s = "tup2"    -> << Nm("x" \o Idx(i)), Nm("y" \o Idx(i)) >>
    [] s = "nest2"   -> << Nm("x" \o Idx(i)), Nm("y" \o Idx(i)) >>
    [] s \in {"ts1", "ts1w", "st1", "refp", "tsmut", "stref", "tsat"} -> << Nm("q" \o Idx(i)) >>
    [] s = "sts"     -> << Nm("v") >>
    [] s = "tsu"     -> << UNm("_u" \o Idx(i)) >>
    [] s = "liftfn"  -> << f >>
    [] s = "liftfn_" -> << [f EXCEPT !.base = @ \o "_"] >>

\* Rust text of the parameter (pattern : type)
PText(s, i, f) ==
  LET b == Binds(s, i, f) IN
  CASE s \in {"id", "raw", "fnname", "fnname_", "rawfn", "gnext", "gprev", "ugnext", "ugprev", "implname"}
                     -> NText(b[1]) \o ": i32"
    [] s = "mut"     -> "mut " \o NText(b[1]) \o ": i32"
    [] s = "ref"     -> "ref " \o NText(b[1]) \o ": i32"
    [] s = "at"      -> NText(b[1]) \o " @ N(_): N"
    [] s = "wild"    -> "_: i32"
    [] s = "tup0"    -> "(): ()"
    [] s = "tup2"    -> "(" \o NText(b[1]) \o ", " \o NText(b[2]) \o "): (i32, i32)"
    [] s = "nest2"   -> "N2(" \o NText(b[1]) \o ", " \o NText(b[2]) \o "): N2"
    [] s = "ts1"     -> "N(" \o NText(b[1]) \o "): N"
    [] s = "ts1w"    -> "N2(" \o NText(b[1]) \o ", _): N2"
    [] s = "st1"     -> "S { v: " \o NText(b[1]) \o " }: S"
    [] s = "sts"     -> "S { v }: S"
    [] s = "refp"    -> "&" \o NText(b[1]) \o ": &i32"
    [] s = "tsu"     -> "N(" \o NText(b[1]) \o "): N"
    [] s = "tsmut"   -> "N(mut " \o NText(b[1]) \o "): N"
    [] s = "stref"   -> "S { v: ref " \o NText(b[1]) \o " }: S"
    [] s = "tsat"    -> "N(" \o NText(b[1]) \o " @ _): N"
    [] s = "tsraw"   -> "N(" \o NText(b[1]) \o "): N"
    [] s = "liftfn"  -> "N(" \o NText(b[1]) \o "): N"
    [] s = "liftfn_" -> "N(" \o NText(b[1]) \o "): N"

\* number of i32 leaves the parameter carries (what the logging body returns, in order)
Arity(s) == CASE s \in {"tup2", "nest2"} -> 2 [] s = "tup0" -> 0 [] OTHER -> 1

\* expressions (in the body of the user's function) that read the i32 leaves bound by the parameter, in order;
\* an unbound leaf (`_`) is reported as 0 by the logging body
BExpr(s, i, f) ==
  LET b == Binds(s, i, f) IN
  CASE s \in {"id", "mut", "raw", "fnname", "fnname_", "rawfn", "gnext", "gprev", "ugnext", "ugprev", "implname"} -> << NText(b[1]) >>
    [] s \in {"ref", "stref"}  -> << "*" \o NText(b[1]) >>
    [] s = "at"   -> << NText(b[1]) \o ".0" >>
    [] s \in {"wild"} -> << "0" >>
    [] s = "tup0" -> << >>
    [] s \in {"tup2", "nest2"} -> << NText(b[1]), NText(b[2]) >>
    [] OTHER -> << NText(b[1]) >>
\* the argument expression a caller writes for leaf values v, v+1
VExpr(s, v) ==
  CASE s \in {"tup2"}  -> "(" \o ToString(v) \o ", " \o ToString(v + 1) \o ")"
    [] s = "nest2"     -> "N2(" \o ToString(v) \o ", " \o ToString(v + 1) \o ")"
    [] s = "tup0"      -> "()"
    [] s \in {"at", "ts1", "tsu", "liftfn", "liftfn_", "tsmut", "tsat", "tsraw"} -> "N(" \o ToString(v) \o ")"
    [] s = "ts1w"      -> "N2(" \o ToString(v) \o ", 0)"
    [] s \in {"st1", "sts", "stref"} -> "S { v: " \o ToString(v) \o " }"
    [] s = "refp"      -> "&" \o ToString(v)
    [] OTHER           -> ToString(v)
\* what the logging body returns when called with leaf values numbered from 1 in declared order
RECURSIVE LeafStart(_, _)
LeafStart(l, i) == IF i = 1 THEN 1 ELSE LeafStart(l, i - 1) + Arity(l[i - 1])
Expect(l) == FlattenSeq([i \in 1..Len(l) |->
               CASE l[i] = "wild" -> <<0>>
                 [] Arity(l[i]) = 2 -> <<LeafStart(l, i), LeafStart(l, i) + 1>>
                 [] Arity(l[i]) = 0 -> <<>>
                 [] OTHER -> <<LeafStart(l, i)>>])

SymOkAt(s, i) == (s \in {"gprev", "ugprev"} => i >= 2) /\ (s \in {"raw", "tsraw"} => i <= Len(RawKw))
AllBinds(l, f) == FlattenSeq([i \in 1..Len(l) |-> Binds(l[i], i, f)])
DistinctBy(sq, Eq(_, _)) == \A i, j \in 1..Len(sq) : i # j => ~Eq(sq[i], sq[j])
\* the user's own function must be valid Rust: all bindings distinct identifiers,
\* and a raw function name only with symbols that make sense for it
ValidOriginal(l, f) ==
  /\ \A i \in 1..Len(l) : SymOkAt(l[i], i)
  /\ DistinctBy(AllBinds(l, f), SameIdent)
  /\ (f.raw => \A i \in 1..Len(l) : l[i] \notin {"rawfn", "fnname_", "liftfn_"})

\* ------------------------------------------------------------------------
\* Level 2: state of the signature being converted
\*   st[i] = [ident: is it syn::Pat::Ident, name, deco, nb: counted inner bindings, first]
\* ------------------------------------------------------------------------
LowerStart(n) == n.lc
Counted(s, i, f) == SelectSeq(Binds(s, i, f), LowerStart)

Init0(l, f) == [i \in 1..Len(l) |->
   LET b == Binds(l[i], i, f) c == Counted(l[i], i, f) IN
   [ ident |-> l[i] \in PlainSyms,
     name  |-> IF l[i] \in PlainSyms THEN b[1] ELSE NoName,
     deco  |-> IF l[i] \in {"mut", "ref", "at"} THEN l[i] ELSE "",
     nb    |-> Len(c),
     first |-> IF Len(c) > 0 THEN c[1] ELSE NoName ]]

\* stage 1 (simplify_pat_idents): a top-level identifier pattern loses `mut`, `ref` and `@ subpattern`
Stage1(st) == [i \in DOMAIN st |-> IF st[i].ident THEN [st[i] EXCEPT !.deco = ""] ELSE st[i]]
AllIdent(st) == \A i \in DOMAIN st : st[i].ident
\* stage 2 (lift_inner_pat_idents): exactly one counted binding -> replace the pattern by it
Stage2(st) == [i \in DOMAIN st |->
   IF ~st[i].ident /\ st[i].nb = 1 THEN [st[i] EXCEPT !.ident = TRUE, !.name = st[i].first, !.deco = ""] ELSE st[i]]
\* the parameters the macro itself inserts in front of the user's (typed ones; the `self` receiver is not one)
InsertedNames(rk) == IF rk = "self" THEN << >> ELSE << UNm("__impl") >>
\* stage 3 (autogenerate_for_non_idents): `arg<index>` with `_` prefixes until not taken.
\* The taken-set holds un-rawed identifier strings.
TakenOf(st) == { st[i].name.base : i \in { j \in DOMAIN st : st[j].ident } }
RECURSIVE GenName(_, _, _)
GenName(idx, us, taken) ==
  LET n == us \o "arg" \o ToString(idx) IN IF n \in taken THEN GenName(idx, "_" \o us, taken) ELSE n
\* (the index counts the typed parameters of the converted signature: a receiver does not count, a parameter the macro inserted
\*  in front - off = 1 for the functions of an impl block - does)
Stage3Step(st, i, taken, off) ==
  IF st[i].ident THEN [st |-> st, taken |-> taken]
  ELSE LET n == GenName(i - 1 + off, "", taken) IN
       [st |-> [st EXCEPT ![i] = [@ EXCEPT !.ident = TRUE, !.name = Nm(n), !.deco = ""]], taken |-> taken \cup {n}]
RECURSIVE Stage3(_, _, _, _)
Stage3(st, i, taken, off) ==
  IF i > Len(st) THEN st
  ELSE LET r == Stage3Step(st, i, taken, off) IN Stage3(r.st, i + 1, r.taken, off)
\* stage 4 (fix_ident_conflicts, runs last): a parameter that is the function's identifier (raw or not) gets
\* `_` appended until the name is free
RECURSIVE Suffixed(_, _)
Suffixed(b, taken) == IF b \in taken THEN Suffixed(b \o "_", taken) ELSE b
Stage4Step(st, i, taken, f) ==
  IF st[i].ident /\ st[i].name.base = f.base
  THEN LET n == Suffixed(f.base \o "_", taken) IN
       [st |-> [st EXCEPT ![i] = [@ EXCEPT !.name = Nm(n)]], taken |-> taken \cup {n}]
  ELSE [st |-> st, taken |-> taken]
RECURSIVE Stage4(_, _, _, _)
Stage4(st, i, taken, f) ==
  IF i > Len(st) THEN st
  ELSE LET r == Stage4Step(st, i, taken, f) IN Stage4(r.st, i + 1, r.taken, f)

\* stage 5 (second loop of fix_ident_conflicts, since a "fix:" commit): for a delegation target (rk "static": `#[entrait] impl`,
\* rk "dyn": `#[entrait(ref)] impl`) the macro inserts its own parameter `__impl` in front of the user's; a parameter of the user's
\* with that name gives way (`_` appended until free).  rk "self" (function / module inputs): nothing is inserted, nothing renamed.
Stage5Step(st, i, taken, rk) ==
  IF rk # "self" /\ st[i].ident /\ st[i].name.base = "__impl"
  THEN LET n == Suffixed("__impl_", taken) IN
       [st |-> [st EXCEPT ![i] = [@ EXCEPT !.name = UNm(n)]], taken |-> taken \cup {n}]
  ELSE [st |-> st, taken |-> taken]
RECURSIVE Stage5(_, _, _, _)
Stage5(st, i, taken, rk) ==
  IF i > Len(st) THEN st
  ELSE LET r == Stage5Step(st, i, taken, rk) IN Stage5(r.st, i + 1, r.taken, rk)
RECURSIVE Stage4Taken(_, _, _, _)
Stage4Taken(st, i, taken, f) ==
  IF i > Len(st) THEN taken
  ELSE LET r == Stage4Step(st, i, taken, f) IN Stage4Taken(r.st, i + 1, r.taken, f)

\* the whole conversion as a function (what the trace specification and the case dump use)
FinalK(l, f, rk) ==
  LET s1 == Stage1(Init0(l, f))
      s2 == IF AllIdent(s1) THEN s1 ELSE Stage2(s1)
      s3 == IF AllIdent(s2) THEN s2 ELSE Stage3(s2, 1, TakenOf(s2), Len(InsertedNames(rk)))
      s4 == Stage4(s3, 1, TakenOf(s3), f)
  IN [panic |-> FALSE, st |-> Stage5(s4, 1, Stage4Taken(s3, 1, TakenOf(s3), f), rk)]
Final(l, f) == FinalK(l, f, "self")

Names(st) == [i \in DOMAIN st |-> st[i].name]
Decos(st) == [i \in DOMAIN st |-> st[i].deco]
=============================================================================
