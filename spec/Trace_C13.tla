------------------------------ MODULE Trace_C13 ------------------------------
(* Trace validation for C13: one event per (input, probe location): did naming the trait from there compile.  *)
EXTENDS TraceLib
R == INSTANCE Req
VARIABLES l, bad, drift
vars == <<l, bad, drift>>
Init == l = 1 /\ bad = {} /\ drift = {}
Step == /\ l <= Len(Rec) /\ l' = l + 1
        /\ LET e == Rec[l] IN
           /\ bad' = bad \cup { [case |-> e.case, conjunct |-> c, cls |-> e.cls] : c \in R!C13_Fail(e.l1, e.obs) }
           /\ drift' = drift \cup (IF e.obs.compiled = e.pred THEN {} ELSE {[case |-> e.case, field |-> "accessible"]})
                             \cup (IF e.obs.vistext = e.predvis THEN {} ELSE {[case |-> e.case, field |-> "visibility-tokens"]})
Spec == Init /\ [][Step]_vars
RegC == Reg(l, bad, drift)
=============================================================================
