SPECIFICATION Spec
CONSTANTS
  MaxLen = 2
  Syms = {"id", "mut", "ref", "at", "raw", "fnname", "fnname_", "rawfn", "gnext", "gprev", "ugnext", "ugprev", "wild", "tup2", "tup0", "ts1", "ts1w", "st1", "sts", "refp", "tsu", "nest2", "liftfn", "liftfn_", "tsmut", "stref", "tsat", "tsraw", "implname"}
  Extra3 = {"wild", "tup2", "gnext", "gprev", "ugnext", "ugprev"}
  ImplFull = 1
  DumpCases = TRUE
INVARIANTS TypeOK StepwiseIsFinal TakenExact GenFresh Refines OneNamePerParam InsertedNameIsFree
CHECK_DEADLOCK FALSE
