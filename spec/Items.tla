-------------------------------- MODULE Items --------------------------------
(***************************************************************************)
(* M1, stage "split a module / impl body into items"                       *)
(* (entrait_macros/src/input.rs: ModItem::parse, ImplItem::parse,          *)
(* peek_pub_fn / peek_fn, parse_matched_braces_or_ending_semi).            *)
(*                                                                         *)
(* A body is a sequence of top-level token-tree KINDS:                     *)
(*   "#" "[]"        attribute marker and its bracket group                *)
(*   "pub" "(vis)"   visibility keyword and its restriction group          *)
(*   "fn" "const" "async" "unsafe" "extern" "lit"                          *)
(*   "{}" ";" "()"   brace group, semicolon, parenthesis group             *)
(*   "x"             any other token tree ("[]" elsewhere counts as such)  *)
(* The catalogue gives, for each item template, its kinds, the Rust text   *)
(* the renderer emits ({i} = position in the body, {n} = case number) and  *)
(* the GROUND TRUTH label: is it a function declared directly in the       *)
(* module, with a visibility qualifier and a body?                         *)
(*                                                                         *)
(* Fragments.  An item that reaches the module through a `macro_rules!`    *)
(* fragment (`$i:item`; also the `$b:block` body of a function) is wrapped *)
(* in an invisible group.  The attribute / visibility / signature parsers  *)
(* look through such a group; the scan for the end of an item treats a     *)
(* non-empty invisible group at the START of what it scans as the whole    *)
(* item (since a "fix:" commit - it used to run on to the next brace group *)
(* or `;`, swallowing the following item or failing with "Read past the    *)
(* end").  Consequently the split of a body of wrapped items is the split  *)
(* of the body itself: the machine below is not repeated for wrapped       *)
(* bodies; checks/c08.py replays macro-assembled twins of the bodies       *)
(* against the same ground truth and the same prediction.                  *)
(***************************************************************************)
EXTENDS TLC, Sequences, Naturals, FiniteSets, SequencesExt

Cat == [
  pubfn      |-> [toks |-> <<"pub","fn","x","x","x","x","()","x","x","x","{}">>, label |-> TRUE,
                  text |-> "pub fn f{i}<D>(d: &D) -> u32 { {i} }", q |-> ""],
  privfn     |-> [toks |-> <<"fn","x","x","x","x","()","x","x","x","{}">>, label |-> FALSE,
                  text |-> "fn f{i}<D>(d: &D) -> u32 { {i} }", q |-> ""],
  cratefn    |-> [toks |-> <<"pub","(vis)","fn","x","x","x","x","()","x","x","x","{}">>, label |-> TRUE,
                  text |-> "pub(crate) fn f{i}<D>(d: &D) -> u32 { {i} }", q |-> ""],
  superasync |-> [toks |-> <<"pub","(vis)","async","fn","x","x","x","x","()","x","x","x","{}">>, label |-> TRUE,
                  text |-> "pub(super) async fn f{i}<D>(d: &D) -> u32 { {i} }", q |-> "a"],
  selffn     |-> [toks |-> <<"pub","(vis)","fn","x","x","x","x","()","x","x","x","{}">>, label |-> TRUE,
                  text |-> "pub(self) fn f{i}<D>(d: &D) -> u32 { {i} }", q |-> ""],
  pubinfn    |-> [toks |-> <<"pub","(vis)","fn","x","x","x","x","()","x","x","x","{}">>, label |-> TRUE,
                  text |-> "pub(in crate::cases) fn f{i}<D>(d: &D) -> u32 { {i} }", q |-> ""],
  unsafefn   |-> [toks |-> <<"pub","unsafe","fn","x","x","x","x","()","x","x","x","{}">>, label |-> TRUE,
                  text |-> "pub unsafe fn f{i}<D>(d: &D) -> u32 { {i} }", q |-> "u"],
  externfn   |-> [toks |-> <<"pub","extern","lit","fn","x","x","x","x","()","x","x","x","{}">>, label |-> TRUE,
                  text |-> "pub extern \"C\" fn f{i}<D>(d: &D) -> u32 { {i} }", q |-> ""],
  externbare |-> [toks |-> <<"pub","extern","fn","x","x","x","x","()","x","x","x","{}">>, label |-> TRUE,
                  text |-> "pub extern fn f{i}<D>(d: &D) -> u32 { {i} }", q |-> ""],
  constfn    |-> [toks |-> <<"pub","const","fn","x","x","x","x","()","x","x","x","{}">>, label |-> TRUE,
                  text |-> "pub const fn f{i}<D>(d: &D) -> u32 { {i} }", q |-> "c"],
  allquals   |-> [toks |-> <<"pub","async","unsafe","fn","x","x","x","x","()","x","x","x","{}">>, label |-> TRUE,
                  text |-> "pub async unsafe fn f{i}<D>(d: &D) -> u32 { {i} }", q |-> "au"],
  constunsafe|-> [toks |-> <<"pub","const","unsafe","extern","lit","fn","x","x","x","x","()","x","x","x","{}">>, label |-> TRUE,
                  text |-> "pub const unsafe extern \"C\" fn f{i}<D>(d: &D) -> u32 { {i} }", q |-> "uc"],
  docfn      |-> [toks |-> <<"#","[]","#","[]","pub","fn","x","x","x","x","()","x","x","x","{}">>, label |-> TRUE,
                  text |-> "/// doc {i}\n    #[inline] pub fn f{i}<D>(d: &D) -> u32 { {i} }", q |-> ""],
  fnimpl     |-> [toks |-> <<"pub","fn","x","x","x","x","()","x","x","x","x","()","x","x","x","{}">>, label |-> TRUE,
                  text |-> "pub fn f{i}<D>(d: &D) -> impl Fn() -> u32 { || {i} }", q |-> "f"],
  wherefn    |-> [toks |-> <<"pub","fn","x","x","x","x","()","x","x","x","x","x","x","x","{}">>, label |-> TRUE,
                  text |-> "pub fn f{i}<D>(d: &D) -> u32 where D: Sized { {i} }", q |-> ""],
  privasync  |-> [toks |-> <<"async","fn","x","x","x","x","()","x","x","x","{}">>, label |-> FALSE,
                  text |-> "async fn f{i}<D>(d: &D) -> u32 { {i} }", q |-> "a"],
  privconst  |-> [toks |-> <<"const","fn","x","()","x","x","x","{}">>, label |-> FALSE,
                  text |-> "const fn k{i}() -> u32 { {i} }", q |-> "c"],
  struct     |-> [toks |-> <<"pub","x","x","{}">>, label |-> FALSE,
                  text |-> "pub struct S{i} { pub f: fn() }", q |-> ""],
  tstruct    |-> [toks |-> <<"pub","x","x","()",";">>, label |-> FALSE,
                  text |-> "pub struct S{i}(pub u8);", q |-> ""],
  ustruct    |-> [toks |-> <<"x","x",";">>, label |-> FALSE,
                  text |-> "struct S{i};", q |-> ""],
  enum       |-> [toks |-> <<"pub","x","x","{}">>, label |-> FALSE,
                  text |-> "pub enum E{i} { A, B(fn()) }", q |-> ""],
  constbrace |-> [toks |-> <<"const","x","x","x","x","{}",";">>, label |-> FALSE,
                  text |-> "const C{i}: u8 = { 1 };", q |-> ""],
  pubconst   |-> [toks |-> <<"pub","const","x","x","x","x","x","x","x","x","x","x","x","{}",";">>, label |-> FALSE,
                  text |-> "pub const K{i}: crate::Wr = crate::Wr { a: 1 };", q |-> ""],
  constfnptr |-> [toks |-> <<"pub","const","x","x","fn","()","x","x","x","x","x","x","x","x",";">>, label |-> FALSE,
                  text |-> "pub const P{i}: fn() -> u32 = crate::forty_two;", q |-> ""],
  pubstatic  |-> [toks |-> <<"pub","x","x","x","[]","x","[]",";">>, label |-> FALSE,
                  text |-> "pub static Z{i}: [u8; 2] = [1, 2];", q |-> ""],
  constexpr  |-> [toks |-> <<"const","x","x","x","x","x","x","{}","x","{}",";">>, label |-> FALSE,
                  text |-> "const X{i}: u8 = if true { 1 } else { 2 };", q |-> ""],
  implblk    |-> [toks |-> <<"x","x","x","x","x","{}">>, label |-> FALSE,
                  text |-> "impl crate::Wr { pub fn g{n}_{i}<D>(&self, d: &D) -> u32 { 0 } }", q |-> ""],
  pubmod     |-> [toks |-> <<"pub","x","x","{}">>, label |-> FALSE,
                  text |-> "pub mod inner{i} { pub fn h<D>(d: &D) -> u32 { 0 } }", q |-> ""],
  externblk  |-> [toks |-> <<"extern","lit","{}">>, label |-> FALSE,
                  text |-> "extern \"C\" { pub fn e{n}_{i}(); }", q |-> ""],
  macrorules |-> [toks |-> <<"x","x","x","{}">>, label |-> FALSE,
                  text |-> "macro_rules! m{i} { () => { pub fn x() {} } }", q |-> ""],
  macrocall  |-> [toks |-> <<"x","x","x","x","x","()",";">>, label |-> FALSE,
                  text |-> "crate::nothing!(pub fn y() {});", q |-> ""],
  pubuse     |-> [toks |-> <<"pub","x","x","x","x","x","x","x",";">>, label |-> FALSE,
                  text |-> "pub use core::fmt as fmt{i};", q |-> ""],
  usegroup   |-> [toks |-> <<"x","x","x","x","x","x","x","{}",";">>, label |-> FALSE,
                  text |-> "use core::fmt::{Debug as D{i}, Display as P{i}};", q |-> ""],
  pubtype    |-> [toks |-> <<"pub","x","x","x","fn","()",";">>, label |-> FALSE,
                  text |-> "pub type F{i} = fn();", q |-> ""],
  pubtrait   |-> [toks |-> <<"pub","x","x","{}">>, label |-> FALSE,
                  text |-> "pub trait Tr{i} { fn t(&self); }", q |-> ""],
  unsafeimpl |-> [toks |-> <<"unsafe","x","x","x","x","x","x","x","x","lit","x","{}">>, label |-> FALSE,
                  text |-> "unsafe impl Send for crate::Nt<{n}{i}> {}", q |-> ""],
  cfgfn      |-> [toks |-> <<"#","[]","pub","fn","x","x","x","x","()","x","x","x","{}">>, label |-> TRUE,
                  text |-> "#[cfg(all())] pub fn f{i}<D>(d: &D) -> u32 { {i} }", q |-> ""],
  \* one function written once per cfg alternative (same name `alt{n}`, independent of the position): the disabled and the enabled
  \* alternative are two declared functions and get a (cfg-guarded) method each
  cfgoffalt  |-> [toks |-> <<"#","[]","pub","fn","x","x","x","x","()","x","x","x","{}">>, label |-> TRUE,
                  text |-> "#[cfg(any())] pub fn alt{n}<D>(d: &D) -> u32 { 100 + {i} }", q |-> "X"],
  cfgonalt   |-> [toks |-> <<"#","[]","pub","fn","x","x","x","x","()","x","x","x","{}">>, label |-> TRUE,
                  text |-> "#[cfg(all())] pub fn alt{n}<D>(d: &D) -> u32 { {i} }", q |-> "Y"],
  \* items whose HEADER contains a top-level `=` before the `{ }` body (`<..>` is no token group)
  eqprivfn   |-> [toks |-> <<"fn","x","()","x","x","x","x","x","x","x","x","x","{}">>, label |-> FALSE,
                  text |-> "fn h{i}() -> impl Iterator<Item = u32> { [{i}u32].into_iter() }", q |-> ""],
  eqstruct   |-> [toks |-> <<"pub","x","x","x","x","x","()","x","{}">>, label |-> FALSE,
                  text |-> "pub struct D{i}<T = ()> { pub t: T }", q |-> ""],
  eqtrait    |-> [toks |-> <<"pub","x","x","x","x","x","fn","()","x","{}">>, label |-> FALSE,
                  text |-> "pub trait V{i}<T = fn()> { fn v(&self, t: T); }", q |-> ""],
  \* a visible function DECLARATION without a body (configured out here; elsewhere a lower-level macro supplies the body)
  pubdecl    |-> [toks |-> <<"#","[]","pub","fn","x","()",";">>, label |-> FALSE,
                  text |-> "#[cfg(any())] pub fn nb{i}();", q |-> ""],
  cratedecl  |-> [toks |-> <<"#","[]","pub","(vis)","fn","x","()","x","x","x",";">>, label |-> FALSE,
                  text |-> "#[cfg(any())] pub(crate) fn nc{i}() -> u8;", q |-> ""]
]
Ids == DOMAIN Cat

\* impl-block items (ImplItem::parse looks for fns regardless of visibility)
ICat == [
  fn0       |-> [toks |-> <<"fn","x","x","x","x","()","x","x","x","{}">>, label |-> TRUE,
                 text |-> "fn f{i}<D>(d: &D) -> u32 { {i} }", q |-> ""],
  pubfn0    |-> [toks |-> <<"pub","fn","x","x","x","x","()","x","x","x","{}">>, label |-> TRUE,
                 text |-> "pub fn f{i}<D>(d: &D) -> u32 { {i} }", q |-> ""],
  asyncfn0  |-> [toks |-> <<"async","fn","x","x","x","x","()","x","x","x","{}">>, label |-> TRUE,
                 text |-> "async fn f{i}<D>(d: &D) -> u32 { {i} }", q |-> "a"],
  docfn0    |-> [toks |-> <<"#","[]","fn","x","x","x","x","()","x","x","x","{}">>, label |-> TRUE,
                 text |-> "/// doc\n    fn f{i}<D>(d: &D) -> u32 { {i} }", q |-> ""],
  const0    |-> [toks |-> <<"const","x","x","x","x","{}",";">>, label |-> FALSE,
                 text |-> "const C{i}: u8 = { 1 };", q |-> ""],
  constfp0  |-> [toks |-> <<"const","x","x","fn","()","x","x","x","x",";">>, label |-> FALSE,
                 text |-> "const P{i}: fn() -> u32 = crate::forty_two;", q |-> ""],
  type0     |-> [toks |-> <<"x","x","x","fn","()",";">>, label |-> FALSE,
                 text |-> "type F{i} = fn();", q |-> ""]
]
IIds == DOMAIN ICat

Flat(C, b)  == FlattenSeq([i \in 1..Len(b) |-> C[b[i]].toks])
Owner(C, b) == FlattenSeq([i \in 1..Len(b) |-> [j \in 1..Len(C[b[i]].toks) |-> i]])
Truth(C, b) == SelectSeq([i \in 1..Len(b) |-> IF C[b[i]].label THEN i ELSE 0], LAMBDA x : x # 0)

\* ------------------------------------------------------------------------
\* Level 2: the cursor machine, as pure stage functions over (ts, position)
\* ------------------------------------------------------------------------
At(ts, p) == IF p <= Len(ts) THEN ts[p] ELSE "<eof>"
RECURSIVE SkipAttrs(_, _)
SkipAttrs(ts, p) == IF At(ts, p) = "#" /\ At(ts, p + 1) = "[]" THEN SkipAttrs(ts, p + 2) ELSE p
AfterVis(ts, p) == IF At(ts, p) = "pub" THEN (IF At(ts, p + 1) = "(vis)" THEN p + 2 ELSE p + 1) ELSE p
Opt(ts, p, k) == IF At(ts, p) = k THEN p + 1 ELSE p
\* peek_fn: `fn`, or `const? async? unsafe? (extern lit?)? fn`
PeekFn(ts, p) == \/ At(ts, p) = "fn"
                 \/ LET p1 == Opt(ts, p, "const") p2 == Opt(ts, p1, "async") p3 == Opt(ts, p2, "unsafe")
                        p4 == IF At(ts, p3) = "extern" THEN Opt(ts, p3 + 1, "lit") ELSE p3
                    IN At(ts, p4) = "fn"
\* peek_pub_fn: private functions are not interesting
PeekPubFn(ts, a, v) == v # a /\ PeekFn(ts, v)
RECURSIVE ScanEnd(_, _)     \* position just after the first "{}" or ";" at or after p (eof+1 = "Read past the end")
ScanEnd(ts, p) == IF p > Len(ts) THEN p ELSE IF ts[p] \in {"{}", ";"} THEN p + 1 ELSE ScanEnd(ts, p + 1)
RECURSIVE EatSemis(_, _)
EatSemis(ts, p) == IF At(ts, p) = ";" THEN EatSemis(ts, p + 1) ELSE p
RECURSIVE SigEnd(_, _)      \* syn::Signature (incl. where clause) stops before the body brace or the `;`
SigEnd(ts, p) == IF p > Len(ts) \/ ts[p] \in {"{}", ";"} THEN p ELSE SigEnd(ts, p + 1)

\* one ModItem::parse / ImplItem::parse from position p: [start, next, kind \in {"fn","bodyless","unknown"}]
ParseItem(ts, p, mode) ==
  LET a == SkipAttrs(ts, p)  v == AfterVis(ts, a)
      isfn == IF mode = "mod" THEN PeekPubFn(ts, a, v) ELSE PeekFn(ts, v) IN
  IF isfn
  THEN LET s == SigEnd(ts, v) IN
       IF At(ts, s) = ";" THEN [start |-> p, next |-> s + 1, kind |-> "bodyless"]
       ELSE [start |-> p, next |-> EatSemis(ts, ScanEnd(ts, s)), kind |-> "fn"]
  ELSE [start |-> p, next |-> EatSemis(ts, ScanEnd(ts, v)), kind |-> "unknown"]
RECURSIVE Split(_, _, _)
Split(ts, p, mode) == IF p > Len(ts) THEN <<>> ELSE LET r == ParseItem(ts, p, mode) IN <<r>> \o Split(ts, r.next, mode)

\* which body items (by index) become trait methods, in order
Methods(C, b, mode) ==
  LET ts == Flat(C, b) own == Owner(C, b) sp == Split(ts, 1, mode) IN
  SelectSeq([i \in 1..Len(sp) |-> IF sp[i].kind = "fn" THEN own[sp[i].start] ELSE 0], LAMBDA x : x # 0)
\* the split is a partition of the body into consecutive chunks: re-emitting the items re-emits the body
Lossless(C, b, mode) ==
  LET ts == Flat(C, b) sp == Split(ts, 1, mode) IN
  /\ (Len(sp) > 0 => sp[1].start = 1 /\ sp[Len(sp)].next = Len(ts) + 1)
  /\ \A i \in 1..(Len(sp) - 1) : sp[i].next = sp[i + 1].start
  /\ \A i \in 1..Len(sp) : sp[i].next > sp[i].start
=============================================================================
