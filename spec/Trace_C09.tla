------------------------------ MODULE Trace_C09 ------------------------------
(* Trace validation for C09: one event per replayed trait; e.i / e.o are the projector's component-wise      *)
(* normal forms of the user's trait (hook input) and of the emitted trait of the same name (hook output).    *)
EXTENDS TraceLib
R == INSTANCE Req
VARIABLES l, bad, drift
vars == <<l, bad, drift>>
Init == l = 1 /\ bad = {} /\ drift = {}
Step == /\ l <= Len(Rec) /\ l' = l + 1
        /\ LET e == Rec[l] fails == R!C09_Fail(e.i, e.o) IN
           /\ bad' = bad \cup { [case |-> e.case, conjunct |-> c, cls |-> e.cls] : c \in fails }
           /\ drift' = drift \cup (IF ToSet(e.predfail) = fails THEN {} ELSE {[case |-> e.case, field |-> "components"]})
Spec == Init /\ [][Step]_vars
RegC == Reg(l, bad, drift)
=============================================================================
