SPECIFICATION Spec
CONSTANT DumpCases = TRUE
INVARIANTS StepwiseIsEmitted Refines
CHECK_DEADLOCK FALSE
