------------------------------ MODULE Trace_C02 ------------------------------
(* Trace validation for C02: one event per recorded invocation (TLC-enumerated bodies,   *)
(* seeded random token soups, the repository's own suite); Level 1 on interned tokens.    *)
EXTENDS TraceLib
R == INSTANCE Req
VARIABLES l, bad, drift
vars == <<l, bad, drift>>
Fail(e) == R!C02_Fail(e.l1, e.obs)
Init == l = 1 /\ bad = {} /\ drift = {}
Step == /\ l <= Len(Rec) /\ l' = l + 1
        /\ LET e == Rec[l] IN
           /\ bad' = bad \cup { [case |-> e.case, conjunct |-> c, cls |-> e.cls] : c \in Fail(e) }
           /\ drift' = drift \cup (IF e.obs.expanded = e.pred_expanded THEN {} ELSE {[case |-> e.case, field |-> "expanded"]})
Spec == Init /\ [][Step]_vars
RegC == Reg(l, bad, drift)
=============================================================================
