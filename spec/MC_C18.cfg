SPECIFICATION Spec
CONSTANTS
  DumpCases = TRUE
  Extras = {"none"}
INVARIANT Refines
CHECK_DEADLOCK FALSE
