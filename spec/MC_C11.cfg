SPECIFICATION Spec
CONSTANTS
  MaxParams = 2
  DumpCases = TRUE
INVARIANTS Refines Outcomes
CHECK_DEADLOCK FALSE
