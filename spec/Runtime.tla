------------------------------- MODULE Runtime -------------------------------
(***************************************************************************)
(* M2, the generated program at run time: calling a trait method on a      *)
(* receiver is a small call-stack machine.  This module is LEVEL 1: its    *)
(* guards are the statements of C01 / C05 / C06 / C07 / C11 / C12 / C14    *)
(* about behaviours ("exactly once", "that very receiver", "arguments in   *)
(* declared order", "its own function and no other", "result unchanged",   *)
(* "not before the future is polled", "as many allocations as").           *)
(*                                                                         *)
(* A scenario fixes, from the ABSTRACT INPUT (never from the expansion),   *)
(*   own[m]   the function / provider / target function that method m must *)
(*            reach ("" = must not be reached: mocked)                     *)
(*   deps[m]  "recv" the callee's dependency argument is the receiver,     *)
(*            "none" the callee takes no dependency (no_deps, providers),  *)
(*            "mock" the mock object                                       *)
(* Frames:  [k |-> "call", m, recv, args, entered, val]  a trait-method    *)
(*          call in progress;   [k |-> "fn", f]  a function body running.  *)
(***************************************************************************)
EXTENDS TLC, Sequences, Naturals, FiniteSets

Top(st) == st[Len(st)]
Pop(st) == SubSeq(st, 1, Len(st) - 1)
CallFrame(m, recv, args) == [k |-> "call", m |-> m, recv |-> recv, args |-> args, entered |-> 0, val |-> <<>>]
FnFrame(f) == [k |-> "fn", f |-> f, m |-> "", recv |-> "", args |-> <<>>, entered |-> 0, val |-> <<>>]

\* --- guards (each returns the set of violated conjunct names; {} = the step is allowed) ---
\* a trait method (or the direct call it is compared with) is invoked
CallGuard(st, e) == {}
\* a function / provider / target body starts running
EnterGuard(st, sc, e) ==
  IF st = <<>> \/ Top(st).k # "call" THEN {"enter-without-call"}
  ELSE LET c == Top(st) IN
       (IF c.entered # 0 THEN {"exactly-once"} ELSE {})
       \cup (IF e.f # sc.own[c.m] THEN {"own-function"} ELSE {})
       \cup (IF sc.deps[c.m] = "recv" /\ e.deps # c.recv THEN {"same-receiver"} ELSE {})
       \cup (IF e.args # c.args THEN {"args-in-order"} ELSE {})
ExitGuard(st, e) == IF st = <<>> \/ Top(st).k # "fn" \/ Top(st).f # e.f THEN {"exit-without-enter"} ELSE {}
\* the trait method returns to its caller
RetGuard(st, sc, e) ==
  IF st = <<>> \/ Top(st).k # "call" \/ Top(st).m # e.m THEN {"ret-without-call"}
  ELSE LET c == Top(st) IN
       IF sc.own[c.m] = "" THEN {}                                 \* mocked: judged by MockGuard
       ELSE (IF c.entered # 1 THEN {"exactly-once"} ELSE {})
            \cup (IF c.val # <<e.val>> THEN {"result-unchanged"} ELSE {})
\* an async method handed out its future, nothing has been polled yet: the function must not have run
FutureGuard(st, e) ==
  IF st = <<>> \/ Top(st).k # "call" THEN {"future-without-call"}
  ELSE IF Top(st).entered # 0 THEN {"lazy-future"} ELSE {}
\* a future was dropped unpolled: the function never ran
DroppedGuard(st, e) == FutureGuard(st, e)

\* --- effects ---
DoCall(st, e)  == Append(st, CallFrame(e.m, e.recv, e.args))
DoEnter(st, e) == Append([st EXCEPT ![Len(st)].entered = 1], FnFrame(e.f))
DoExit(st, e)  == LET p == Pop(st) IN IF p # <<>> /\ Top(p).k = "call" THEN [p EXCEPT ![Len(p)].val = <<e.val>>] ELSE p
DoRet(st, e)   == Pop(st)
=============================================================================
