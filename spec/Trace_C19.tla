------------------------------ MODULE Trace_C19 ------------------------------
(* Trace validation for C19: one event per (program, scope variant): compile verdict, and run-time result and   *)
(* availability compared with the clean-scope run of the same program.                                         *)
EXTENDS TraceLib
R == INSTANCE Req
VARIABLES l, clean, bad, drift
vars == <<l, clean, bad, drift>>
Init == l = 1 /\ clean = [x \in {} |-> 0] /\ bad = {} /\ drift = {}
Obs(e) == [compiled |-> e.compiled,
           sameresult |-> (~e.ran) \/ (e.prog \in DOMAIN clean /\ clean[e.prog].result = e.result),
           sameavail  |-> (~e.ran) \/ (e.prog \in DOMAIN clean /\ clean[e.prog].avail = e.avail)]
Step == /\ l <= Len(Rec) /\ l' = l + 1
        /\ LET e == Rec[l] IN
           /\ clean' = IF e.kind = "clean" /\ e.ran THEN clean @@ (e.prog :> [result |-> e.result, avail |-> e.avail]) ELSE clean
           /\ bad' = IF e.kind = "clean" THEN (IF e.compiled THEN bad ELSE bad \cup {[case |-> e.case, conjunct |-> "compiles-in-hostile-scope", cls |-> ""]})
                     ELSE bad \cup { [case |-> e.case, conjunct |-> c, cls |-> ""] : c \in R!C19_Fail(Obs(e)) }
           /\ drift' = drift \cup (IF e.compiled = e.pred THEN {} ELSE {[case |-> e.case, field |-> "compiled"]})
Spec == Init /\ [][Step]_vars
RegC == Reg(l, bad, drift)
=============================================================================
