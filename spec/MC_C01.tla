------------------------------- MODULE MC_C01 -------------------------------
(***************************************************************************)
(* C01 at design level: for every abstract fn/mod program and every method *)
(* the behaviour  TraitCall -> (HandOutFuture) -> RunDelegatingBody ->      *)
(* FnBody -> TraitRet  driven by Level 2's delegating body satisfies the   *)
(* guards of the Level-1 machine (Runtime).  Also dumps the programs.      *)
(***************************************************************************)
EXTENDS Programs, Runtime, Json, IOUtils
CONSTANTS MaxParams, DumpCases

ParamLists == UNION { [1..n -> ParamKinds] : n \in 0..MaxParams }
Progs == { p \in [mode : {"fn", "mod"}, nfn : 1..3, deps : DepsKinds, async : BOOLEAN, params : ParamLists, opt : OptSets, hyg : BOOLEAN, hygtr : BOOLEAN] : WellFormed(p) }

Sc(p) == [own |-> [m \in { FnName(i) : i \in 1..p.nfn } |-> m],
          deps |-> [m \in { FnName(i) : i \in 1..p.nfn } |-> IF p.deps = "nodeps" THEN "none" ELSE "recv"]]
Val(n) == ToString(n)
Args(p) == [j \in 1..Len(ArgLeaves(p.params)) |-> Val(ArgLeaves(p.params)[j])]
Result(f, args) == <<f, args>>

VARIABLES p, m, stack, pc, viol
vars == <<p, m, stack, pc, viol>>
Init == p \in Progs /\ m \in 1..3 /\ m <= p.nfn /\ stack = <<>> /\ pc = "idle" /\ viol = {}
TraitCall == /\ pc = "idle"
             /\ stack' = DoCall(stack, [m |-> FnName(m), recv |-> "R", args |-> Args(p)])
             /\ pc' = (IF p.async THEN "future" ELSE "body") /\ UNCHANGED <<p, m, viol>>
HandOutFuture == /\ pc = "future" /\ viol' = viol \cup FutureGuard(stack, [m |-> FnName(m)])
                 /\ pc' = "body" /\ UNCHANGED <<p, m, stack>>
RunDelegatingBody ==
  /\ pc = "body"
  /\ LET b == Body(p, m) c == Top(stack)
         e == [f |-> b.callee, deps |-> IF b.passSelf THEN c.recv ELSE "-", args |-> [j \in DOMAIN b.argorder |-> c.args[b.argorder[j]]]] IN
     /\ viol' = viol \cup EnterGuard(stack, Sc(p), e)
     /\ stack' = DoEnter(stack, e)
  /\ pc' = "fn" /\ UNCHANGED <<p, m>>
FnBody == /\ pc = "fn"
          /\ LET f == Top(stack).f e == [f |-> f, val |-> Result(f, stack[Len(stack) - 1].args)] IN
             viol' = viol \cup ExitGuard(stack, e) /\ stack' = DoExit(stack, e)
          /\ pc' = "ret" /\ UNCHANGED <<p, m>>
TraitRet == /\ pc = "ret"
            /\ LET c == Top(stack) e == [m |-> c.m, val |-> c.val[1]] IN
               viol' = viol \cup RetGuard(stack, Sc(p), e) /\ stack' = DoRet(stack, e)
            /\ pc' = "done" /\ UNCHANGED <<p, m>>
Next == TraitCall \/ HandOutFuture \/ RunDelegatingBody \/ FnBody \/ TraitRet
Spec == Init /\ [][Next]_vars

Refines == viol = {}
ExactlyOnce == \A i \in DOMAIN stack : stack[i].k = "call" => stack[i].entered \in {0, 1}
Completes == pc = "done" => stack = <<>>

ASSUME DumpCases => ndJsonSerialize(IOEnv.OUT, SetToSeq({ [prog |-> q, leaves |-> ArgLeaves(q.params)] : q \in Progs }))
ASSUME PrintT(<<"PROGRAMS", Cardinality(Progs)>>)
=============================================================================
