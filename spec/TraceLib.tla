------------------------------ MODULE TraceLib ------------------------------
(***************************************************************************)
(* Shared scaffolding of the trace specifications: the recorded trace, and *)
(* the registers through which a linear, never-stuck trace run hands its   *)
(* verdicts (`bad`, `drift`) to the POSTCONDITION.                         *)
(***************************************************************************)
EXTENDS Json, IOUtils, TLC, Sequences, Naturals, FiniteSets, SequencesExt
Rec == ndJsonDeserialize(IOEnv.TRACE)
Reg(l, bad, drift) == TLCSet(1, bad) /\ TLCSet(2, l) /\ TLCSet(3, drift)
\* the whole trace was consumed; verdicts are written as NDJSON for the driver
Post == /\ TLCGet(2) = Len(Rec) + 1
        /\ ndJsonSerialize(IOEnv.OUT, SetToSeq(TLCGet(1)))
        /\ ndJsonSerialize(IOEnv.DRIFT, SetToSeq(TLCGet(3)))
=============================================================================
