------------------------------- MODULE MC_C12 -------------------------------
(***************************************************************************)
(* C12: the async part of signature conversion (trait_codegen.rs           *)
(* make_trait_fn_sig) and the re-application of async_trait                *)
(* (sub_attributes.rs; trait_codegen / fn_delegation_codegen /             *)
(* entrait_trait emit it on the generated trait(s) and impl(s)).           *)
(*   MakeTraitFnSig: async /\ no async_trait  =>                           *)
(*        fn m(..) -> impl ::core::future::Future<Output = R> [+ Send]     *)
(*        with R = "()" when the return type is omitted, Send unless ?Send *)
(*   async_trait present => `async fn` kept, attribute on trait and impls  *)
(***************************************************************************)
EXTENDS TLC, Naturals, FiniteSets, Sequences, SequencesExt, Json, IOUtils
CONSTANTS DumpCases, MoreRets
R == INSTANCE Req

\* "fn-concrete": a function with a concrete dependency - its trait goes through a NESTED trait-mode invocation
\* "fn-at" / "mod-at": the async_trait attribute below entrait on a function / a module: it belongs to what is generated and must
\* not stay on the item (async_trait rejects functions and modules)
Modes == {"fn", "fn-concrete", "mod", "trait-self", "di-static", "trait-ref-at", "di-dyn-at", "trait-self-at", "di-static-at", "fn-at", "mod-at"}
\* (thorough tier: further return shapes - a tuple, a generic instantiation with two arguments, a 'static borrow)
Rets == {"unit", "owned", "borrow-deps", "borrow-arg", "generic"} \cup (IF MoreRets THEN {"tuple", "result", "static"} ELSE {})
AsyncTrait(m) == m \in {"trait-ref-at", "di-dyn-at", "trait-self-at", "di-static-at", "fn-at", "mod-at"}
\* atargs: the async_trait attribute is written with arguments, `#[async_trait(?Send)]` (only in the async_trait modes)
\* mockall: the `mockall` option is also given (its derivation is test-gated; the async rewrite must not depend on it)
\* recv: the receiver of the entraited trait's async method (`&self` / `self`): a by-value receiver moves the Impl<T> into the
\* future, which must still be Send by default (the implementation's T gets a Send bound, since a "fix:" commit)
\* valued: the ?Send option is written with its value, `?Send = true` (nosend) / `?Send = false` (~nosend): the same meaning as the bare / absent option
Inputs == { i \in [mode : Modes, ret : Rets, nosend : BOOLEAN, atargs : BOOLEAN, mockall : BOOLEAN, recv : {"ref", "value"}, valued : BOOLEAN] :
            /\ (i.valued => ~AsyncTrait(i.mode) /\ ~i.mockall /\ i.recv = "ref" /\ i.ret \in {"unit", "owned"})
            /\ (i.recv = "value" => i.mode \in {"trait-self", "trait-self-at"} /\ i.ret \in {"unit", "owned"} /\ ~i.mockall)
            /\ (i.atargs => AsyncTrait(i.mode))
            /\ (i.mockall => i.mode \in {"fn", "mod", "trait-self"} /\ i.ret \in {"unit", "owned"})
            /\ (AsyncTrait(i.mode) => ~i.nosend /\ i.ret \in {"unit", "owned", "borrow-arg"})
            /\ (i.ret \in {"tuple", "result", "static"} => ~AsyncTrait(i.mode) /\ ~i.mockall /\ i.recv = "ref")
            /\ (i.ret = "borrow-deps" => i.mode \in {"fn", "fn-concrete", "mod"})
            /\ (i.ret = "generic" => i.mode \in {"fn", "fn-concrete", "mod", "trait-self"}) }
RetText(r) == CASE r = "unit" -> "()" [] r = "owned" -> "String" [] r = "borrow-deps" -> "&'astr" [] r = "borrow-arg" -> "&'astr" [] r = "generic" -> "G"
              [] r = "tuple" -> "(u8,String)" [] r = "result" -> "Result<u8,String>" [] r = "static" -> "&'staticstr"

VARIABLES i, sig, pc
vars == <<i, sig, pc>>
Init == i \in Inputs /\ sig = [async |-> TRUE, out |-> "", send |-> FALSE, attr |-> FALSE] /\ pc = "sig"
MakeTraitFnSig == /\ pc = "sig"
                  /\ sig' = IF AsyncTrait(i.mode) THEN [async |-> TRUE, out |-> "", send |-> FALSE, attr |-> TRUE]
                            ELSE [async |-> FALSE, out |-> RetText(i.ret), send |-> ~i.nosend, attr |-> FALSE]
                  /\ pc' = "done" /\ UNCHANGED i
Spec == Init /\ [][MakeTraitFnSig]_vars
PredObs(x) == IF AsyncTrait(x.mode)
              THEN [expanded |-> TRUE, base_compiles |-> TRUE, w_output |-> TRUE, w_send |-> ~x.atargs, w_nonsend_body |-> x.atargs, kept_async |-> TRUE,
                    futout |-> "", futsend |-> FALSE, attr_on_trait |-> TRUE, attr_on_impls |-> TRUE, attr_on_item |-> FALSE]
              ELSE [expanded |-> TRUE, base_compiles |-> TRUE, w_output |-> TRUE, w_send |-> ~x.nosend, w_nonsend_body |-> x.nosend, kept_async |-> FALSE,
                    futout |-> RetText(x.ret), futsend |-> ~x.nosend, attr_on_trait |-> FALSE, attr_on_impls |-> FALSE, attr_on_item |-> FALSE]
L1In(x) == [nosend |-> x.nosend, asynctrait |-> AsyncTrait(x.mode), rettext |-> RetText(x.ret)]
Refines == pc = "done" => R!C12_Fail(L1In(i), PredObs(i)) = {}
StepwiseIsPred == pc = "done" => sig.async = PredObs(i).kept_async /\ sig.out = PredObs(i).futout /\ sig.send = PredObs(i).futsend
ASSUME DumpCases => ndJsonSerialize(IOEnv.OUT, SetToSeq({ [in |-> x, l1 |-> L1In(x), pred |-> PredObs(x)] : x \in Inputs }))
=============================================================================
