------------------------------- MODULE MC_C16 -------------------------------
(***************************************************************************)
(* Bounded exploration of the parameter-renaming machine (Params) over the *)
(* C16 pattern alphabet, refinement check Level 2 |= Level 1 (Req), and    *)
(* dump of every abstract case with Level 2's prediction for replay (B1).  *)
(***************************************************************************)
EXTENDS Params, Json, IOUtils
CONSTANTS MaxLen, Syms, DumpCases, Extra3, ImplFull
R == INSTANCE Req

FnNames == { Nm("foo"), Nm("arg1"), RawNm("match") }
\* (Extra3: three-parameter lists over the symbols whose names interact with GENERATED names - a generated `argN` needs
\*  both `argN` and `_argN` taken elsewhere before the second retry matters - included even when MaxLen < 3)
Lists   == UNION { [1..n -> Syms] : n \in 0..MaxLen } \cup (IF MaxLen < 3 THEN [1..3 -> Extra3] ELSE {})
\* rk: what the function is: "self" a function of its own (the generated method gets a `self` receiver), "static" / "dyn" a function
\* of an entraited impl block (`#[entrait] impl TImpl for X` / `#[entrait(ref)] impl ..`), where the macro inserts a parameter `__impl`.
\* Impl blocks: every list up to length ImplFull, and every longer list that has a parameter called `__impl`.
Inputs  == { in \in [list : Lists, f : FnNames, nodeps : BOOLEAN, rk : {"self", "static", "dyn"}] :
             /\ ValidOriginal(in.list, in.f)
             /\ (in.rk # "self" => ~in.nodeps /\ (Len(in.list) <= ImplFull \/ \E i \in 1..Len(in.list) : in.list[i] = "implname")) }

\* ---- the abstract input as Level 1 sees it
L1In(in) == [ binds  |-> [i \in 1..Len(in.list) |-> Binds(in.list[i], i, in.f)],
              plain  |-> [i \in 1..Len(in.list) |-> in.list[i] \in PlainSyms],
              f      |-> in.f, nodeps |-> in.nodeps ]

\* ---- Level 2's predicted observation.  `compiled` is predicted by the static-semantics-lite:
\* the expansion compiles iff the generated signature is plain, the names are distinct and none
\* shadows the function (patterns in body-less methods, duplicate bindings, callee shadowed).
PredObs(in) ==
  LET r == FinalK(in.list, in.f, in.rk) nm == Names(r.st) dc == Decos(r.st) IN
  IF r.panic THEN [expanded |-> FALSE, panic |-> TRUE, tkind |-> <<>>, tname |-> <<>>, tdeco |-> <<>>, inserted |-> <<>>,
                   callee |-> "", selfarg |-> FALSE, callargs |-> <<>>, compiled |-> FALSE]
  ELSE LET o == [expanded |-> TRUE, panic |-> FALSE, inserted |-> InsertedNames(in.rk),
                 tkind |-> [i \in DOMAIN nm |-> "ident"], tname |-> nm, tdeco |-> dc,
                 callee |-> in.f.base, selfarg |-> ~in.nodeps, callargs |-> nm, compiled |-> TRUE] IN
       [o EXCEPT !.compiled = /\ R!C16_Holds("plain", L1In(in), o)
                              /\ R!C16_Holds("distinct", L1In(in), o)
                              /\ R!C16_Holds("noshadow", L1In(in), o)]

\* ---- named deviations of the code from Level 1 (DESIGN section 11); "" = none known for this input
Has(in, S) == \E i \in 1..Len(in.list) : in.list[i] \in S
\* none is known for the renaming stage since the "fix:" commit recorded in known_findings.json
Class(in) == ""

\* ------------------------------------------------------------------------
\* the machine, one action per stage (stage 3: one action per parameter)
\* ------------------------------------------------------------------------
VARIABLES in, st, pc, k, taken
vars == <<in, st, pc, k, taken>>

Init == /\ in \in Inputs /\ st = Init0(in.list, in.f) /\ pc = "simplify" /\ k = 1 /\ taken = {}
Simplify ==
  /\ pc = "simplify"
  /\ st' = Stage1(st)
  /\ IF AllIdent(st') THEN pc' = "fix" /\ taken' = TakenOf(st') ELSE pc' = "lift" /\ UNCHANGED taken
  /\ UNCHANGED <<in, k>>
LiftInner ==
  /\ pc = "lift"
  /\ st' = Stage2(st)
  /\ pc' = IF AllIdent(st') THEN "fix" ELSE "gen"
  /\ taken' = TakenOf(st')
  /\ UNCHANGED <<in, k>>
Autogenerate ==
  /\ pc = "gen" /\ k <= Len(st)
  /\ LET r == Stage3Step(st, k, taken, Len(InsertedNames(in.rk))) IN st' = r.st /\ taken' = r.taken
  /\ k' = k + 1 /\ UNCHANGED <<in, pc>>
GenDone == pc = "gen" /\ k > Len(st) /\ pc' = "fix" /\ k' = 1 /\ UNCHANGED <<in, st, taken>>
FixIdentConflicts ==
  /\ pc = "fix" /\ k <= Len(st)
  /\ LET r == Stage4Step(st, k, taken, in.f) IN st' = r.st /\ taken' = r.taken
  /\ k' = k + 1 /\ UNCHANGED <<in, pc>>
FixDone == pc = "fix" /\ k > Len(st) /\ pc' = "fiximpl" /\ k' = 1 /\ UNCHANGED <<in, st, taken>>
FixImplParamConflicts ==
  /\ pc = "fiximpl" /\ k <= Len(st)
  /\ LET r == Stage5Step(st, k, taken, in.rk) IN st' = r.st /\ taken' = r.taken
  /\ k' = k + 1 /\ UNCHANGED <<in, pc>>
Finish == pc = "fiximpl" /\ k > Len(st) /\ pc' = "done" /\ UNCHANGED <<in, st, k, taken>>
Next == Simplify \/ LiftInner \/ Autogenerate \/ GenDone \/ FixIdentConflicts \/ FixDone \/ FixImplParamConflicts \/ Finish
Spec == Init /\ [][Next]_vars

\* ---- invariants
TypeOK == pc \in {"simplify", "lift", "gen", "fix", "fiximpl", "done"}
\* the step-wise machine and the functional composition agree (the dump and the traces use `Final`)
StepwiseIsFinal == pc = "done" => st = FinalK(in.list, in.f, in.rk).st
\* once every parameter is an identifier the taken-set is exactly the set of parameter names
TakenExact == pc \in {"fix", "fiximpl", "done"} => taken = TakenOf(st) \cup taken /\ TakenOf(st) \subseteq taken
\* the generator never hands out a taken name: identifiers stay pairwise distinct from `gen` on
GenFresh == pc \in {"gen", "fix", "fiximpl", "done"} =>
              \A i, j \in DOMAIN st : i # j /\ st[i].ident /\ st[j].ident => st[i].name.base # st[j].name.base
\* refinement: Level 2's outcome satisfies Level 1, except on inputs in a named deviation class
Refines == pc = "done" => (R!C16_Fail(L1In(in), PredObs(in)) = {} \/ Class(in) # "")
\* positional, total: one name per parameter
OneNamePerParam == pc = "done" => Len(st) = Len(in.list) /\ AllIdent(st)
\* the parameter the macro inserts keeps its name to itself
InsertedNameIsFree == pc = "done" /\ in.rk # "self" => \A i \in DOMAIN st : st[i].name.base # "__impl"

\* ---- case dump for replay (B1)
CaseRec(in0) == [ list |-> in0.list, f |-> in0.f, nodeps |-> in0.nodeps, rk |-> in0.rk,
                  ptext |-> [i \in 1..Len(in0.list) |-> PText(in0.list[i], i, in0.f)],
                  bexpr |-> FlattenSeq([i \in 1..Len(in0.list) |-> BExpr(in0.list[i], i, in0.f)]),
                  vexpr |-> [i \in 1..Len(in0.list) |-> VExpr(in0.list[i], LeafStart(in0.list, i))],
                  expect |-> Expect(in0.list),
                  l1 |-> L1In(in0), pred |-> PredObs(in0), cls |-> Class(in0),
                  predfail |-> SetToSeq(R!C16_Fail(L1In(in0), PredObs(in0))) ]
ASSUME DumpCases => ndJsonSerialize(IOEnv.OUT, SetToSeq({ CaseRec(i) : i \in Inputs }))
ASSUME PrintT(<<"CASES", Cardinality(Inputs), "PREDICTED-DEVIATIONS", Cardinality({ i \in Inputs : Class(i) # "" })>>)
=============================================================================
