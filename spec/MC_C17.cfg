SPECIFICATION Spec
CONSTANTS
  MaxOpts = 2
  DumpCases = TRUE
INVARIANTS StepwiseIsFrontEnd WellFormedAccepted ExplicitWins Metamorphic DeviationIsRejection
CHECK_DEADLOCK FALSE
