SPECIFICATION Spec
CONSTANTS
  MaxOpts = 2
  DumpCases = TRUE
INVARIANTS StepwiseIsFrontEnd WellFormedAccepted ExplicitWins Metamorphic
CHECK_DEADLOCK FALSE
