SPECIFICATION Spec
CONSTANTS
  MaxParams = 2
  DumpCases = TRUE
INVARIANTS Refines Completes
CHECK_DEADLOCK FALSE
