---------------------------- MODULE Trace_Runtime ----------------------------
(***************************************************************************)
(* Trace validation of run-time event logs of generated client binaries    *)
(* (binding B2 for M2).  Events of one scenario are contiguous; a          *)
(* `scenario` event (enriched by the driver with the abstract input's      *)
(* expectations: own / deps tables, expected availability, pairing) resets *)
(* the call stack.  Every event is consumed: it either conforms to the     *)
(* Level-1 machine (Runtime) or deviates; a deviation is recorded with the *)
(* violated conjunct and the rest of that scenario is skipped (resync at   *)
(* the next `scenario`).                                                   *)
(***************************************************************************)
EXTENDS TraceLib, Runtime

VARIABLES l, sc, stack, skipping, results, allocs, bad, drift
vars == <<l, sc, stack, skipping, results, allocs, bad, drift>>

NoSc == [case |-> "", sc |-> 0, own |-> [x \in {} |-> ""], deps |-> [x \in {} |-> ""], expect |-> "ok",
         avail |-> [x \in {} |-> FALSE], pair |-> "", allocpair |-> "", answer |-> "", kind |-> ""]
Init == l = 1 /\ sc = NoSc /\ stack = <<>> /\ skipping = FALSE /\ results = [x \in {} |-> 0] /\ allocs = [x \in {} |-> 0]
        /\ bad = {} /\ drift = {}

Violations(e) ==
  CASE e.e = "call"    -> CallGuard(stack, e)
    [] e.e = "enter"   -> EnterGuard(stack, sc, e)
    [] e.e = "exit"    -> ExitGuard(stack, e)
    [] e.e = "ret"     -> RetGuard(stack, sc, e)
                          \cup (IF stack # <<>> /\ Top(stack).k = "call" /\ sc.own[Top(stack).m] = "" /\ sc.answer # "" /\ e.val # sc.answer
                                THEN {"mock-answer-returned"} ELSE {})
    [] e.e = "future"  -> FutureGuard(stack, e)
    [] e.e = "dropped" -> DroppedGuard(stack, e)
    \* a mocked call: the answer function sees the caller's arguments in declared order
    [] e.e = "answer"  -> IF stack = <<>> \/ Top(stack).k # "call" THEN {"answer-without-call"}
                          ELSE IF e.args # Top(stack).args THEN {"mock-args-in-order"} ELSE {}
    [] e.e = "panic"   -> IF sc.expect = "panic" THEN {} ELSE {"unexpected-panic"}
    [] e.e = "avail"   -> IF e.probe \in DOMAIN sc.avail /\ e.has # sc.avail[e.probe] THEN {"available-iff"} ELSE {}
    [] e.e = "alloc"   -> IF sc.allocpair # "" /\ sc.allocpair \in DOMAIN allocs /\ allocs[sc.allocpair] # e.allocs THEN {"same-allocations"} ELSE {}
    \* C14: generated tokens contain no trait object / boxing unless dynamic dispatch was requested
    [] e.e = "genscan" -> IF ~e.requested /\ (e.dyn \/ e.box) THEN {"no-trait-objects"} ELSE {}
    [] e.e = "end"     -> (IF sc.expect = "ok" /\ stack # <<>> THEN {"unfinished-call"} ELSE {})
                          \cup (IF sc.expect = "panic" /\ ~e.panicked THEN {"expected-panic"} ELSE {})
                          \cup (IF sc.pair # "" /\ sc.pair \in DOMAIN results /\ results[sc.pair] # e.result THEN {"same-result-as-direct-call"} ELSE {})
    [] OTHER -> {}

Apply(e) ==
  CASE e.e = "call"  -> stack' = DoCall(stack, e) /\ UNCHANGED <<results, allocs>>
    [] e.e = "enter" -> stack' = DoEnter(stack, e) /\ UNCHANGED <<results, allocs>>
    [] e.e = "exit"  -> stack' = DoExit(stack, e) /\ UNCHANGED <<results, allocs>>
    [] e.e = "ret"   -> stack' = DoRet(stack, e) /\ UNCHANGED <<results, allocs>>
    [] e.e = "dropped" -> stack' = DoRet(stack, e) /\ UNCHANGED <<results, allocs>>      \* the call is over: its future is gone
    [] e.e = "alloc" -> /\ allocs' = IF sc.allocpair # "" /\ sc.allocpair \notin DOMAIN allocs THEN allocs @@ (sc.allocpair :> e.allocs) ELSE allocs
                        /\ UNCHANGED <<stack, results>>
    [] e.e = "end"   -> /\ results' = IF sc.pair # "" /\ sc.pair \notin DOMAIN results THEN results @@ (sc.pair :> e.result) ELSE results
                        /\ UNCHANGED <<stack, allocs>>
    [] OTHER -> UNCHANGED <<stack, results, allocs>>

Step ==
  /\ l <= Len(Rec) /\ l' = l + 1
  /\ LET e == Rec[l] IN
     IF e.e = "scenario"
     THEN /\ sc' = e /\ stack' = <<>> /\ skipping' = FALSE /\ UNCHANGED <<results, allocs, bad, drift>>
     ELSE IF skipping THEN UNCHANGED <<sc, stack, skipping, results, allocs, bad, drift>>
     ELSE LET v == Violations(e) IN
          IF v = {} THEN Apply(e) /\ UNCHANGED <<sc, skipping, bad, drift>>
          ELSE /\ bad' = bad \cup { [case |-> sc.case, sc |-> sc.sc, conjunct |-> c, cls |-> "", at |-> e.e] : c \in v }
               /\ skipping' = TRUE /\ UNCHANGED <<sc, stack, results, allocs, drift>>
Spec == Init /\ [][Step]_vars
\* the Level-1 machine's own invariant, evaluated on every state of the real behaviour
ExactlyOnce == \A i \in DOMAIN stack : stack[i].k = "call" => stack[i].entered \in {0, 1}
RegC == Reg(l, bad, drift)
=============================================================================
