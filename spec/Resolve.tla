------------------------------- MODULE Resolve -------------------------------
(***************************************************************************)
(* M2, "which impl applies": trait availability as a fix-point over impl   *)
(* rules.                                                                  *)
(*   fact   <<ty, tr>>          type `ty` implements trait `tr`            *)
(*   type   [k |-> "app", n |-> name]  or  [k |-> "impl", n |-> name]      *)
(*          (the application type `n`, resp. ::entrait::Impl<n>)           *)
(*   rule   [tr, self \in {"blanket", "implT", "concrete"}, cty,           *)
(*           pb: bounds on the impl's type parameter T,                    *)
(*           sb: bounds on Self (the where-clause `Self: ..`)]             *)
(*     blanket : impl<T: pb> tr for T        where Self: sb                *)
(*     implT   : impl<T: pb> tr for Impl<T>  where Self: sb                *)
(*     concrete: impl tr for cty                                           *)
(* Auto traits and hand-written impls are base facts.                      *)
(***************************************************************************)
EXTENDS TLC, FiniteSets, Naturals

App(n)  == [k |-> "app", n |-> n]
ImplT(n) == [k |-> "impl", n |-> n]
Has(facts, ty, S) == \A b \in S : <<ty, b>> \in facts

\* one application of one rule to one type
Applies(facts, r, ty) ==
  CASE r.self = "blanket"  -> Has(facts, ty, r.pb) /\ Has(facts, ty, r.sb)
    [] r.self = "implT"    -> ty.k = "impl" /\ Has(facts, App(ty.n), r.pb) /\ Has(facts, ty, r.sb)
    [] r.self = "concrete" -> ty = r.cty
Derive(facts, rules, types) == facts \cup UNION { { <<ty, r.tr>> : ty \in { t \in types : Applies(facts, r, t) } } : r \in rules }
RECURSIVE Fix(_, _, _)
Fix(facts, rules, types) == LET f2 == Derive(facts, rules, types) IN IF f2 = facts THEN facts ELSE Fix(f2, rules, types)
Avail(facts, rules, types, ty, tr) == <<ty, tr>> \in Fix(facts, rules, types)
=============================================================================
