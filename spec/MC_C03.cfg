SPECIFICATION Spec
CONSTANTS
  MaxParams = 2
  DumpCases = TRUE
  SampleSize = 2500
INVARIANTS StepwiseIsConcat Refines ImplBlocksLiftNothing
CHECK_DEADLOCK FALSE
