------------------------------- MODULE MC_C06 -------------------------------
(* C06 / C07 at design level: every abstract trait program, every method, every application:              *)
(*   TraitCall -> RunDelegatingBody (Level 2's call shape) -> ProviderBody / TargetBody -> TraitRet        *)
(* against the guards of the Level-1 machine, and predicted availability against Req.                     *)
EXTENDS TraitPrograms, Runtime, Json, IOUtils, SequencesExt
CONSTANTS MaxParams, DumpCases
R == INSTANCE Req

ParamLists == UNION { [1..n -> PKinds] : n \in 0..MaxParams }
C06Progs == { p \in [prop : {"C06"}, nmeth : 1..3, params : ParamLists, async : C06Asyncs, sel : C06Sels, extra : C06Extras] : C06WellFormed(p) }
C07Progs == { p \in [prop : {"C07"}, nmeth : 1..2, params : ParamLists, async : C06Asyncs, kind : C07Kinds, depbounds : 0..3, target : {"unit", "generic"}, mixed : BOOLEAN, typed : BOOLEAN] : C07WellFormed(p) }
Progs == C06Progs \cup C07Progs

\* expectations of Level 1, from the abstract program only
Own(p, app) == IF p.prop = "C06" THEN [m \in { MName(i) : i \in 1..p.nmeth } |-> "provider:" \o app \o "::" \o m]
               ELSE [m \in { MName(i) : i \in 1..p.nmeth } |-> "target:" \o C07Selects(app) \o "::" \o m]
Sc(p, app) == [own |-> Own(p, app), deps |-> [m \in { MName(i) : i \in 1..p.nmeth } |-> "recv"]]
Args(p) == [j \in 1..Len(p.params) |-> ToString(j)]
\* where the call lands, per Level 2's call shape
Lands(p, app, b) == IF p.prop = "C06" THEN "provider:" \o app \o "::" \o b.callee ELSE "target:" \o C07Selects(app) \o "::" \o b.callee
\* the identity the callee sees as its `self` (provider) / dependency argument (target fn)
Identity(p, app) == IF p.prop = "C06" THEN "provider-object-of-" \o app ELSE "impl-of-" \o app

VARIABLES p, app, m, stack, pc, viol
vars == <<p, app, m, stack, pc, viol>>
Init == /\ p \in Progs /\ m \in 1..3 /\ m <= p.nmeth
        /\ app \in (IF p.prop = "C06" THEN {"Prov"} ELSE {"A", "B"})
        /\ stack = <<>> /\ pc = "idle" /\ viol = {}
TraitCall == /\ pc = "idle"
             /\ stack' = DoCall(stack, [m |-> MName(m), recv |-> Identity(p, app), args |-> Args(p)])
             /\ pc' = "body" /\ UNCHANGED <<p, app, m, viol>>
RunDelegatingBody ==
  /\ pc = "body"
  /\ LET b == IF p.prop = "C06" THEN C06Body(p, m) ELSE C07Body(p, m)
         c == Top(stack)
         e == [f |-> Lands(p, app, b), deps |-> c.recv, args |-> c.args] IN
     /\ viol' = viol \cup EnterGuard(stack, Sc(p, app), e) /\ stack' = DoEnter(stack, e)
  /\ pc' = "callee" /\ UNCHANGED <<p, app, m>>
CalleeBody == /\ pc = "callee"
              /\ LET f == Top(stack).f e == [f |-> f, val |-> <<f, stack[Len(stack) - 1].args>>] IN
                 viol' = viol \cup ExitGuard(stack, e) /\ stack' = DoExit(stack, e)
              /\ pc' = "ret" /\ UNCHANGED <<p, app, m>>
TraitRet == /\ pc = "ret"
            /\ LET c == Top(stack) e == [m |-> c.m, val |-> c.val[1]] IN
               viol' = viol \cup RetGuard(stack, Sc(p, app), e) /\ stack' = DoRet(stack, e)
            /\ pc' = "done" /\ UNCHANGED <<p, app, m>>
Next == TraitCall \/ RunDelegatingBody \/ CalleeBody \/ TraitRet
Spec == Init /\ [][Next]_vars
Refines == viol = {}
Completes == pc = "done" => stack = <<>>

\* availability: Level 2's bounds vs Level 1 (no named deviation is known)
C06AppRec(a) == [provides |-> "Provides" \in C06Sat(a), sync |-> "Sync" \in C06Sat(a), static |-> TRUE]
C06AvailClass(q, a) == ""
AvailRefines == \A q \in C06Progs, a \in C06Apps : C06PredAvail(q, a) = R!C06_AvailReq(C06AppRec(a)) \/ C06AvailClass(q, a) # ""
ASSUME AvailRefines

ProgRec(q) == IF q.prop = "C06"
              THEN [prog |-> q, avail |-> [a \in C06Apps |-> [expect |-> R!C06_AvailReq(C06AppRec(a)), pred |-> C06PredAvail(q, a), cls |-> C06AvailClass(q, a)]]]
              ELSE [prog |-> q, avail |-> [a \in C07Apps |-> [expect |-> R!C07_AvailReq([selects |-> C07Selects(a) # ""]), pred |-> C07Selects(a) # "", cls |-> ""]]]
ASSUME DumpCases => ndJsonSerialize(IOEnv.OUT, SetToSeq({ ProgRec(q) : q \in Progs }))
ASSUME PrintT(<<"C06", Cardinality(C06Progs), "C07", Cardinality(C07Progs)>>)
=============================================================================
