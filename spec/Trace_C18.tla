------------------------------ MODULE Trace_C18 ------------------------------
(* Trace validation for C18: one event per (placement, attribute kind, variant): where the marker attribute    *)
(* occurs in the projected expansion and whether the program compiles.                                         *)
EXTENDS TraceLib
R == INSTANCE Req
VARIABLES l, bad, drift
vars == <<l, bad, drift>>
Fields == {"expanded", "compiled", "orig", "gen_items", "gen_trait_methods", "gen_impl_methods", "gen_params"}
Init == l = 1 /\ bad = {} /\ drift = {}
Step == /\ l <= Len(Rec) /\ l' = l + 1
        /\ LET e == Rec[l] IN
           /\ bad' = bad \cup { [case |-> e.case, conjunct |-> c, cls |-> e.cls] : c \in R!C18_Fail(e.l1, e.obs) }
           /\ drift' = drift \cup { [case |-> e.case, field |-> f] : f \in { g \in Fields : e.obs[g] # e.pred[g] } }
Spec == Init /\ [][Step]_vars
RegC == Reg(l, bad, drift)
=============================================================================
