------------------------------ MODULE Trace_C10 ------------------------------
(* Trace validation for C10: one event per lattice point; the observation joins the attribute list of the    *)
(* emitted trait (X) with what a non-test and a test build of the generated crate contain (R).               *)
EXTENDS TraceLib
R == INSTANCE Req
VARIABLES l, bad, drift
vars == <<l, bad, drift>>
DriftFields == {"expanded", "unimock", "mockall", "ugated", "mgated"}
Init == l = 1 /\ bad = {} /\ drift = {}
Step == /\ l <= Len(Rec) /\ l' = l + 1
        /\ LET e == Rec[l] IN
           /\ bad' = bad \cup { [case |-> e.case, conjunct |-> c, cls |-> e.cls] : c \in R!C10_Fail(e.l1, e.obs) }
           /\ drift' = drift \cup { [case |-> e.case, field |-> f] :
                                    f \in { g \in DriftFields : (g \in {"ugated"} => e.obs.unimock) /\ (g \in {"mgated"} => e.obs.mockall)
                                                               /\ e.obs[g] # e.pred[g] } }
Spec == Init /\ [][Step]_vars
RegC == Reg(l, bad, drift)
=============================================================================
