------------------------------ MODULE MC_Expand ------------------------------
(***************************************************************************)
(* The end-to-end pipeline (Expand) as a state machine over a bounded      *)
(* domain of abstract invocations: ParseAttr -> Generate -> Render.        *)
(* Design-level invariants of what the generator emits, stated once for    *)
(* all four input modes (they subsume the structural halves of C08, C10,   *)
(* C12, C13 and say more: nothing dangling, nothing mismatched):           *)
(*   ImplsImplementEmittedTraits  every generated impl implements a trait  *)
(*        emitted by the same expansion (impl blocks: the user's target)   *)
(*   MethodsCorrespond   trait and delegating impl agree method by method  *)
(*        on name, receiver, arity, mirrored attributes, asyncness         *)
(*   AwaitIffAsync       a delegating call is awaited iff the method is    *)
(*        async                                                            *)
(*   MocksGatedUnlessExported / TargetTraitsCarryNoMocks                   *)
(*   AsyncTraitReapplied  the attribute is on the generated impl iff it is *)
(*        on the trait; with it `async fn` is kept everywhere              *)
(*   ByValueNeedsSend    Send is demanded of the application exactly when  *)
(*        some method takes the receiver by value                          *)
(*   VisibilityAsRequested                                                 *)
(* The same operators are bound to the code by Trace_Expand.               *)
(***************************************************************************)
EXTENDS Expand, FiniteSets
CONSTANT MaxFns

Variants4 == {"entrait", "entrait_export", "entrait_unimock", "entrait_export_unimock"}
FnOpts == { << >>, << Bare("unimock"), Eq("mock_api", "Mk") >>, << Bare("mockall") >>, << Bare("export"), Bare("mockall") >>,
            << Bare("?Send") >>, << Eq("unimock", "false"), Eq("mock_api", "Mk") >>, << Eq("mock_api", "Mk") >>, << Eq("export", "false"), Eq("mock_api", "Mk") >> }
Ty(w, b, n, t) == [wrap |-> w, base |-> b, nbounds |-> n, basetext |-> t]
Firsts == { Ty(<<"ref">>, "generic", 1, "D"), Ty(<<"ref">>, "generic", 0, "D"), Ty(<<"ref">>, "impl", 2, "implA+B"), Ty(<<>>, "generic", 1, "D"),
            Ty(<<"paren", "ref">>, "generic", 1, "D"), Ty(<<"reflife">>, "ident", 0, "Conc") }
F(name, vis, as, first, ncfg) ==
  [name |-> name, vis |-> vis, async |-> as, first |-> first, nparams |-> 2, ngen |-> IF first.base = "generic" THEN 1 ELSE 0, ncfg |-> ncfg]
NoTr == [name |-> "", vis |-> "", ngen |-> 0, gargs |-> "", supers |-> << >>, nother |-> 0, methods |-> << >>]
NoIm == [trait |-> "", selfty |-> "", targs |-> FALSE]
Base(target, variant, lead, opts, sub) ==
  [target |-> target, variant |-> variant, attr |-> [lead |-> lead, opts |-> opts, trail |-> ""], tvis |-> "", tvisp |-> [head |-> "", rest |-> ""], tname |-> "", implkind |-> "static",
   sub |-> sub, fns |-> << >>, items |-> << >>, modname |-> "", modvis |-> "", delegname |-> "", tr |-> NoTr, im |-> NoIm]
Subs == { << >>, << "async_trait" >>, << "doc", "async_trait" >> }

FnInputs == { [Base("fn", v, tv \o "T", os \o nd, sub) EXCEPT !.tvis = IF tv = "" THEN "" ELSE "pub", !.tname = "T", !.fns = << F("f", "", as, fi, 0) >>]
              : v \in Variants4, tv \in {"", "pub "}, os \in FnOpts, nd \in {<< >>, << Bare("no_deps") >>}, sub \in Subs, as \in BOOLEAN, fi \in Firsts }
ModFns == UNION { [1..n -> { F("g", vis, as, fi, nc) : vis \in {"", "pub"}, as \in BOOLEAN,
                                                     fi \in { x \in Firsts : x.base # "ident" /\ x.wrap # <<"paren", "ref">> }, nc \in 0..1 }] : n \in 0..MaxFns }
Rename(fs) == [i \in DOMAIN fs |-> [fs[i] EXCEPT !.name = "g" \o ToString(i)]]
ModVis == { [t |-> "", h |-> "", r |-> ""], [t |-> "pub(crate)", h |-> "", r |-> ""], [t |-> "pub(self)", h |-> "self", r |-> ""],
            [t |-> "pub(super)", h |-> "super", r |-> ""], [t |-> "pub(inself::a)", h |-> "self", r |-> "::a"], [t |-> "pub(insuper::a)", h |-> "super", r |-> "::a"] }
ModInputs == { [Base("mod", v, tv.t \o (IF tv.t = "" THEN "" ELSE " ") \o "T", os, << >>) EXCEPT !.tvis = tv.t, !.tvisp = [head |-> tv.h, rest |-> tv.r], !.tname = "T", !.fns = Rename(fs),
                                                          !.items = [i \in DOMAIN fs |-> "fn " \o fs[i].vis \o " g" \o ToString(i)], !.modname = "m", !.modvis = "pub"]
               : v \in {"entrait", "entrait_export_unimock"}, tv \in ModVis, os \in { << >>, << Bare("unimock"), Eq("mock_api", "Mk") >>, << Bare("?Send") >> }, fs \in ModFns }
M(name, as, recv) == [name |-> name, async |-> as, retfut |-> "", recv |-> recv, nparams |-> 1, nattrs |-> 0]
TrMethods == UNION { [1..n -> { M("m", as, r) : as \in BOOLEAN, r \in {"ref", "value"} }] : n \in 1..MaxFns }
TrAttrs == { [lead |-> "", opts |-> << >>, d |-> ""], [lead |-> "", opts |-> << Eq("delegate_by", "ref") >>, d |-> "ref"],
             [lead |-> "", opts |-> << Eq("delegate_by", "Borrow") >>, d |-> "Borrow"],
             [lead |-> "TImpl", opts |-> << Eq("delegate_by", "Del") >>, d |-> "Del"], [lead |-> "TImpl", opts |-> << Eq("delegate_by", "ref") >>, d |-> "ref"],
             [lead |-> "TImpl", opts |-> << Eq("delegate_by", "Borrow") >>, d |-> "Borrow"] }
TraitInputs == { [Base("trait", v, a.lead, a.opts \o os, sub) EXCEPT !.tname = a.lead, !.delegname = a.d,
                      !.tr = [name |-> "Tr", vis |-> tv, ngen |-> 0, gargs |-> "", supers |-> << >>, nother |-> 0,
                              methods |-> [i \in DOMAIN ms |-> [ms[i] EXCEPT !.name = "m" \o ToString(i)]]]]
                 : tv \in {"pub", ""}, v \in {"entrait", "entrait_unimock"}, a \in TrAttrs, os \in { << >>, << Bare("mockall") >>, << Bare("?Send") >>, << Bare("unimock"), Eq("mock_api", "Mk") >> },
                   sub \in Subs, ms \in TrMethods }
ImplInputs == { [Base("impl", v, ld, << >>, sub) EXCEPT !.implkind = IF ld = "" THEN "static" ELSE "dyn", !.fns = Rename(fs), !.im = [trait |-> "TImpl", selfty |-> "X", targs |-> ta]]
                : ta \in BOOLEAN, v \in {"entrait", "entrait_unimock"}, ld \in {"", "ref"}, sub \in Subs,
                  fs \in { x \in ModFns : Len(x) >= 1 /\ \A i \in DOMAIN x : x[i].first.wrap # << >> } }
Inputs == FnInputs \cup ModInputs \cup TraitInputs \cup ImplInputs

VARIABLES in, pc, p, gen, lines
vars == <<in, pc, p, gen, lines>>
None == [err |-> "", items |-> << >>]
Init == in \in Inputs /\ pc = "item" /\ p = [err |-> "", opts |-> NoOpts, impltrait |-> ""] /\ gen = None /\ lines = << >>
ParseItem == /\ pc = "item" /\ p' = [p EXCEPT !.err = ItemErr(in)]
             /\ pc' = (IF p'.err # "" THEN "done" ELSE "parse") /\ UNCHANGED <<in, gen, lines>>
ParseAttr == /\ pc = "parse" /\ p' = FrontEndV(in.target, in.attr, in.variant)
             /\ pc' = (IF p'.err # "" THEN "done" ELSE "generate") /\ UNCHANGED <<in, gen, lines>>
GenerateItems == /\ pc = "generate" /\ gen' = Generate(in, p) /\ pc' = (IF gen'.err # "" THEN "done" ELSE "render") /\ UNCHANGED <<in, p, lines>>
RenderLines == /\ pc = "render" /\ lines' = Render(gen.items) /\ pc' = "done" /\ UNCHANGED <<in, p, gen>>
Spec == Init /\ [][ParseItem \/ ParseAttr \/ GenerateItems \/ RenderLines]_vars

Ok == pc = "done" /\ p.err = "" /\ gen.err = ""
StepwiseIsExpand == pc = "done" => LET x == Expand(in) IN
                       IF p.err # "" THEN x.err = p.err ELSE IF gen.err # "" THEN x.err = gen.err ELSE x.lines = lines
Items(k) == SelectSeq(gen.items, LAMBDA it : it.k = k)
Traits == Items("trait")
Impls == Items("impl")
Kinds(attrs) == { attrs[i].kind : i \in DOMAIN attrs }
\* the trait an impl delegates for
TraitOf(im) == CHOOSE t \in ToSet(Traits) : t.name = im.trait

ImplsImplementEmittedTraits ==
  Ok => /\ Len(Impls) = 1
        /\ IF in.target = "impl" THEN Impls[1].trait = in.im.trait /\ Traits = << >>
           ELSE \E t \in ToSet(Traits) : t.name = Impls[1].trait
MethodsCorrespond ==
  Ok /\ in.target # "impl" =>
    LET im == Impls[1] t == TraitOf(im) IN
    /\ Len(t.methods) = Len(im.methods)
    /\ \A i \in DOMAIN t.methods :
         LET a == t.methods[i] b == im.methods[i] IN
         a.name = b.name /\ a.recv = b.recv /\ a.implp = b.implp /\ a.nparams = b.nparams /\ a.nattrs = b.nattrs
         /\ ((a.form = "sync") <=> (b.form = "sync"))
AwaitIffAsync == Ok => \A i \in DOMAIN Impls[1].methods : LET m == Impls[1].methods[i] IN (m.call.aw <=> m.form = "async") /\ m.call.n = m.nparams
MocksGatedUnlessExported ==
  Ok => \A t \in ToSet(Traits) : \A i \in DOMAIN t.attrs :
          t.attrs[i].kind \in {"unimock", "mockall"} /\ t.attrs[i].detail # "user" => (t.attrs[i].gated <=> ~ExportValue(p.opts))
TargetTraitsCarryNoMocks ==
  Ok /\ in.target = "trait" /\ Len(Traits) >= 2 =>
    /\ Kinds(Traits[2].attrs) \cap {"unimock", "mockall", "entrait"} = {}
    /\ Traits[2].supers = << "'static" >> /\ Traits[2].ngen = Traits[1].ngen + 1 /\ Traits[2].vis = Traits[1].vis
    /\ \A i \in DOMAIN Traits[2].methods : Traits[2].methods[i].implp = (in.tr.methods[i].recv # "none")
AsyncTraitReapplied ==
  Ok => LET at == "async_trait" \in ToSet(in.sub) IN
        /\ ("async_trait" \in Kinds(Impls[1].attrs)) = at
        /\ \A t \in ToSet(Traits) : t.name # in.delegname =>
             /\ ("async_trait" \in Kinds(t.attrs)) = at
             /\ \A i \in DOMAIN t.methods : (at => t.methods[i].form \in {"sync", "async"}) /\ (~at => t.methods[i].form # "async")
SendOnlyByDefault ==
  Ok => \A t \in ToSet(Traits) : \A i \in DOMAIN t.methods : t.methods[i].form = "fut" => ~FutureSend(p.opts)
ByValueNeedsSend ==
  Ok /\ in.target \in {"fn", "mod"} /\ Impls[1].self \in {"blanket", "implT"} =>
    ((\E i \in DOMAIN Impls[1].methods : Impls[1].methods[i].recv = "value") <=> (SendB \in ToSet(Impls[1].app)))
\* trait mode: a future that must be Send and owns the Impl<T> (async method, receiver by value) needs T: Send
OwnedReceiverFutureIsSendable ==
  Ok /\ in.target = "trait" =>
    LET im == Impls[Len(Impls)] IN
    (FutureSend(p.opts) /\ \E i \in DOMAIN in.tr.methods : in.tr.methods[i].async /\ in.tr.methods[i].recv = "value") => SendB \in ToSet(im.app)
VisibilityAsRequested ==
  Ok => CASE in.target = "fn" -> Traits[1].vis = in.tvis
          \* the trait sits one module further in than the re-export: what is written relative to the attribute is re-based
          \* by exactly one `super`, everything else is copied; the re-export carries the visibility as written
          [] in.target = "mod" -> /\ lines[Len(lines)] = "use " \o in.tvis \o " m::T"
                                  /\ Traits[1].vis = (CASE in.tvis = "" \/ in.tvis = "pub(self)" -> "pub(super)"
                                                        [] in.tvis = "pub(super)" -> "pub(insuper::super)"
                                                        [] in.tvis = "pub(inself::a)" -> "pub(insuper::a)"
                                                        [] in.tvis = "pub(insuper::a)" -> "pub(insuper::super::a)"
                                                        [] OTHER -> in.tvis)
          [] in.target = "trait" -> \A t \in ToSet(Traits) : t.vis = in.tr.vis
          [] OTHER -> TRUE
\* module mode: one trait method per visible function, in order (C08 at design level)
ModuleMethodsAreVisibleFns ==
  Ok /\ in.target = "mod" => [i \in DOMAIN Traits[1].methods |-> Traits[1].methods[i].name] = [i \in DOMAIN PubFns(in) |-> PubFns(in)[i].name]
ASSUME PrintT(<<"INPUTS", Cardinality(Inputs)>>)
=============================================================================
