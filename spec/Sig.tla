--------------------------------- MODULE Sig ---------------------------------
(***************************************************************************)
(* M1, stage "analyse a function": what kind of dependency the first       *)
(* parameter is (entrait_macros/src/analyze_generics.rs: analyze_fn_deps,  *)
(* extract_deps_from_type, find_deps_generic_bounds,                       *)
(* detect_trait_dependency_mode).                                          *)
(*                                                                         *)
(* A first-parameter type is [wrap, base]: `wrap` is the sequence of       *)
(* reference / parenthesis layers around `base`, outermost first.          *)
(*   wrap elements: "ref" (&), "reflife" (&'a), "paren" ((..))             *)
(*   base: "generic"  a one-segment path naming a type parameter of the fn *)
(*         "impl"     impl Trait                                           *)
(*         "ident"    a one-segment path that is no type parameter         *)
(*         "path"     a multi-segment path (a::B)                          *)
(*         "inst"     a one-segment generic instantiation (Gen<u8>)        *)
(*         "qself"    <X as Y>::Z          "colon"  ::a::B                 *)
(*         "tuple" "array" "dyn" "unit" "slice"  anything else             *)
(*         "self"     a `self` receiver    "none"   no parameter at all    *)
(***************************************************************************)
EXTENDS TLC, Sequences, Naturals, FiniteSets

Bases == {"generic", "impl", "ident", "path", "inst", "qself", "colon", "tuple", "array", "dyn", "unit", "self", "none"}
Wraps == {"ref", "reflife", "paren"}

\* peel references and parentheses (extract_deps_from_type recurses through both)
\* result: [err, kind \in {"generic","concrete","nodeps",""}, named: is the generic a named parameter]
AnalyzeBase(b) ==
  CASE b = "impl"    -> [err |-> "", kind |-> "generic", named |-> FALSE]
    [] b = "generic" -> [err |-> "", kind |-> "generic", named |-> TRUE]
    [] b = "qself"   -> [err |-> "no-self-allowed", kind |-> "", named |-> FALSE]
    [] b = "colon"   -> [err |-> "no-leading-colon", kind |-> "", named |-> FALSE]
    [] OTHER         -> [err |-> "", kind |-> "concrete", named |-> FALSE]   \* ident / path / inst / tuple / array / dyn ...
AnalyzeDeps(ty, nodeps) ==
  IF nodeps THEN (IF ty.base = "self" THEN [err |-> "self-receiver", kind |-> "", named |-> FALSE]
                  ELSE [err |-> "", kind |-> "nodeps", named |-> FALSE])
  ELSE IF ty.base = "none" THEN [err |-> "missing-deps", kind |-> "", named |-> FALSE]
  ELSE IF ty.base = "self" THEN [err |-> "self-receiver", kind |-> "", named |-> FALSE]
  ELSE AnalyzeBase(ty.base)

\* detect_trait_dependency_mode over the functions of one trait
DetectMode(mode, depsSeq) ==
  IF \E i \in DOMAIN depsSeq : depsSeq[i].kind = "concrete"
  THEN CASE mode = "fn"   -> [err |-> "", dmode |-> "concrete"]
         [] mode = "mod"  -> [err |-> "concrete-in-module", dmode |-> ""]
         [] mode = "impl" -> [err |-> "concrete-in-impl", dmode |-> ""]
  ELSE [err |-> "", dmode |-> "generic"]

\* analysis of all functions: the first error wins (collect::<syn::Result<Vec<_>>>)
RECURSIVE FirstErr(_, _)
FirstErr(ds, i) == IF i > Len(ds) THEN "" ELSE IF ds[i].err # "" THEN ds[i].err ELSE FirstErr(ds, i + 1)
AnalyzeFns(mode, tys, nodeps) ==
  LET ds == [i \in DOMAIN tys |-> AnalyzeDeps(tys[i], nodeps)]
      e  == FirstErr(ds, 1) IN
  IF e # "" THEN [err |-> e, dmode |-> "", deps |-> ds]
  ELSE LET m == DetectMode(mode, ds) IN [err |-> m.err, dmode |-> m.dmode, deps |-> ds]

\* ---- concretisation (Rust text of the first parameter)
BaseText(b) ==
  CASE b = "generic" -> "D" [] b = "impl" -> "impl crate::Tr" [] b = "ident" -> "Conc" [] b = "path" -> "crate::Conc"
    [] b = "inst" -> "Gen<u8>" [] b = "qself" -> "<Conc as crate::Assoc>::Out" [] b = "colon" -> "::core::primitive::u8"
    [] b = "tuple" -> "(u8, u16)" [] b = "array" -> "[u8; 2]" [] b = "dyn" -> "dyn crate::Tr" [] b = "unit" -> "()"
RECURSIVE TyText(_, _)
TyText(w, b) ==
  IF w = <<>> THEN BaseText(b)
  ELSE CASE Head(w) = "ref" -> "&" \o TyText(Tail(w), b)
         [] Head(w) = "reflife" -> "&'static " \o TyText(Tail(w), b)
         [] Head(w) = "paren" -> "(" \o TyText(Tail(w), b) \o ")"
ParamText(ty) ==
  CASE ty.base = "none" -> ""
    [] ty.base = "self" -> (IF ty.wrap = <<>> THEN "self" ELSE "&self")
    [] OTHER -> "deps: " \o TyText(ty.wrap, ty.base)
=============================================================================
