------------------------------- MODULE MC_C14 -------------------------------
(***************************************************************************)
(* C14: static delegation is zero-cost.  The Level-1 statement: for a      *)
(* program that uses static delegation only, a call through the generated  *)
(* trait performs exactly as many heap allocations as the direct call.     *)
(* Level 2: each delegation hop has a cost in allocations determined by    *)
(* how the generator emits it (fn / mod delegation, Impl<T> -> T,          *)
(* Impl<T> -> Target: plain calls, futures returned as `impl Future`:      *)
(* cost 0; dynamic dispatch of an async method through async_trait boxes   *)
(* the future: cost 1).  The machine walks a call chain of depth 1..3.     *)
(***************************************************************************)
EXTENDS TLC, Naturals, Sequences, FiniteSets, Json, IOUtils, SequencesExt
CONSTANTS MaxDepth, DumpCases

Kinds == {"fn", "mod", "trait-self", "static-di", "dyn-async-trait"}
\* bounds: how many bounds the dependency parameter of each function declares (1: `&impl Next`, 2: `&(impl Next + Marker)`)
\* ret: what every function / method of the chain returns: an owned value (u64) or a borrow (&'static str)
\* work: 0 nothing, 1 one heap allocation, 2 a 4 KiB buffer kept on the stack ACROSS an await (a large future, no allocation)
\* gen: the function has a further type parameter (the generated trait is generic, `T1<G>`)
\* ret "opaque": every function returns `impl Fn() -> u64` (an opaque type: naming it in the generated trait must not turn it into a trait object)
\* mock: the invocations also enable a (test-gated) mock derivation - `mockall` - which must not change what non-test code does
Progs == [kind : Kinds, depth : 1..MaxDepth, async : BOOLEAN, work : 0..2, bounds : 1..2, ret : {"value", "ref", "opaque"}, gen : BOOLEAN, refarg : BOOLEAN, mock : BOOLEAN]
WorkAllocs(w) == IF w = 1 THEN 1 ELSE 0
WellFormed(p) == (p.kind = "dyn-async-trait" => p.async) /\ (p.work = 2 => p.async) /\ (p.gen => p.depth = 1 /\ p.kind \in {"fn", "mod"})
                 \* refarg: every function of the chain takes a further argument BY REFERENCE (`_s: &str`)
                 /\ (p.refarg => p.kind \in {"fn", "mod"} /\ ~p.gen)
                 /\ (p.ret = "opaque" => p.kind \in {"fn", "mod"} /\ ~p.async /\ p.work = 0 /\ ~p.gen /\ ~p.refarg)
                 /\ (p.mock => p.kind \in {"fn", "mod"} /\ ~p.gen /\ ~p.refarg /\ p.bounds = 1 /\ p.depth <= 2)
Static(p) == p.kind # "dyn-async-trait"
\* Level 2: allocations added by one generated delegation hop.  Hop k (1-based) of a chain of depth d enters
\* function k; in the trait kinds the last hop is the entraited trait's method, the others are entraited fns.
\* Dynamic async_trait delegation boxes two futures on that hop (Impl<T>'s method and the impl block's method).
HopCost(p, k) == IF p.kind = "dyn-async-trait" /\ k = p.depth THEN 2 ELSE 0

VARIABLES p, path, level, allocs, pc
vars == <<p, path, level, allocs, pc>>
Init == p \in { q \in Progs : WellFormed(q) } /\ path \in {"direct", "trait"} /\ level = 1 /\ allocs = 0 /\ pc = "call"
\* the outermost call: through the trait (one generated hop) or directly (none)
OuterCall == /\ pc = "call" /\ level = 1
             /\ allocs' = allocs + (IF path = "trait" THEN HopCost(p, 1) ELSE 0)
             /\ pc' = "body" /\ UNCHANGED <<p, path, level>>
\* a function body at level < depth calls the next function through ITS trait (both paths do)
NestedCall == /\ pc = "body" /\ level < p.depth
              /\ allocs' = allocs + HopCost(p, level + 1) /\ level' = level + 1 /\ UNCHANGED <<p, path, pc>>
\* the innermost body does the user's work
Work == /\ pc = "body" /\ level = p.depth /\ allocs' = allocs + WorkAllocs(p.work) /\ pc' = "done" /\ UNCHANGED <<p, path, level>>
Next == OuterCall \/ NestedCall \/ Work
Spec == Init /\ [][Next]_vars

RECURSIVE Inner(_, _)
Inner(q, k) == IF k > q.depth THEN 0 ELSE HopCost(q, k) + Inner(q, k + 1)
Total(q, pa) == (IF pa = "trait" THEN HopCost(q, 1) ELSE 0) + Inner(q, 2) + WorkAllocs(q.work)
StepwiseIsTotal == pc = "done" => allocs = Total(p, path)
\* Level 1 on Level 2
ZeroCost == \A q \in { x \in Progs : WellFormed(x) } : Static(q) => Total(q, "trait") = Total(q, "direct")
ASSUME ZeroCost
ASSUME DumpCases => ndJsonSerialize(IOEnv.OUT, SetToSeq({ [prog |-> q, static |-> Static(q), pred |-> [direct |-> Total(q, "direct"), trait |-> Total(q, "trait")]] : q \in { x \in Progs : WellFormed(x) } }))
=============================================================================
