------------------------------ MODULE Programs ------------------------------
(***************************************************************************)
(* Abstract fn / mod programs for the run-time properties (C01, C11, C12,  *)
(* C14): what TLC enumerates and the renderer turns into Rust.             *)
(*  mode    "fn" one function, "mod" a module of nfn functions with        *)
(*          IDENTICAL signatures (so that cross-wiring cannot hide behind  *)
(*          the type checker)                                              *)
(*  deps    "genref" `deps: &D`, "genval" `deps: D`, "implref"             *)
(*          `deps: &impl Bound`, "concrete" `deps: &Conc`, "nodeps"        *)
(*  params  further parameters: "i32" "string" (moved) "str" (borrowed)    *)
(*          "tuple" (destructured, two leaves) "wild" (`_`) "gen"          *)
(*          (generic T: Debug) "samename" / "liftname" (see below)         *)
(*  opt     option set: "none" "unimock" (mock_api + unimock) "mockall"    *)
(*          "export" "nosend" (?Send)                                      *)
(*  hyg     the item is produced by a macro_rules! macro whose caller      *)
(*          supplies the name of the first parameter - the SAME name the   *)
(*          macro body gives the second one: two distinct bindings that    *)
(*          only macro hygiene tells apart                                 *)
(***************************************************************************)
EXTENDS TLC, Sequences, Naturals, FiniteSets, SequencesExt

\* "implref2": `deps: &(impl Marker + alt::Marker)` - two different bounds whose paths end in the same identifier
DepsKinds == {"genref", "genval", "implref", "implref2", "concrete", "nodeps"}
\* "samename": a plain parameter named like the function itself; "liftname": a destructured parameter whose single
\* binding is named like the function (both must not end up shadowing the callee in the delegating body)
ParamKinds == {"i32", "string", "str", "tuple", "wild", "gen", "samename", "liftname"}
OptSets == {"none", "unimock", "mockall", "export", "nosend"}

Leaves(k) == IF k = "tuple" THEN 2 ELSE 1
RECURSIVE LeafStart(_, _)
LeafStart(ps, i) == IF i = 1 THEN 1 ELSE LeafStart(ps, i - 1) + Leaves(ps[i - 1])
\* the values a caller passes: leaf numbers, in declared order (the renderer maps numbers to seeded values)
ArgLeaves(ps) == FlattenSeq([i \in 1..Len(ps) |-> IF Leaves(ps[i]) = 2 THEN <<LeafStart(ps, i), LeafStart(ps, i) + 1>> ELSE <<LeafStart(ps, i)>>])

WellFormed(p) ==
  /\ (p.mode = "fn" => p.nfn = 1) /\ (p.mode = "mod" => p.nfn \in 2..3)
  /\ (p.deps = "concrete" => p.mode = "fn" /\ p.opt \in {"none", "nosend"})     \* concrete deps: fn only; mocks are C05/C11's
  /\ (p.opt = "nosend" => p.async)
  /\ (p.deps = "implref2" => p.opt \in {"none", "nosend", "export"})
  /\ (p.hyg => Len(p.params) >= 2 /\ p.params[1] = "i32" /\ p.params[2] = "i32" /\ p.opt = "none")
  \* hygtr: the item is produced by a macro_rules! macro whose caller supplies the TRAIT NAME (`#[entrait(pub $tr)] fn ..`): the
  \* attribute's tokens and the item's tokens live in different hygiene contexts
  /\ (p.hygtr => p.opt = "none" /\ ~p.hyg /\ p.deps # "concrete")
  /\ Cardinality({ i \in DOMAIN p.params : p.params[i] \in {"samename", "liftname"} }) <= 1     \* one binding of that name at most
  /\ (p.opt = "unimock" => ~(\E i \in DOMAIN p.params : p.params[i] \in {"gen", "liftname"}) /\ p.deps # "genval")
  /\ (p.opt = "mockall" => ~p.async /\ ~(\E i \in DOMAIN p.params : p.params[i] \in {"gen", "str", "liftname"}) /\ p.deps # "genval")

FnName(i) == "f" \o ToString(i)
\* Level 2 (Codegen, fn_delegation_codegen.rs gen_delegating_fn_item): the body of method i
\*   callee(self?, a1, .., an)[.await]
Body(p, i) == [callee |-> FnName(i), passSelf |-> p.deps # "nodeps", argorder |-> [j \in 1..Len(ArgLeaves(p.params)) |-> j], await |-> p.async]
=============================================================================
