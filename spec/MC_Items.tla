------------------------------ MODULE MC_Items ------------------------------
(***************************************************************************)
(* Bounded exploration of the item-splitting cursor machine (Items) over   *)
(* all module / impl bodies of up to MaxItems catalogue items.  Checks     *)
(*   - the step-wise machine = the functional composition (Split),         *)
(*   - C02 at design level: the split is lossless (a partition into        *)
(*     consecutive non-empty chunks), so re-emitting the items re-emits    *)
(*     the body token for token,                                           *)
(*   - C08 at design level: the methods found = the ground-truth labels,   *)
(* and dumps every body with Level 2's prediction for replay (B1).         *)
(***************************************************************************)
EXTENDS Items, Json, IOUtils
CONSTANTS MaxItems, MaxImplItems, DumpCases
R == INSTANCE Req

CatOf(mode) == IF mode = "mod" THEN Cat ELSE ICat
\* (valid Rust only: at most one ENABLED alternative of the function that is written once per cfg alternative)
BodiesOf(mode) == IF mode = "mod" THEN { b \in UNION { [1..n -> Ids] : n \in 0..MaxItems } : Cardinality({ i \in DOMAIN b : b[i] = "cfgonalt" }) <= 1 }
                  ELSE UNION { [1..n -> IIds] : n \in 1..MaxImplItems }
Inputs == { [mode |-> "mod", body |-> b] : b \in BodiesOf("mod") } \cup { [mode |-> "impl", body |-> b] : b \in BodiesOf("impl") }

PredMethods(in) == Methods(CatOf(in.mode), in.body, in.mode)
TruthOf(in) == Truth(CatOf(in.mode), in.body)

\* ---- the machine
VARIABLES in, ts, pos, cur, acc, pc
vars == <<in, ts, pos, cur, acc, pc>>
NoCur == [start |-> 0, a |-> 0, v |-> 0, from |-> 0, kind |-> ""]

Init == /\ in \in Inputs /\ ts = Flat(CatOf(in.mode), in.body) /\ pos = 1 /\ cur = NoCur /\ acc = <<>> /\ pc = "begin"
\* attributes, visibility, fork, look-ahead
BeginItem ==
  /\ pc = "begin" /\ pos <= Len(ts)
  /\ LET a == SkipAttrs(ts, pos) v == AfterVis(ts, a)
         isfn == IF in.mode = "mod" THEN PeekPubFn(ts, a, v) ELSE PeekFn(ts, v) IN
     /\ cur' = [start |-> pos, a |-> a, v |-> v, from |-> v, kind |-> IF isfn THEN "fn" ELSE "unknown"]
     /\ pc' = IF isfn THEN "sig" ELSE "scan"
  /\ UNCHANGED <<in, ts, pos, acc>>
\* syn::Signature, then `;` (body-less: kept as an unknown item) or a body
ParseSigThenBodyOrSemi ==
  /\ pc = "sig"
  /\ LET s == SigEnd(ts, cur.v) IN
     IF At(ts, s) = ";"
     THEN /\ acc' = Append(acc, [start |-> cur.start, next |-> s + 1, kind |-> "bodyless"])
          /\ pos' = s + 1 /\ pc' = "begin" /\ cur' = NoCur
     ELSE /\ cur' = [cur EXCEPT !.from = s] /\ pc' = "scan" /\ UNCHANGED <<acc, pos>>
  /\ UNCHANGED <<in, ts>>
\* parse_matched_braces_or_ending_semi: up to and including the first brace group or `;`
ScanToBraceOrSemi ==
  /\ pc = "scan"
  /\ cur' = [cur EXCEPT !.from = ScanEnd(ts, cur.from)]
  /\ pc' = "semis"
  /\ UNCHANGED <<in, ts, pos, acc>>
EatTrailingSemis ==
  /\ pc = "semis"
  /\ LET e == EatSemis(ts, cur.from) IN
     /\ acc' = Append(acc, [start |-> cur.start, next |-> e, kind |-> cur.kind])
     /\ pos' = e
  /\ pc' = "begin" /\ cur' = NoCur
  /\ UNCHANGED <<in, ts>>
Finish == pc = "begin" /\ pos > Len(ts) /\ pc' = "done" /\ UNCHANGED <<in, ts, pos, cur, acc>>
Next == BeginItem \/ ParseSigThenBodyOrSemi \/ ScanToBraceOrSemi \/ EatTrailingSemis \/ Finish
Spec == Init /\ [][Next]_vars

\* ---- invariants
TypeOK == pc \in {"begin", "sig", "scan", "semis", "done"} /\ pos \in 1..(Len(ts) + 1)
StepwiseIsSplit == pc = "done" => acc = Split(ts, 1, in.mode)
\* the cursor only moves forward and the chunks tile the body (no token lost, duplicated or reordered)
Progress == \A i \in 1..Len(acc) : acc[i].next > acc[i].start /\ (i > 1 => acc[i].start = acc[i - 1].next)
C02_Lossless == pc = "done" => Lossless(CatOf(in.mode), in.body, in.mode)
\* never "Read past the end" on bodies made of whole items
NoReadPastEnd == pc = "semis" => cur.from <= Len(ts) + 1 /\ ts[cur.from - 1] \in {"{}", ";"}
C08_Refines == pc = "done" => PredMethods(in) = TruthOf(in)

\* ---- case dump for replay
CaseRec(i) == [ mode |-> i.mode, body |-> i.body,
                texts |-> [k \in 1..Len(i.body) |-> CatOf(i.mode)[i.body[k]].text],
                quals |-> [k \in 1..Len(i.body) |-> CatOf(i.mode)[i.body[k]].q],
                kinds |-> Flat(CatOf(i.mode), i.body),
                truth |-> TruthOf(i), pred |-> PredMethods(i) ]
ASSUME DumpCases => ndJsonSerialize(IOEnv.OUT, SetToSeq({ CaseRec(i) : i \in Inputs }))
ASSUME PrintT(<<"CASES", Cardinality(Inputs)>>)
=============================================================================
