SPECIFICATION Spec
CONSTANTS
  MaxParams = 2
  DumpCases = TRUE
INVARIANTS Refines ExactlyOnce Completes
CHECK_DEADLOCK FALSE
