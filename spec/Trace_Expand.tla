---------------------------- MODULE Trace_Expand ----------------------------
(* Trace validation of the pipeline model: one event per recorded invocation (any corpus); the model's   *)
(* shape of the expansion is compared with the shape of the tokens the real macro emitted.  Differences  *)
(* are drift (the implementation-shaped specification and the code disagree), never property verdicts.   *)
EXTENDS TraceLib, Expand
VARIABLES l, bad, drift
vars == <<l, bad, drift>>
Init == l = 1 /\ bad = {} /\ drift = {}
Pred(e) == LET x == Expand(e.inp) IN IF x.err # "" THEN << "error" >> ELSE x.lines
TStep == /\ l <= Len(Rec) /\ l' = l + 1
        /\ LET e == Rec[l] p == Pred(e) IN
           /\ bad' = bad
           /\ drift' = drift \cup (IF p = e.obs THEN {} ELSE {[case |-> e.case, field |-> "shape", pred |-> p]})
Spec == Init /\ [][TStep]_vars
RegC == Reg(l, bad, drift)
=============================================================================
