SPECIFICATION ImpureSpec
CONSTANTS
  Keys = {1, 2}
  Outs = {0, 1}
  Procs = {1, 2}
  MaxSeq = 2
INVARIANTS Functional
CHECK_DEADLOCK FALSE
