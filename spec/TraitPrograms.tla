---------------------------- MODULE TraitPrograms ----------------------------
(***************************************************************************)
(* Abstract programs for entraited traits (C06) and dependency inversion   *)
(* (C07), and Level 2's model of the delegating methods the generator      *)
(* emits for them (entrait_trait/mod.rs gen_delegation_method: five call   *)
(* shapes; entrait_impl + fn_delegation_codegen for impl blocks).          *)
(*                                                                         *)
(* C06 program: [nmeth, params, async \in {"no","native","async_trait"},   *)
(*               sel \in {"Self","ref","Borrow"}, extra \in {"none",       *)
(*               "generic-trait","generic-method","supertrait","where",    *)
(*               "borrowed-return", ...}]                                  *)
(*   applications: "Prov" provides the trait in the selected way, "NoProv" *)
(*   does not, "ProvNoSync" provides it but is not Sync, "ProvNoSend"      *)
(*   provides it, is Sync but not Send                                     *)
(* C07 program: [nmeth, params, async, kind \in {"static","dyn"},          *)
(*               depbounds \in 0..3 (3: Leaf<u8> + Leaf<u16>), target \in {"unit","generic"}] *)
(*   targets X1, X2 (same method names; "generic": two instantiations      *)
(*   X<P1>, X<P2> of ONE generic type); applications A -> X1, B -> X2,     *)
(*   "NoSel" selects nothing                                               *)
(***************************************************************************)
EXTENDS TLC, Sequences, Naturals, FiniteSets

PKinds == {"i32", "string", "str"}
MName(i) == "m" \o ToString(i)

\* ---- C06
C06Asyncs == {"no", "native", "async_trait"}
C06Sels == {"Self", "ref", "Borrow"}
\* "byvalue-method": the trait ALSO has a `self`-by-value method; "typed-receiver": a method written `self: &Self`;
\* "marker": the program ALSO entraits a method-less trait with the same selector (availability must follow the same rule);
\* "lifetime-trait": the trait has two lifetime parameters related by a where-predicate (`where 't: 'u`); "default-param": a defaulted type parameter
\* "unsized-param": a type parameter with a relaxed bound (`trait Tr<K: ?Sized>`), provided and used at an unsized argument (`Tr<str>`)
C06Extras == {"none", "generic-trait", "generic-method", "supertrait", "where", "borrowed-return", "byvalue-method", "typed-receiver",
              "lifetime-trait", "default-param", "marker", "unsized-param"}
C06WellFormed(p) ==
  /\ (p.async = "native" => p.sel = "Self")            \* dyn dispatch of `async fn` needs async_trait
  /\ (p.extra \in {"generic-method", "byvalue-method"} => p.sel = "Self")    \* not dyn compatible
  /\ (p.extra = "borrowed-return" => p.async = "no")
\* Level 2: the delegating method body for method i (first three call shapes)
\*   Self   : self.as_ref().m(args)            ref : self.as_ref().as_ref().m(args)
\*   Borrow : self.as_ref().borrow().m(args)
C06Body(p, i) == [via |-> p.sel, callee |-> MName(i), passImpl |-> FALSE, await |-> p.async # "no"]
\* Level 2: the bounds on T in `impl<T> Tr for Impl<T> where T: ..` (ImplWhereClause::push_impl_t_bounds)
C06Bounds(p) ==
  CASE p.sel = "Self" -> {"Provides", "Sync"} \cup (IF p.async # "no" THEN {"static"} ELSE {}) \cup {"static"}
    [] OTHER -> {"Provides", "static", "Sync"}     \* (an extra `Send` for async was dropped by a "fix:" commit, see known_findings.json)
\* what each application type satisfies
C06Apps == {"Prov", "NoProv", "ProvNoSync", "ProvNoSend"}
C06Sat(a) == CASE a = "Prov" -> {"Provides", "Sync", "Send", "static"} [] a = "NoProv" -> {"Sync", "Send", "static"}
               [] a = "ProvNoSync" -> {"Provides", "Send", "static"} [] a = "ProvNoSend" -> {"Provides", "Sync", "static"}
C06PredAvail(p, a) == C06Bounds(p) \subseteq C06Sat(a)

\* ---- C07
\* "dynborrow": dynamic selection spelled `delegate_by = Borrow` (deprecated, documented): the `dyn TraitImpl<T>` comes from `T: Borrow<..>`;
\* the application also hands out the other target through AsRef, which must never be reached
C07Kinds == {"static", "dyn", "dynborrow"}
\* typed: the trait's receivers are spelled `self: &Self`
\* mixed: an async_trait trait that ALSO has a synchronous method (the `+ Sync` decisions are per trait, not per method)
C07WellFormed(p) == (p.async = "native" => p.kind = "static") /\ (p.mixed => p.async = "async_trait")
\* Level 2: Impl<T>'s method i (fourth and fifth call shapes), then the target trait impl generated from the
\* impl block (fn_delegation_codegen with ImplIndirection::Static / Dynamic): Self::m(__impl, args)
C07Body(p, i) == [via |-> IF p.kind = "static" THEN "Target" ELSE "dynref", callee |-> MName(i), passImpl |-> TRUE, await |-> p.async # "no"]
C07Apps == {"A", "B", "NoSel"}
C07Selects(a) == CASE a = "A" -> "X1" [] a = "B" -> "X2" [] OTHER -> ""
=============================================================================
