------------------------------- MODULE MC_C11 -------------------------------
(***************************************************************************)
(* C11: unimock wiring.  Level 2: the `unmock_with = [..]` list the        *)
(* generator puts on the trait (attributes.rs UnimockAttrParams), one      *)
(* positional entry per trait method:                                      *)
(*    generic deps  ->  f          (unimock calls  f(mock, a1, .., an))    *)
(*    no_deps       ->  f(a1..an)  (unimock calls  f(a1, .., an))          *)
(*    concrete deps ->  _          (not un-mockable: panics)               *)
(* and, for an entraited TRAIT, no unmock_with at all.                     *)
(* Scenarios (Level 1 = the guards of Runtime plus the mock conjuncts):    *)
(*   "mock"    a clause answers: the answer function sees the caller's     *)
(*             arguments in order, the configured answer is returned, the  *)
(*             real function is NOT entered                                *)
(*   "partial" no clause matches on a partial mock: the method's OWN       *)
(*             function runs with the mock object as dependency            *)
(*   "impl"    the Impl<T> path (its result must equal the partial path's) *)
(***************************************************************************)
EXTENDS Programs, Runtime, Json, IOUtils
CONSTANTS MaxParams, DumpCases

\* lstr: a `&'l str` parameter whose lifetime is an EXPLICIT generic parameter of the function (`fn f<'l>(deps, r: &'l str)`): unlike
\* type and const parameters it stays on the generated METHOD, and the unmock_with entry of such a function is still the function
PKs == {"i32", "string", "str", "tuple", "lstr"}
ParamLists == UNION { [1..n -> PKs] : n \in 0..MaxParams }
\* mockable programs: fn / mod (with mock_api), deps generic-ref / impl-ref / no_deps / concrete, sync/async; plus entraited traits
\* stamp: the function is stamped out by a macro_rules! macro: the #[entrait(..)] attribute, `fn` and the name are written in
\* the macro body, the parameter list and the body come from the macro's caller (two hygiene contexts)
MProgs == { p \in [mode : {"fn", "mod", "trait"}, nfn : 1..3, deps : {"genref", "implref", "nodeps", "concrete"}, async : BOOLEAN, params : ParamLists, stamp : BOOLEAN, cfg : BOOLEAN, rev : BOOLEAN, featoff : BOOLEAN, viafeat : BOOLEAN] :
            \* (no_deps only: with a dependency the generated `self` and the receiver end up in different hygiene contexts
            \*  and the expansion does not compile on any tree - an observation recorded in DESIGN.md, outside the statements)
            /\ (p.stamp => p.mode = "fn" /\ p.deps = "nodeps" /\ Len(p.params) >= 1)
            /\ ((\E i \in DOMAIN p.params : p.params[i] = "lstr") => p.mode \in {"fn", "mod"} /\ ~p.stamp /\ ~p.featoff /\ ~p.viafeat /\ ~p.cfg /\ ~p.rev
                                                                    /\ Cardinality({ i \in DOMAIN p.params : p.params[i] = "lstr" }) = 1)
            \* featoff: entrait is used WITHOUT its `unimock` cargo feature; unimock support comes from the `unimock` option alone
            \* (the invoking crate depends on unimock itself) - documented as the other way to enable it
            \* viafeat: unimock support is switched on by entrait's `unimock` cargo feature alone (no `unimock` option), the invocation is
            \* written with the exporting macro variant AND spells `export = true` out: `entrait_export(pub T, mock_api = Mk, export = true)`
            \* (the variant's fallbacks [export, unimock] are applied one by one; a written option must not stop the others)
            /\ (p.viafeat => ~p.featoff /\ ~p.stamp /\ ~p.cfg /\ ~p.rev /\ p.mode \in {"fn", "mod"} /\ Len(p.params) <= 1)
            /\ (p.featoff => ~p.stamp /\ ~p.cfg /\ ~p.rev /\ ~p.async /\ Len(p.params) <= 1)
            \* cfg: the functions of the module carry an ENABLED `#[cfg(..)]` (which the generator mirrors onto the generated methods)
            /\ (p.cfg => p.mode = "mod")
            \* rev: the module's functions are declared in descending name order (the positional unmock_with list must follow the trait)
            /\ (p.rev => p.mode = "mod")
            /\ (p.mode = "fn" => p.nfn = 1) /\ (p.mode = "mod" => p.nfn \in 2..3) /\ (p.mode = "trait" => p.nfn \in 1..2 /\ p.deps = "genref")
            /\ (p.deps = "concrete" => p.mode = "fn") }
\* Level 2: the attribute the generator puts on the trait is always `::entrait::__unimock::unimock(prefix = ::entrait::__unimock, ..)`
\* (attributes.rs UnimockAttrParams), and `::entrait::__unimock` exists only with the cargo feature (src/lib.rs): without it the
\* mock cannot be compiled.  A named deviation from Level 1 (the mock API must be reachable whenever support is generated).
Compiles(p) == ~p.featoff
Class(p) == IF p.featoff THEN "unimock-option-without-feature" ELSE ""
Scens(p) == IF p.mode = "trait" \/ p.deps = "concrete" THEN {"mock", "partial-panics"} ELSE {"mock", "partial", "impl"}

UnmockEntry(p, i) ==
  CASE p.mode = "trait"    -> [kind |-> "none"]
    [] p.deps = "concrete" -> [kind |-> "none"]
    [] p.deps = "nodeps"   -> [kind |-> "fnargs", callee |-> FnName(i), passSelf |-> FALSE]
    [] OTHER               -> [kind |-> "fn", callee |-> FnName(i), passSelf |-> TRUE]

Sc(p, s) == [own |-> [m \in { FnName(i) : i \in 1..p.nfn } |-> IF s = "mock" THEN "" ELSE m],
             deps |-> [m \in { FnName(i) : i \in 1..p.nfn } |-> IF p.deps = "nodeps" THEN "none" ELSE "recv"]]
Args(p) == [j \in 1..Len(ArgLeaves(p.params)) |-> ToString(ArgLeaves(p.params)[j])]

VARIABLES p, s, m, stack, pc, viol, outcome
vars == <<p, s, m, stack, pc, viol, outcome>>
Init == p \in MProgs /\ s \in {"mock", "partial", "impl", "partial-panics"} /\ s \in Scens(p) /\ m \in 1..3 /\ m <= p.nfn
        /\ stack = <<>> /\ pc = "idle" /\ viol = {} /\ outcome = ""
TraitCall == /\ pc = "idle"
             /\ stack' = DoCall(stack, [m |-> FnName(m), recv |-> IF s = "impl" THEN "the-impl" ELSE "the-mock", args |-> Args(p)])
             /\ pc' = (CASE s = "mock" -> "answer" [] s = "impl" -> "delegate" [] OTHER -> "unmock") /\ UNCHANGED <<p, s, m, viol, outcome>>
\* a clause matches: the answer function is applied to the caller's arguments
MockMatch == /\ pc = "answer"
             /\ viol' = viol \cup (IF Args(p) # Top(stack).args THEN {"mock-args-in-order"} ELSE {})
             /\ stack' = DoRet(stack, [m |-> FnName(m)]) /\ outcome' = "answer" /\ pc' = "done" /\ UNCHANGED <<p, s, m>>
\* no clause: unimock consults the positional unmock_with entry of THIS method
Unmock == /\ pc = "unmock"
          /\ LET u == UnmockEntry(p, m) c == Top(stack) IN
             IF u.kind = "none" THEN /\ outcome' = "panic" /\ pc' = "done" /\ UNCHANGED <<stack, viol>>
             ELSE LET e == [f |-> u.callee, deps |-> IF u.passSelf THEN c.recv ELSE "-", args |-> c.args] IN
                  /\ viol' = viol \cup EnterGuard(stack, Sc(p, s), e) /\ stack' = DoEnter(stack, e)
                  /\ pc' = "fn" /\ outcome' = outcome
          /\ UNCHANGED <<p, s, m>>
\* the Impl<T> path (C01's delegating body)
Delegate == /\ pc = "delegate"
            /\ LET b == Body([mode |-> p.mode, nfn |-> p.nfn, deps |-> p.deps, async |-> p.async, params |-> p.params, hyg |-> FALSE, opt |-> "unimock"], m) c == Top(stack) e == [f |-> b.callee, deps |-> IF b.passSelf THEN c.recv ELSE "-", args |-> c.args] IN
               viol' = viol \cup EnterGuard(stack, Sc(p, s), e) /\ stack' = DoEnter(stack, e)
            /\ pc' = "fn" /\ UNCHANGED <<p, s, m, outcome>>
FnBody == /\ pc = "fn"
          /\ LET f == Top(stack).f e == [f |-> f, val |-> <<f, stack[Len(stack) - 1].args>>] IN
             viol' = viol \cup ExitGuard(stack, e) /\ stack' = DoExit(stack, e)
          /\ pc' = "ret" /\ UNCHANGED <<p, s, m, outcome>>
TraitRet == /\ pc = "ret"
            /\ LET c == Top(stack) e == [m |-> c.m, val |-> c.val[1]] IN
               viol' = viol \cup RetGuard(stack, Sc(p, s), e) /\ stack' = DoRet(stack, e)
            /\ outcome' = "real" /\ pc' = "done" /\ UNCHANGED <<p, s, m>>
Next == TraitCall \/ MockMatch \/ Unmock \/ Delegate \/ FnBody \/ TraitRet
Spec == Init /\ [][Next]_vars
Refines == viol = {}
\* Level 1's outcome table on Level 2
Outcomes == pc = "done" => outcome = (CASE s = "mock" -> "answer" [] s = "partial-panics" -> "panic" [] OTHER -> "real")

ASSUME DumpCases => ndJsonSerialize(IOEnv.OUT, SetToSeq({ [prog |-> q, leaves |-> ArgLeaves(q.params), scens |-> SetToSeq(Scens(q)),
        unmock |-> [i \in 1..q.nfn |-> UnmockEntry(q, i).kind], compiles |-> Compiles(q), cls |-> Class(q)] : q \in MProgs }))
=============================================================================
