SPECIFICATION Spec
CONSTRAINT RegC
POSTCONDITION Post
CHECK_DEADLOCK FALSE
