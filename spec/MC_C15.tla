------------------------------- MODULE MC_C15 -------------------------------
(***************************************************************************)
(* C15: every way the front of the pipeline can end.  The machine runs     *)
(*   ClassifyItem -> ParseAttr (one step per option) -> AnalyzeFns ->      *)
(*   DetectMode / TraitChecks -> Codegen                                   *)
(* over (a) all option lists, well- and ill-formed, up to MaxToks tokens   *)
(* on the four targets, (b) non-supported items, (c) all dependency-       *)
(* parameter shapes in fn / mod / impl-block mode, (d) trait shapes.       *)
(* Outcome \in {"ok", "error:<class>", "panic"}; the invariant NeverPanics *)
(* is Level 1's first conjunct at design level.                            *)
(***************************************************************************)
EXTENDS Opts, Sig, Params, Json, IOUtils
CONSTANTS MaxToks, DumpCases
R == INSTANCE Req

Targets == {"fn", "mod", "trait", "impl"}
Toks == { Bare("no_deps"), Eq("no_deps", "false"), Bare("export"), Eq("export", "true"), Bare("unimock"), Eq("unimock", "false"),
          Eq("unimock", "maybe"), Bare("mockall"), Eq("mock_api", "Mk"), Bare("mock_api"), Bare("?Send"), Bare("?Sized"),
          Eq("debug", "false"), Bare("bogus"), Eq("bogus", "true"), Bare("delegate_by"), Eq("delegate_by", "Self"),
          Eq("delegate_by", "ref"), Eq("delegate_by", "Borrow"), Eq("delegate_by", "Custom"), Eq("delegate_by", "type"),
          \* the `?` prefix belongs to `?Send` alone: in front of any other option name it makes an unknown option
          Bare("?no_deps"), Bare("?export"), Eq("?debug", "false") }
TokLists == UNION { [1..n -> Toks] : n \in 0..MaxToks }
Leads(t) == CASE t \in {"fn", "mod"} -> {"T", "pub T", "pub(crate) T", "", "pub"}
              [] t = "trait" -> {"", "TImpl", "pub TImpl"}
              [] t = "impl" -> {"", "ref", "dyn", "ref dyn"}
AttrCases == { [kind |-> "attr", target |-> t, attr |-> [lead |-> ld, opts |-> os, trail |-> tr]]
               : t \in Targets, ld \in UNION { Leads(tt) : tt \in Targets }, os \in TokLists, tr \in {"", ","} }
AttrCasesOK == { c \in AttrCases : c.attr.lead \in Leads(c.target) }

\* (b) items the macro does not support
OtherItems == {"struct", "enum", "union", "const", "static", "type", "use", "modsemi", "inherent-impl", "extern-block",
               "macro-call", "unsafe-mod", "auto-trait", "extern-crate", "trait-alias", "unsafe-fn-ok"}
ItemCases == { [kind |-> "item", item |-> i, withname |-> w] : i \in OtherItems, w \in BOOLEAN }

\* (c) dependency parameter shapes
TyShapes == { [wrap |-> w, base |-> b] : b \in Bases \ {"none", "self"}, w \in {<<>>, <<"ref">>, <<"reflife">>, <<"ref", "ref">>, <<"ref", "paren">>, <<"paren", "ref">>} }
            \cup { [wrap |-> <<>>, base |-> "none"], [wrap |-> <<>>, base |-> "self"], [wrap |-> <<"ref">>, base |-> "self"] }
\* (ndform: how the no_deps option is written: absent / bare for FALSE / TRUE, or in the `= value` form)
DepsCases == { [kind |-> "deps", mode |-> m, ty |-> ty, nodeps |-> nd, ndform |-> nf, second |-> s]
               : m \in {"fn", "mod", "impl"}, ty \in TyShapes, nd \in BOOLEAN, nf \in {"short", "eq"},
                 s \in { [wrap |-> <<"ref">>, base |-> "generic"], [wrap |-> <<"ref">>, base |-> "ident"] } }
DepsCasesOK == { c \in DepsCases : (c.mode = "impl" => ~c.nodeps /\ c.ndform = "short") /\ (c.mode = "fn" => c.second.base = "generic") }

\* (d) trait shapes: parameter pattern of the method x delegation kind x extra trait item
TraitPats == {"ident", "wild", "tuple", "mut", "none"}
TraitDelegs == {"none", "ref", "borrow", "custom+target", "ref+target", "custom-only", "target-only"}
TraitExtras == {"none", "const-item", "assoc-type", "static-method", "self-by-value", "default-body", "generic-method", "macro-item"}
TraitCases == { [kind |-> "trait", pat |-> p, deleg |-> d, extra |-> x] : p \in TraitPats, d \in TraitDelegs, x \in TraitExtras }

\* (e) every parameter-pattern symbol of Params (C16's alphabet) as the single further parameter of a function in
\* fn / mod / impl-block position and of a trait method, with ordinary, would-be-generated and raw function names
PatCases == { [kind |-> "pat", pos |-> ps, sym |-> sy, f |-> fn] :
              ps \in {"fn", "mod", "impl", "trait"}, sy \in { x \in AllSyms : SymOkAt(x, 1) }, fn \in { Nm("foo"), Nm("arg0"), RawNm("match") } }
PatCasesOK == { x \in PatCases : ValidOriginal(<<x.sym>>, x.f) }

\* (f) generic parameters and where-clauses (analyze_generics.rs, generics.rs *Generator::to_tokens): how the dependency
\* parameter declares its bounds x which kind of further where-predicate the function has, in fn / mod / impl-block position.
\* All of these are valid uses: the emitted trait / impl headers and where-clauses must parse.
DepBounds == {"bare", "inline", "where", "impl"}
WherePredKinds == {"none", "path", "assoc", "tuple", "hrtb", "life"}
GenCases == { [kind |-> "gen", mode |-> m, dbound |-> d, pred |-> w] : m \in {"fn", "mod", "impl"}, d \in DepBounds, w \in WherePredKinds }

\* (g) the trait path of an entraited impl block (input.rs parse_impl): plain, with a module prefix, with generic arguments.
\* Impl blocks have no support for generics: the generated header appends `<EntraitT>` to the path, so arguments on it are
\* rejected (since a "fix:" commit; the header `impl<..> TI<u8> <EntraitT> for X` used to be emitted - tokens that do not parse)
ImplPathCases == { [kind |-> "implpath", path |-> p] : p \in {"plain", "prefixed", "generic"} }
OutcomeImplPath(c) == IF c.path = "generic" THEN [outcome |-> "error", class |-> "impl-trait-path-arguments"] ELSE [outcome |-> "ok", class |-> ""]

\* ------------------------------------------------------------------------
\* Level 2: the outcome of each case
\* ------------------------------------------------------------------------
Err(c) == [outcome |-> "error", class |-> c]
Ok == [outcome |-> "ok", class |-> ""]
OutcomeAttr(c) == LET f == FrontEnd(c.target, c.attr, "entrait", FALSE) IN IF f.err = "" THEN Ok ELSE Err(f.err)
\* Input::parse: anything that is not trait / impl / mod is parsed as a function signature
\* (`auto trait` is accepted as a trait: with a name in the attribute that name is a delegation target)
OutcomeItem(c) == CASE c.item = "unsafe-fn-ok" -> (IF c.withname THEN Ok ELSE Err("syntax"))
                    [] c.item = "auto-trait"   -> (IF c.withname THEN Err("target-trait-without-delegate-by") ELSE Ok)
                    [] OTHER -> Err("syntax")
OutcomeDeps(c) ==
  LET tys == IF c.mode = "fn" THEN <<c.ty>> ELSE <<c.second, c.ty>>
      a == AnalyzeFns(c.mode, tys, c.nodeps) IN
  IF a.err # "" THEN Err(a.err) ELSE Ok
\* trait mode: unsupported trait items, delegate_by consistency; a non-identifier parameter pattern is
\* given a name in the delegating method (since the "fix:" commit recorded in known_findings.json)
OutcomeTrait(c) ==
  IF c.deleg = "custom-only" THEN Err("custom-delegate-without-target-trait")
  ELSE IF c.extra \in {"const-item", "macro-item"} THEN Err("unsupported-trait-item")
  ELSE IF c.deleg = "target-only" THEN Err("target-trait-without-delegate-by")
  ELSE Ok
\* the renaming stage never fails (Params!Final has no panic outcome any more)
OutcomePat(c) == IF Final(<<c.sym>>, c.f).panic THEN [outcome |-> "panic", class |-> ""] ELSE Ok
Outcome(c) == CASE c.kind = "attr" -> OutcomeAttr(c) [] c.kind = "item" -> OutcomeItem(c)
                [] c.kind = "deps" -> OutcomeDeps(c) [] c.kind = "trait" -> OutcomeTrait(c) [] c.kind = "pat" -> OutcomePat(c)
                [] c.kind = "gen" -> Ok        \* generics collection has no error path
                [] c.kind = "implpath" -> OutcomeImplPath(c)

\* documented misuses: single faults injected into valid invocations (Level 1's `fault`)
Fault(c) ==
  CASE c.kind = "deps" /\ ~c.nodeps /\ c.ty.base = "none" /\ c.mode = "fn" -> "missing-deps"
    [] c.kind = "deps" /\ ~c.nodeps /\ c.ty.base = "self" /\ c.mode = "fn" -> "self-receiver"
    [] c.kind = "deps" /\ ~c.nodeps /\ c.mode = "mod" /\ c.second.base = "generic" /\ c.ty.wrap = <<"ref">>
       /\ c.ty.base \in {"ident", "path", "inst", "tuple"} -> "concrete-in-module"
    [] c.kind = "deps" /\ c.mode = "impl" /\ c.second.base = "generic" /\ c.ty.wrap = <<"ref">>
       /\ c.ty.base \in {"ident", "path", "inst", "tuple"} -> "concrete-in-impl"
    [] c.kind = "attr" /\ c.attr.lead \in {"T", "pub T", "TImpl"} /\ c.attr.trail = "" /\ Len(c.attr.opts) = 1
       /\ c.target # "impl" /\ c.attr.opts[1].k \in {"bogus", "?no_deps", "?export", "?debug"} /\ ~(c.target = "trait" /\ c.attr.lead = "") -> "unknown-option"
    [] c.kind = "attr" /\ c.attr.lead \in {"T", "pub T"} /\ c.attr.trail = "" /\ Len(c.attr.opts) = 1
       /\ c.attr.opts[1].k = "delegate_by" /\ ParseOpt(c.attr.opts[1]).err = "" -> "unsupported-option"
    [] c.kind = "attr" /\ c.target = "trait" /\ c.attr.lead = "" /\ c.attr.trail = "" /\ Len(c.attr.opts) = 1
       /\ c.attr.opts[1].k \in {"no_deps", "export"} /\ ParseOpt(c.attr.opts[1]).err = "" -> "unsupported-option"
    [] c.kind = "attr" /\ c.target = "trait" /\ c.attr.lead = "" /\ c.attr.trail = ""
       /\ c.attr.opts = <<Eq("delegate_by", "Custom")>> -> "custom-delegate-without-target-trait"
    [] c.kind = "attr" /\ c.target = "trait" /\ c.attr.lead = "TImpl" /\ c.attr.trail = "" /\ c.attr.opts = <<>>
       -> "target-trait-without-delegate-by"
    [] c.kind = "trait" /\ c.deleg = "custom-only" /\ c.extra = "none" -> "custom-delegate-without-target-trait"
    [] c.kind = "trait" /\ c.deleg = "target-only" /\ c.extra = "none" -> "target-trait-without-delegate-by"
    [] OTHER -> ""
\* (the name as the diagnostic quotes it: without the `?`)
OptName(c) == IF c.kind = "attr" /\ Len(c.attr.opts) >= 1
              THEN (CASE c.attr.opts[1].k = "?no_deps" -> "no_deps" [] c.attr.opts[1].k = "?export" -> "export" [] c.attr.opts[1].k = "?debug" -> "debug" [] OTHER -> c.attr.opts[1].k)
              ELSE ""

AllCases == AttrCasesOK \cup ItemCases \cup DepsCasesOK \cup TraitCases \cup PatCasesOK \cup GenCases \cup ImplPathCases

\* ---- the machine: each case is driven to its outcome in named steps
VARIABLES c, pc, out
vars == <<c, pc, out>>
Init == c \in AllCases /\ pc = "classify" /\ out = Ok
ClassifyItem == /\ pc = "classify"
                /\ IF c.kind = "item" THEN out' = OutcomeItem(c) /\ pc' = "done"
                   ELSE out' = out /\ pc' = (CASE c.kind = "attr" -> "attr" [] c.kind = "deps" -> "analyze" [] c.kind = "pat" -> "params" [] c.kind = "gen" -> "generics" [] c.kind = "implpath" -> "implheader" [] OTHER -> "trait")
                /\ UNCHANGED c
ParseAttr    == pc = "attr" /\ out' = OutcomeAttr(c) /\ pc' = "done" /\ UNCHANGED c
AnalyzeFnDeps == pc = "analyze" /\ out' = OutcomeDeps(c) /\ pc' = "done" /\ UNCHANGED c
TraitChecks  == pc = "trait" /\ out' = OutcomeTrait(c) /\ pc' = "done" /\ UNCHANGED c
FixParamIdents == pc = "params" /\ out' = OutcomePat(c) /\ pc' = "done" /\ UNCHANGED c
CollectGenerics == pc = "generics" /\ out' = Ok /\ pc' = "done" /\ UNCHANGED c
ParseImplHeader == pc = "implheader" /\ out' = OutcomeImplPath(c) /\ pc' = "done" /\ UNCHANGED c
Next == ClassifyItem \/ ParseAttr \/ AnalyzeFnDeps \/ TraitChecks \/ FixParamIdents \/ CollectGenerics \/ ParseImplHeader
Spec == Init /\ [][Next]_vars

NeverPanics == out.outcome # "panic"
\* every documented misuse is rejected, with its own error class
MisuseRejected == pc = "done" /\ Fault(c) # "" => out.outcome = "error" /\ out.class = Fault(c)

CaseRec(x) == [ c |-> x, pred |-> Outcome(x), fault |-> Fault(x), optname |-> OptName(x),
                attrtext |-> IF x.kind = "attr" THEN AttrText(x.target, x.attr) ELSE "",
                paramtext |-> IF x.kind = "deps" THEN ParamText(x.ty) ELSE "",
                secondtext |-> IF x.kind = "deps" THEN ParamText(x.second) ELSE "",
                ptext |-> IF x.kind = "pat" THEN PText(x.sym, 1, x.f) ELSE "", fname |-> IF x.kind = "pat" THEN NText(x.f) ELSE "" ]
ASSUME DumpCases => ndJsonSerialize(IOEnv.OUT, SetToSeq({ CaseRec(x) : x \in AllCases }))
ASSUME PrintT(<<"CASES", Cardinality(AllCases), "FAULTS", Cardinality({ x \in AllCases : Fault(x) # "" })>>)
=============================================================================
