------------------------------- MODULE Session -------------------------------
(***************************************************************************)
(* M3, the compiler session: rustc calls the macro many times per process, *)
(* in an order and a process layout the user does not control.             *)
(* State: what the macro could remember.                                   *)
(*   memo   the outputs seen so far, by key = (variant, attribute, item)   *)
(*   live   the processes currently running, each with its next sequence   *)
(*          number                                                         *)
(* Level 1 (C20): the relation key -> output is functional over the whole  *)
(* history, across processes and orders.                                   *)
(***************************************************************************)
EXTENDS TLC, Naturals, FiniteSets, Sequences
CONSTANTS Keys, Outs, Procs, MaxSeq

VARIABLES memo, live, hist
vars == <<memo, live, hist>>

Init == memo = [k \in {} |-> 0] /\ live = [p \in {} |-> 0] /\ hist = {}
StartProcess(p) == /\ p \notin DOMAIN live /\ live' = live @@ (p :> 0) /\ UNCHANGED <<memo, hist>>
EndProcess(p)   == /\ p \in DOMAIN live /\ live' = [q \in DOMAIN live \ {p} |-> live[q]] /\ UNCHANGED <<memo, hist>>
\* one invocation: the guard IS the property - an output for a key seen before must be the one seen before
Invoke(p, k, o) == /\ p \in DOMAIN live /\ live[p] < MaxSeq
                   /\ (k \in DOMAIN memo => o = memo[k])
                   /\ memo' = IF k \in DOMAIN memo THEN memo ELSE memo @@ (k :> o)
                   /\ live' = [live EXCEPT ![p] = @ + 1]
                   /\ hist' = hist \cup {<<k, o>>}
Next == \E p \in Procs : StartProcess(p) \/ EndProcess(p) \/ \E k \in Keys, o \in Outs : Invoke(p, k, o)
Spec == Init /\ [][Next]_vars

Functional == \A a, b \in hist : a[1] = b[1] => a[2] = b[2]
MemoIsHist == \A k \in DOMAIN memo : <<k, memo[k]>> \in hist

\* ---- an impure macro (a per-process counter leaking into the output): used to show that
\* `Functional` is not vacuous - TLC must find a violation for ImpureSpec
ImpureInvoke(p, k) == /\ p \in DOMAIN live /\ live[p] < MaxSeq
                      /\ LET o == live[p] IN hist' = hist \cup {<<k, o>>} /\ memo' = memo
                      /\ live' = [live EXCEPT ![p] = @ + 1]
ImpureNext == \E p \in Procs : StartProcess(p) \/ EndProcess(p) \/ \E k \in Keys : ImpureInvoke(p, k)
ImpureSpec == Init /\ [][ImpureNext]_vars
=============================================================================
