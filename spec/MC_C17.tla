------------------------------- MODULE MC_C17 -------------------------------
(***************************************************************************)
(* Bounded exploration of the attribute parser (Opts) for C17:             *)
(*  - the parse machine, one step per option token, over all well-formed   *)
(*    option lists up to MaxOpts (distinct keys), four targets, both macro *)
(*    names and both feature settings;                                     *)
(*  - the metamorphic relations of the property hold on the model: the     *)
(*    front end's result (options after fallbacks) is constant on each     *)
(*    equivalence pair;                                                    *)
(*  - dump of all pairs and of the per-target acceptance cases for replay. *)
(***************************************************************************)
EXTENDS Opts, Json, IOUtils
CONSTANTS MaxOpts, DumpCases
R == INSTANCE Req

Targets == {"fn", "mod", "trait", "impl"}
Macros  == {"entrait", "entrait_export"}
\* well-formed option tokens per key (each key once per list)
WF == [ no_deps |-> {Bare("no_deps"), Eq("no_deps", "true"), Eq("no_deps", "false")},
        export  |-> {Bare("export"), Eq("export", "true"), Eq("export", "false")},
        unimock |-> {Bare("unimock"), Eq("unimock", "true"), Eq("unimock", "false")},
        mockall |-> {Bare("mockall"), Eq("mockall", "false")},
        mock_api |-> {Eq("mock_api", "Mk")},
        send    |-> {Bare("?Send"), Eq("?Send", "true"), Eq("?Send", "false")},
        debug   |-> {Eq("debug", "false")},
        delegate |-> {Eq("delegate_by", "ref"), Eq("delegate_by", "Self")} ]
KeysFor(target) == CASE target = "fn" -> {"no_deps", "export", "unimock", "mockall", "mock_api", "send", "debug"}
                     [] target = "mod" -> {"export", "unimock", "mockall", "mock_api", "send"}
                     [] target = "trait" -> {"unimock", "mockall", "mock_api", "send", "delegate"}
                     [] target = "impl" -> {"debug"}
KeySeqs(target) == { ks \in UNION { [1..n -> KeysFor(target)] : n \in 0..MaxOpts } : \A i, j \in DOMAIN ks : i # j => ks[i] # ks[j] }
OptLists(target) == UNION { { os \in [DOMAIN ks -> UNION { WF[k] : k \in KeysFor(target) }] : \A i \in DOMAIN ks : os[i] \in WF[ks[i]] } : ks \in KeySeqs(target) }
LeadOf(target) == CASE target \in {"fn", "mod"} -> "pub T" [] OTHER -> ""
Attr(target, os) == [lead |-> LeadOf(target), opts |-> os, trail |-> ""]
KeyOf(t) == t.k
HasKey(os, k) == \E i \in DOMAIN os : os[i].k = k

Inv(target, os, macro, feature) == [target |-> target, attr |-> Attr(target, os), macro |-> macro, feature |-> feature]
BasesOK == UNION { { Inv(t, os, m, f) : os \in OptLists(t), m \in Macros, f \in BOOLEAN } : t \in Targets }

\* ---- transformations (the relations of the statement)
SetOpts(b, os) == [b EXCEPT !.attr.opts = os]
BareTrue(b) == { [rel |-> "bare=true", left |-> b, right |-> SetOpts(b, [b.attr.opts EXCEPT ![i] = IF @.f = "bare" THEN Eq(@.k, "true") ELSE Bare(@.k)])]
                 : i \in { j \in DOMAIN b.attr.opts : b.attr.opts[j].k \in (BoolKeys \cup {"?Send"}) /\ (b.attr.opts[j].f = "bare" \/ b.attr.opts[j].v = "true") } }
FalseOmitted(b) == { [rel |-> "false=omitted", left |-> b, right |-> SetOpts(b, InsertAt(b.attr.opts, j, Eq(k, "false")))]
                     : j \in 1..(Len(b.attr.opts) + 1),
                       k \in { kk \in {"no_deps", "export"} : /\ ~HasKey(b.attr.opts, kk) /\ kk \in Accepted(b.target)
                                                             /\ (kk = "export" => b.macro = "entrait") } }
Order(b) == IF Len(b.attr.opts) < 2 THEN {}
            ELSE { [rel |-> "order", left |-> b, right |-> SetOpts(b, Reverse(b.attr.opts))],
                   [rel |-> "order", left |-> b, right |-> SetOpts(b, Tail(b.attr.opts) \o <<Head(b.attr.opts)>>)] }
\* (trait targets: `export` is not an option there, the trait parser rejects it - but the `entrait_export` variant is accepted and its
\*  fallback takes effect, so the two sides differ: the named deviation "export-variant-on-trait", see Class below)
ExportVariant(b) == IF b.macro = "entrait_export" /\ ~HasKey(b.attr.opts, "export") /\ b.target \in {"fn", "mod", "trait"}
                    THEN { [rel |-> "export-variant", left |-> b,
                            right |-> [SetOpts(b, Append(b.attr.opts, Bare("export"))) EXCEPT !.macro = "entrait"]] } ELSE {}
UnimockFeature(b) == IF b.feature /\ ~HasKey(b.attr.opts, "unimock") /\ b.target \in {"fn", "mod", "trait"}
                     THEN { [rel |-> "unimock-feature", left |-> b,
                             right |-> [SetOpts(b, Append(b.attr.opts, Bare("unimock"))) EXCEPT !.feature = FALSE]] } ELSE {}
\* "unless args sets it explicitly": with an explicit value (true OR false) the variant / the feature changes nothing
ExplicitOverVariant(b) ==
  (IF b.macro = "entrait_export" /\ HasKey(b.attr.opts, "export") /\ b.target \in {"fn", "mod"}
   THEN { [rel |-> "explicit-export", left |-> b, right |-> [b EXCEPT !.macro = "entrait"]] } ELSE {})
  \cup (IF b.feature /\ HasKey(b.attr.opts, "unimock") /\ b.target \in {"fn", "mod", "trait"}
        THEN { [rel |-> "explicit-unimock", left |-> b, right |-> [b EXCEPT !.feature = FALSE]] } ELSE {})
PairsOf(b) == BareTrue(b) \cup FalseOmitted(b) \cup Order(b) \cup ExportVariant(b) \cup UnimockFeature(b) \cup ExplicitOverVariant(b)

FE(b) == FrontEnd(b.target, b.attr, b.macro, b.feature)

\* ---- acceptance cases: every single option token, well- and ill-formed, on every target
AllToks == UNION { WF[k] : k \in DOMAIN WF } \cup
           { Eq("no_deps", "false"), Eq("export", "false"), Eq("mockall", "true"), Eq("debug", "true"), Bare("debug"),
             Eq("unimock", "maybe"), Bare("mock_api"), Bare("?Sized"), Bare("?no_deps"), Bare("?export"), Eq("?unimock", "false"), Bare("bogus"), Bare("delegate_by"),
             Eq("delegate_by", "Borrow"), Eq("delegate_by", "Custom"), Eq("delegate_by", "type") }
TableKey(t) == IF t.k \in {"?Send", "?Sized"} THEN t.k ELSE t.k
WellFormed(t) == ParseOpt(t).err = ""
\* on a trait `delegate_by = Custom` needs a target trait and vice versa: give it one so that only the option is judged
AccLead(target, t) == IF target = "trait" /\ t.k = "delegate_by" /\ t.v = "Custom" THEN "TImpl" ELSE LeadOf(target)
AccCases == { [target |-> tg, tok |-> t, attr |-> [lead |-> AccLead(tg, t), opts |-> <<t>>, trail |-> ""]] : tg \in Targets, t \in AllToks }
AccPred(c) == FrontEnd(c.target, c.attr, "entrait", FALSE).err

\* ------------------------------------------------------------------------
\* the parse machine
\* ------------------------------------------------------------------------
VARIABLES b, st, pos, pc
vars == <<b, st, pos, pc>>
Init == /\ b \in BasesOK
        /\ LET lr == LeadResult(b.target, b.attr) IN
           /\ st = [opts |-> NoOpts, err |-> lr.err, impltrait |-> lr.impltrait] /\ pos = 1 + lr.skip
        /\ pc = "opts"
ParseOneOpt == /\ pc = "opts" /\ pos <= Len(b.attr.opts)
               /\ st' = Step(b.target, st, b.attr.opts[pos]) /\ pos' = pos + 1 /\ UNCHANGED <<b, pc>>
EndOfOpts   == /\ pc = "opts" /\ pos > Len(b.attr.opts)
               /\ st' = IF b.target = "trait" THEN TraitSemantic(st) ELSE st
               /\ pc' = "fallbacks" /\ UNCHANGED <<b, pos>>
ApplyVariantFallbacks ==
               /\ pc = "fallbacks"
               /\ st' = [st EXCEPT !.opts = IF st.err = "" THEN ApplyFallbacks(@, Variant(b.macro, b.feature)) ELSE @]
               /\ pc' = "done" /\ UNCHANGED <<b, pos>>
Next == ParseOneOpt \/ EndOfOpts \/ ApplyVariantFallbacks
Spec == Init /\ [][Next]_vars

StepwiseIsFrontEnd == pc = "done" => st = FE(b)
\* well-formed, on-table lists are accepted (trait: unless a target trait/delegate_by mismatch)
WellFormedAccepted == pc = "done" /\ b.target # "trait" => st.err = ""
\* explicit values survive the variant fallbacks
ExplicitWins == pc = "done" /\ st.err = "" =>
                  \A i \in DOMAIN b.attr.opts : LET r == ParseOpt(b.attr.opts[i]) IN
                     (\A j \in DOMAIN b.attr.opts : j > i => ParseOpt(b.attr.opts[j]).key # r.key) => st.opts[r.key] = r.val
\* C17 at design level: the front end is constant on every metamorphic pair
\* named deviations of the code from Level 1; "" = none known for this pair
Class(p) == IF p.rel = "export-variant" /\ p.left.target = "trait" /\ FE(p.left).err = "" THEN "export-variant-on-trait" ELSE ""
Metamorphic == pc = "done" => \A p \in PairsOf(b) : Class(p) = "" => Effective(FE(p.left)) = Effective(FE(p.right))
\* the deviation is what it is said to be: the macro variant is accepted where the option is rejected
DeviationIsRejection == pc = "done" => \A p \in PairsOf(b) : Class(p) # "" => FE(p.left).err = "" /\ FE(p.right).err = "unsupported-option"

\* ---- dumps
AllPairs == UNION { PairsOf(bb) : bb \in BasesOK }
InvRec(i) == [target |-> i.target, macro |-> i.macro, feature |-> i.feature, text |-> AttrText(i.target, i.attr)]
PairRec(p) == [kind |-> "pair", rel |-> p.rel, left |-> InvRec(p.left), right |-> InvRec(p.right),
               prederr |-> FE(p.left).err, cls |-> Class(p)]
AccRec(c) == [kind |-> "accept", target |-> c.target, key |-> c.tok.k, wellformed |-> WellFormed(c.tok),
              text |-> AttrText(c.target, c.attr), prederr |-> AccPred(c)]
ASSUME DumpCases => ndJsonSerialize(IOEnv.OUT, SetToSeq({ PairRec(p) : p \in AllPairs }) \o SetToSeq({ AccRec(c) : c \in AccCases }))
ASSUME PrintT(<<"BASES", Cardinality(BasesOK), "PAIRS", Cardinality(AllPairs), "ACCEPT", Cardinality(AccCases)>>)
=============================================================================
