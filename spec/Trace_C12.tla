------------------------------ MODULE Trace_C12 ------------------------------
(* Trace validation for C12: one event per input; the observation joins the compile witnesses (V) with the    *)
(* projected async signature of the emitted trait and the attributes of the generated items (X).             *)
EXTENDS TraceLib
R == INSTANCE Req
VARIABLES l, bad, drift
vars == <<l, bad, drift>>
Fields == {"expanded", "base_compiles", "w_output", "w_send", "w_nonsend_body", "kept_async", "futout", "futsend", "attr_on_trait", "attr_on_impls", "attr_on_item"}
Init == l = 1 /\ bad = {} /\ drift = {}
Step == /\ l <= Len(Rec) /\ l' = l + 1
        /\ LET e == Rec[l] IN
           /\ bad' = bad \cup { [case |-> e.case, conjunct |-> c, cls |-> e.cls] : c \in R!C12_Fail(e.l1, e.obs) }
           /\ drift' = drift \cup { [case |-> e.case, field |-> f] : f \in { g \in Fields : e.obs[g] # e.pred[g] } }
Spec == Init /\ [][Step]_vars
RegC == Reg(l, bad, drift)
=============================================================================
