-------------------------------- MODULE Opts --------------------------------
(***************************************************************************)
(* M1, stage "parse the attribute arguments"                               *)
(* (entrait_macros/src/opt.rs, entrait_fn/input_attr.rs,                   *)
(*  entrait_trait/input_attr.rs, entrait_impl/input_attr.rs, lib.rs        *)
(*  set_fallbacks).                                                        *)
(*                                                                         *)
(* An attribute is [lead, opts, trail]:                                    *)
(*   lead  what precedes the options: visibility + trait name (fn, mod),   *)
(*         optional delegation-target trait (trait), `ref`/`dyn` (impl)    *)
(*   opts  a sequence of option tokens [k, f, v]: key, form ("bare"/"eq"), *)
(*         value text                                                      *)
(*   trail "" or "," (a trailing comma)                                    *)
(* Option values are modelled as the code holds them, Option<SpanOpt<_>>:  *)
(* "absent" / "true" / "false" - presence and value are different things   *)
(* (set_fallbacks looks at presence).  Later duplicates overwrite.         *)
(***************************************************************************)
EXTENDS TLC, Sequences, Naturals, FiniteSets, SequencesExt

BoolKeys == {"no_deps", "debug", "export", "unimock", "mockall"}
Keywords == {"type", "fn", "match", "dyn", "impl"}      \* Rust keywords that can be written where an identifier is expected
\* option names written with a leading `?` (only `?Send` is an option; the others are unknown options, and no identifiers)
QuestionKeys == {"?Send", "?Sized", "?no_deps", "?export", "?debug", "?unimock", "?mockall"}
Bare(k)   == [k |-> k, f |-> "bare", v |-> ""]
Eq(k, v)  == [k |-> k, f |-> "eq", v |-> v]

OptText(t) == IF t.f = "bare" THEN t.k ELSE t.k \o " = " \o t.v
RECURSIVE JoinFrom(_, _, _)
JoinFrom(ts, i, sep) == IF i > Len(ts) THEN "" ELSE (IF i > 1 THEN sep ELSE "") \o OptText(ts[i]) \o JoinFrom(ts, i + 1, sep)
\* the text inside #[entrait( ... )] as the user writes it, per target
AttrText(target, a) ==
  LET os == JoinFrom(a.opts, 1, ", ") IN
  CASE target \in {"fn", "mod"} -> a.lead \o (IF a.opts = <<>> THEN "" ELSE ", " \o os) \o a.trail
    [] target = "trait" -> (IF a.lead = "" THEN os ELSE a.lead \o (IF a.opts = <<>> THEN "" ELSE ", " \o os)) \o a.trail
    [] target = "impl"  -> (IF a.lead = "" THEN os ELSE a.lead \o (IF a.opts = <<>> THEN "" ELSE " " \o os)) \o a.trail

\* ------------------------------------------------------------------------
\* EntraitOpt::parse on one option token
\* ------------------------------------------------------------------------
NoOpts == [no_deps |-> "absent", debug |-> "absent", export |-> "absent", unimock |-> "absent", mockall |-> "absent",
           mock_api |-> "absent", future_send |-> "absent", delegate |-> "absent"]

ParseOpt(t) ==   \* [err, key, val]
  CASE t.k \in BoolKeys ->
         IF t.f = "bare" THEN [err |-> "", key |-> t.k, val |-> "true"]
         ELSE IF t.v \in {"true", "false"} THEN [err |-> "", key |-> t.k, val |-> t.v]
         ELSE [err |-> "syntax", key |-> "", val |-> ""]                       \* expected boolean literal
    [] t.k = "mock_api" ->
         IF t.f = "eq" THEN [err |-> "", key |-> "mock_api", val |-> t.v]
         ELSE [err |-> "syntax", key |-> "", val |-> ""]                       \* expected `=`
    \* `?Send` / `?Send = true`: no Send bound (future_send = "false"); `?Send = false`: the default (since a "fix:" commit - the
    \* `= value` form used to be a syntax error)
    [] t.k = "?Send"  -> IF t.f = "bare" THEN [err |-> "", key |-> "future_send", val |-> "false"]
                         ELSE IF t.v \in {"true", "false"} THEN [err |-> "", key |-> "future_send", val |-> IF t.v = "true" THEN "false" ELSE "true"]
                         ELSE [err |-> "syntax", key |-> "", val |-> ""]
    [] t.k = "?Sized" -> [err |-> "unknown-option", key |-> "", val |-> ""]
    [] t.k = "delegate_by" ->
         IF t.f = "bare" THEN [err |-> "", key |-> "delegate", val |-> "self"]
         \* the value is `ref`, the keyword `Self`, or an identifier: any other keyword is no identifier
         ELSE IF t.v \in Keywords THEN [err |-> "syntax", key |-> "", val |-> ""]
         ELSE [err |-> "", key |-> "delegate",
               val |-> CASE t.v = "Self" -> "self" [] t.v = "ref" -> "ref" [] t.v = "Borrow" -> "borrow" [] OTHER -> "custom"]
    [] OTHER -> [err |-> "unknown-option", key |-> "", val |-> ""]             \* Unkonwn entrait option "x"

\* per-target accepted option sets (the `match` arms of the three attribute parsers)
Accepted(target) ==
  CASE target \in {"fn", "mod"} -> {"no_deps", "debug", "export", "future_send", "mock_api", "unimock", "mockall"}
    [] target = "trait"         -> {"debug", "mock_api", "future_send", "unimock", "mockall", "delegate"}
    [] target = "impl"          -> {"debug"}

\* ------------------------------------------------------------------------
\* the parse as a machine state: [pos, opts, err, impltrait]; one ParseOneOpt step per option
\* ------------------------------------------------------------------------
\* what the lead contributes / requires
LeadResult(target, a) ==
  CASE target \in {"fn", "mod"} ->
         \* visibility, then the trait identifier is mandatory
         IF a.lead \in {"", "pub", "pub(crate)"} THEN [err |-> "syntax", impltrait |-> "", skip |-> 0]
         ELSE [err |-> "", impltrait |-> "", skip |-> 0]
    [] target = "trait" ->
         IF a.lead # "" THEN [err |-> "", impltrait |-> a.lead, skip |-> 0]
         ELSE IF a.opts = <<>> THEN [err |-> "", impltrait |-> "", skip |-> 0]
         \* no explicit lead: the first option token is tried as an option on a fork; if THAT fails it is
         \* taken for `visibility? Ident` of a delegation-target trait
         ELSE IF ParseOpt(a.opts[1]).err = "" THEN [err |-> "", impltrait |-> "", skip |-> 0]
         ELSE IF a.opts[1].k \in QuestionKeys THEN [err |-> "syntax", impltrait |-> "", skip |-> 0]   \* `?` is no identifier
         ELSE IF a.opts[1].f = "bare" THEN [err |-> "", impltrait |-> a.opts[1].k, skip |-> 1]
         ELSE [err |-> "syntax", impltrait |-> a.opts[1].k, skip |-> 1]     \* `key = junk`: ident taken, then `= junk` is no option
    [] target = "impl" -> [err |-> "", impltrait |-> "", skip |-> 0]

Step(target, st, t) ==   \* one iteration of the option loop on token t
  IF st.err # "" THEN st
  ELSE LET r == ParseOpt(t) IN
       IF r.err # "" THEN [st EXCEPT !.err = r.err]
       ELSE IF r.key \notin Accepted(target) THEN [st EXCEPT !.err = "unsupported-option"]
       ELSE [st EXCEPT !.opts = [@ EXCEPT ![r.key] = r.val]]

RECURSIVE Loop(_, _, _, _)
Loop(target, st, ts, i) == IF i > Len(ts) THEN st ELSE Loop(target, Step(target, st, ts[i]), ts, i + 1)

Parse(target, a) ==
  LET lr == LeadResult(target, a)
      s0 == [opts |-> NoOpts, err |-> lr.err, impltrait |-> lr.impltrait]
      s1 == Loop(target, s0, a.opts, 1 + lr.skip)
      \* a trailing comma makes the option loop ask for one more option; only the comma right after a trait's
      \* delegation-target ident is optional
      commaOk == target = "trait" /\ lr.impltrait # "" /\ Len(a.opts) = lr.skip
  IN IF s1.err = "" /\ a.trail = "," /\ ~commaOk THEN [s1 EXCEPT !.err = "syntax"] ELSE s1

\* semantic checks of the trait target after parsing (entrait_trait/mod.rs)
TraitSemantic(p) ==
  IF p.err # "" THEN p
  ELSE IF p.impltrait = "" /\ p.opts.delegate = "custom" THEN [p EXCEPT !.err = "custom-delegate-without-target-trait"]
  ELSE IF p.impltrait # "" /\ p.opts.delegate \in {"absent", "self"} THEN [p EXCEPT !.err = "target-trait-without-delegate-by"]
  ELSE p

\* ------------------------------------------------------------------------
\* macro variants: fallbacks on ABSENT options only (lib.rs set_fallbacks; src/lib.rs feature aliasing)
\* ------------------------------------------------------------------------
Variant(macro, feature) ==
  CASE macro = "entrait" /\ ~feature -> "entrait"
    [] macro = "entrait" /\ feature  -> "entrait_unimock"
    [] macro = "entrait_export" /\ ~feature -> "entrait_export"
    [] macro = "entrait_export" /\ feature  -> "entrait_export_unimock"
Fallback(o, key) == IF o[key] = "absent" THEN [o EXCEPT ![key] = "true"] ELSE o
ApplyFallbacks(o, variant) ==
  CASE variant = "entrait" -> o
    [] variant = "entrait_export" -> Fallback(o, "export")
    [] variant = "entrait_unimock" -> Fallback(o, "unimock")
    [] variant = "entrait_export_unimock" -> Fallback(Fallback(o, "export"), "unimock")

\* the complete front end: what the rest of the pipeline sees
FrontEnd(target, a, macro, feature) ==
  LET p0 == Parse(target, a)
      p  == IF target = "trait" THEN TraitSemantic(p0) ELSE p0 IN
  [p EXCEPT !.opts = IF p.err = "" THEN ApplyFallbacks(p.opts, Variant(macro, feature)) ELSE p.opts]

\* ---- derived values, as the code derives them
IsTrue(v)       == v = "true"
ExportValue(o)  == IsTrue(o.export)
UnimockValue(o) == IsTrue(o.unimock)
MockallValue(o) == IsTrue(o.mockall)
NoDepsValue(o)  == IsTrue(o.no_deps)
FutureSend(o)   == o.future_send # "false"
\* Opts::mockable(): looks at the values (since the "fix:" commit recorded in known_findings.json;
\* before, `unimock = false` / `mockall = false` counted as mock support because only presence was tested)
Mockable(o)     == (UnimockValue(o) /\ o.mock_api # "absent") \/ MockallValue(o)
\* which mock derivations gen_trait_def attaches (UnimockAttrParams::is_empty: fn/mod need a mock_api)
UnimockAttr(target, o) == UnimockValue(o) /\ (target = "trait" \/ o.mock_api # "absent")
MockallAttr(o)         == MockallValue(o)
Gated(o)               == ~ExportValue(o)
\* everything the rest of the pipeline can observe of the options (values, not presence - except where the
\* code itself looks at presence: Mockable)
Effective(p) == [ err |-> p.err, impltrait |-> p.impltrait,
                  no_deps |-> NoDepsValue(p.opts), export |-> ExportValue(p.opts), unimock |-> UnimockValue(p.opts),
                  mockall |-> MockallValue(p.opts), mock_api |-> p.opts.mock_api, send |-> FutureSend(p.opts),
                  delegate |-> IF p.opts.delegate = "absent" THEN "self" ELSE p.opts.delegate,
                  mockable |-> Mockable(p.opts) ]
=============================================================================
