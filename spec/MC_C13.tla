------------------------------- MODULE MC_C13 -------------------------------
(***************************************************************************)
(* C13: requested visibilities x item visibilities x fn / mod / trait      *)
(* inputs x probe locations.  Level 2 (trait_codegen.rs TraitVisibility,   *)
(* entrait_fn::entrait_for_mod, entrait_trait gen_impl_delegation_trait_   *)
(* defs): where the generated trait ends up and with which visibility:     *)
(*   fn    : `vis trait T` next to the function                            *)
(*   mod   : inside the module, `pub(super) trait T` when no visibility    *)
(*           was requested, else `vis trait T`; plus `vis use m::T;` next   *)
(*           to the module (the name the user sees); the trait itself is    *)
(*           also reachable as m::T and must not be wider there either      *)
(*   trait : the delegation-target trait copies the trait's visibility     *)
(* The accessibility of the user-visible name is computed on that          *)
(* structure and compared with Level 1 (Req!Accessible of the REQUEST).    *)
(***************************************************************************)
EXTENDS TLC, Sequences, Naturals, FiniteSets, SequencesExt, Json, IOUtils
CONSTANTS DumpCases, Deep
R == INSTANCE Req

Modes == {"fn", "mod", "trait"}
VisFor(mode) == IF mode = "fn" THEN {"", "pub", "pub(crate)", "pub(super)", "pub(in crate::cases)", "pub(in crate::cases::p)"} ELSE IF mode = "mod" THEN {"", "pub", "pub(crate)", "pub(super)"} \cup (IF Deep THEN {"pub(self)", "pub(in crate::cases)"} ELSE {})
                ELSE {"", "pub", "pub(crate)"} \cup (IF Deep THEN {"pub(super)", "pub(in crate::cases)"} ELSE {})
\* the item's own visibility (fn, mod); for trait inputs: the visibility keyword written in the attribute before the
\* delegation-target trait's name - neither may influence the generated trait's visibility
ItemVis == {"", "pub", "pub(crate)"}
\* "cousin": a module of the same crate outside the parent of D (a sibling of the parent)
Locs == {"same", "child", "sibling", "parent", "cousin", "other-crate"}
\* via: the name the probe uses: "name" = the user-visible name D::T; "inmod" (module inputs only) = the trait itself, D::m::T -
\* probed only from locations that can name the module m at all, so that the verdict is about the trait
\*      "deleg" (trait inputs with `delegate_by = DelegateTr` only) = the generated delegation trait D::DelegateTr
\* exp: the invocation also exports its mocks (`export` option / the entrait_export macro) - that must not touch the visibility
Inputs0 == { i \in [mode : Modes, vis : UNION { VisFor(m) : m \in Modes }, itemvis : ItemVis, loc : Locs, via : {"name", "inmod", "deleg"}, exp : {"no", "option", "macro"}, inner : BOOLEAN] :
             \* inner: the entraited trait's body starts with an inner doc comment (`//! ..`): syn hands such a trait over with its
             \* attributes merged, the macro re-assembles the item - its visibility must survive that
             (i.inner => i.mode = "trait") /\
             i.vis \in VisFor(i.mode) /\ (i.via = "inmod" => i.mode = "mod") /\ (i.via = "deleg" => i.mode = "trait") /\ (i.exp # "no" => i.mode \in {"fn", "mod"} /\ (Deep \/ i.vis \in {"", "pub(crate)"})) }

P == <<"cases", "p">>
D == P \o <<"d">>
FromPath(loc) == CASE loc = "same" -> D [] loc = "child" -> D \o <<"child">> [] loc = "sibling" -> P \o <<"sibling">>
                   [] loc = "parent" -> P [] loc = "cousin" -> <<"cases", "q">> [] loc = "other-crate" -> <<>>
SameCrate(loc) == loc # "other-crate"

\* Level 2: the items the expansion defines, as [name, def (module path), vis]
Emitted(i) ==
  CASE i.mode = "fn"    -> { [name |-> "T", def |-> D, vis |-> i.vis] }
    [] i.mode = "mod"   -> { [name |-> "m::T", def |-> D \o <<"m">>,
                              \* relative visibilities are shifted one level (since a "fix:" commit)
                              vis |-> CASE i.vis = "" -> "pub(super)" [] i.vis = "pub(self)" -> "pub(super)" [] i.vis = "pub(super)" -> "pub(in super::super)" [] OTHER -> i.vis],
                             [name |-> "T", def |-> D, vis |-> i.vis] }          \* `vis use m::T;`
    [] i.mode = "trait" -> { [name |-> "T", def |-> D, vis |-> i.vis],           \* TrImpl: trait_copy.vis = the trait's visibility
                             \* the third trait of `delegate_by = DelegateTr` (`trait DelegateTr<T> { type Target: TrImpl<T>; }`)
                             \* goes with the other two (since a "fix:" commit; it used to be `pub` whatever the trait's visibility)
                             [name |-> "Deleg", def |-> D, vis |-> i.vis] }
\* naming D::T from a location: the item (or re-export) called T in D must be accessible; a re-export additionally needs its
\* target to be nameable from D itself (it always is: pub(super) of D::m is D)
Inputs == { i \in Inputs0 : i.via = "inmod" => R!Accessible(i.itemvis, D, FromPath(i.loc), SameCrate(i.loc)) }
PredAccessible(i) ==
  LET t == CHOOSE x \in Emitted(i) : x.name = (IF i.via = "inmod" THEN "m::T" ELSE IF i.via = "deleg" THEN "Deleg" ELSE "T") IN R!Accessible(t.vis, t.def, FromPath(i.loc), SameCrate(i.loc))
L1In(i) == [vis |-> i.vis, def |-> D, from |-> FromPath(i.loc), samecrate |-> SameCrate(i.loc)]

VARIABLES i, pc, items
vars == <<i, pc, items>>
Init == i \in Inputs /\ pc = "gen" /\ items = {}
GenTraitVisibility == pc = "gen" /\ items' = Emitted(i) /\ pc' = "probe" /\ UNCHANGED i
ResolveProbe == pc = "probe" /\ pc' = "done" /\ UNCHANGED <<i, items>>
Spec == Init /\ [][GenTraitVisibility \/ ResolveProbe]_vars
\* never wider, never narrower than requested - independent of the item's own visibility
Refines == pc = "done" => PredAccessible(i) = R!Accessible(i.vis, D, FromPath(i.loc), SameCrate(i.loc))
IndependentOfItemVis == \A a, b \in Inputs : (a.mode = b.mode /\ a.vis = b.vis /\ a.loc = b.loc /\ a.via = b.via /\ a.exp = b.exp /\ a.inner = b.inner) => PredAccessible(a) = PredAccessible(b)
ASSUME IndependentOfItemVis

ASSUME DumpCases => ndJsonSerialize(IOEnv.OUT, SetToSeq({ [in |-> x, l1 |-> L1In(x), expect |-> R!Accessible(x.vis, D, FromPath(x.loc), SameCrate(x.loc)),
                                                          pred |-> PredAccessible(x)] : x \in Inputs }))
=============================================================================
