SPECIFICATION Spec
CONSTANT DumpCases = TRUE
INVARIANTS Refines StepwiseIsPred
CHECK_DEADLOCK FALSE
