SPECIFICATION Spec
CONSTANTS
  DumpCases = TRUE
  MoreRets = FALSE
INVARIANTS Refines StepwiseIsPred
CHECK_DEADLOCK FALSE
