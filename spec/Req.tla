-------------------------------- MODULE Req --------------------------------
(***************************************************************************)
(* Level 1: the requirements.  One operator per property, a direct         *)
(* transcription of the statement in properties.jsonl over (abstract       *)
(* input, observation) and nothing else: nothing in here mentions how the  *)
(* macro works.  Each `Cxx_Fail(in, o)` is the SET of conjuncts of the     *)
(* statement that the observation `o` falsifies for input `in` (empty =    *)
(* the property holds on this case), so that one evaluation names what     *)
(* failed.  Where a statement is open to reading, the weaker reading is    *)
(* transcribed and the choice is noted next to the conjunct.               *)
(***************************************************************************)
EXTENDS TLC, Sequences, Naturals, FiniteSets, SequencesExt

Distinct1(sq, Eq(_, _)) == \A i, j \in 1..Len(sq) : i # j => ~Eq(sq[i], sq[j])
SameId(a, b) == a.base = b.base

(***************************************************************************)
(* C16  Generated parameter names are usable for every pattern list.       *)
(*  in : [binds: per parameter the user's bindings (names), plain: per     *)
(*        parameter "is it a plain binding", f: fn name, nodeps]           *)
(*  o  : [expanded, tkind/tname/tdeco: per generated trait-method          *)
(*        parameter, callee, callargs, selfarg, compiled]                  *)
(***************************************************************************)
C16_Conj == {"expands", "count", "plain", "distinct", "noshadow", "forward", "keep", "lift", "compiles"}
C16_Holds(c, in, o) ==
  LET n == Len(in.binds) IN
  CASE c = "expands"  -> o.expanded
    [] c = "count"    -> o.expanded => Len(o.tname) = n
    \* one plain identifier per parameter (no `mut`, `ref`, `@`, no pattern)
    [] c = "plain"    -> o.expanded => \A i \in 1..Len(o.tname) : o.tkind[i] = "ident" /\ o.tdeco[i] = ""
    [] c = "distinct" -> o.expanded => Distinct1(o.tname, SameId)
    [] c = "noshadow" -> o.expanded => \A i \in 1..Len(o.tname) : ~SameId(o.tname[i], in.f)
    \* forwarded positionally to the function itself
    [] c = "forward"  -> o.expanded =>
                           /\ o.callee = in.f.base
                           /\ o.selfarg = ~in.nodeps
                           /\ Len(o.callargs) = Len(o.tname)
                           /\ \A i \in 1..Len(o.tname) : SameId(o.callargs[i], o.tname[i])
    \* a plain binding keeps its name - unless that would shadow the function (first sentence wins)
    [] c = "keep"     -> o.expanded /\ Len(o.tname) = n =>
                           \A i \in 1..n : in.plain[i] /\ ~SameId(in.binds[i][1], in.f) => SameId(o.tname[i], in.binds[i][1])
    \* a destructuring pattern with a single binding takes that binding's name.  Reading: a "binding" is a
    \* lower-case identifier (constants and `_x` placeholders are not told apart by a macro); and the first
    \* sentence wins when the binding's name is the function's or another parameter's name
    [] c = "lift"     -> o.expanded /\ Len(o.tname) = n =>
                           \A i \in 1..n : ~in.plain[i] /\ Len(in.binds[i]) = 1 /\ in.binds[i][1].lc
                                           /\ ~SameId(in.binds[i][1], in.f)
                                           /\ (\A j \in 1..n : j # i /\ in.plain[j] => ~SameId(in.binds[j][1], in.binds[i][1]))
                                           => SameId(o.tname[i], in.binds[i][1])
    [] c = "compiles" -> o.compiled
C16_Fail(in, o) == { c \in C16_Conj : ~C16_Holds(c, in, o) }
=============================================================================
