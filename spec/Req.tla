-------------------------------- MODULE Req --------------------------------
(***************************************************************************)
(* Level 1: the requirements.  One operator per property, a direct         *)
(* transcription of the statement in properties.jsonl over (abstract       *)
(* input, observation) and nothing else: nothing in here mentions how the  *)
(* macro works.  Each `Cxx_Fail(in, o)` is the SET of conjuncts of the     *)
(* statement that the observation `o` falsifies for input `in` (empty =    *)
(* the property holds on this case), so that one evaluation names what     *)
(* failed.  Where a statement is open to reading, the weaker reading is    *)
(* transcribed and the choice is noted next to the conjunct.               *)
(***************************************************************************)
EXTENDS TLC, Sequences, Naturals, FiniteSets, SequencesExt

Distinct1(sq, Eq(_, _)) == \A i, j \in 1..Len(sq) : i # j => ~Eq(sq[i], sq[j])
SameId(a, b) == a.base = b.base

(***************************************************************************)
(* C16  Generated parameter names are usable for every pattern list.       *)
(*  in : [binds: per parameter the user's bindings (names), plain: per     *)
(*        parameter "is it a plain binding", f: fn name, nodeps]           *)
(*  o  : [expanded, tkind/tname/tdeco: per generated trait-method          *)
(*        parameter, callee, callargs, selfarg, compiled]                  *)
(***************************************************************************)
C16_Conj == {"expands", "count", "plain", "distinct", "noshadow", "forward", "keep", "lift", "compiles"}
C16_Holds(c, in, o) ==
  LET n == Len(in.binds) IN
  CASE c = "expands"  -> o.expanded
    [] c = "count"    -> o.expanded => Len(o.tname) = n
    \* one plain identifier per parameter (no `mut`, `ref`, `@`, no pattern)
    [] c = "plain"    -> o.expanded => \A i \in 1..Len(o.tname) : o.tkind[i] = "ident" /\ o.tdeco[i] = ""
    \* (including the parameters the macro inserts itself - `__impl` for the functions of an entraited impl block)
    [] c = "distinct" -> o.expanded => Distinct1(o.inserted \o o.tname, SameId)
    [] c = "noshadow" -> o.expanded => \A i \in 1..Len(o.tname) : ~SameId(o.tname[i], in.f)
    \* forwarded positionally to the function itself
    [] c = "forward"  -> o.expanded =>
                           /\ o.callee = in.f.base
                           /\ o.selfarg = ~in.nodeps
                           /\ Len(o.callargs) = Len(o.tname)
                           /\ \A i \in 1..Len(o.tname) : SameId(o.callargs[i], o.tname[i])
    \* a plain binding keeps its name - unless that would shadow the function or repeat the name of a parameter that
    \* the macro inserts itself (first sentence wins)
    [] c = "keep"     -> o.expanded /\ Len(o.tname) = n =>
                           \A i \in 1..n : in.plain[i] /\ ~SameId(in.binds[i][1], in.f)
                                           /\ (\A j \in DOMAIN o.inserted : ~SameId(o.inserted[j], in.binds[i][1]))
                                           => SameId(o.tname[i], in.binds[i][1])
    \* a destructuring pattern with a single binding takes that binding's name.  Reading: a "binding" is a
    \* lower-case identifier (constants and `_x` placeholders are not told apart by a macro); and the first
    \* sentence wins when the binding's name is the function's or another parameter's name
    [] c = "lift"     -> o.expanded /\ Len(o.tname) = n =>
                           \A i \in 1..n : ~in.plain[i] /\ Len(in.binds[i]) = 1 /\ in.binds[i][1].lc
                                           /\ ~SameId(in.binds[i][1], in.f)
                                           /\ (\A j \in 1..n : j # i /\ in.plain[j] => ~SameId(in.binds[j][1], in.binds[i][1]))
                                           => SameId(o.tname[i], in.binds[i][1])
    [] c = "compiles" -> o.compiled
C16_Fail(in, o) == { c \in C16_Conj : ~C16_Holds(c, in, o) }

(***************************************************************************)
(* C08  Module mode: the trait's methods are exactly the module's          *)
(*      non-private functions.                                             *)
(*  in : [truth: names of the functions declared directly in the module    *)
(*        with a visibility qualifier and a body, in source order;         *)
(*        ids: what each of them returns]                                  *)
(*  o  : [expanded, mnames: method names of the emitted trait, in order;   *)
(*        compiled: module + a client in the PARENT scope that names the   *)
(*        trait by the requested name; reached: what the client's calls of *)
(*        every expected method returned]                                  *)
(***************************************************************************)
C08_Conj == {"expands", "methods", "compiles", "reach"}
C08_Holds(c, in, o) ==
  CASE c = "expands"  -> o.expanded
    [] c = "methods"  -> o.expanded => o.mnames = in.truth
    [] c = "compiles" -> o.compiled
    [] c = "reach"    -> o.compiled => o.reached = in.ids
C08_Fail(in, o) == { c \in C08_Conj : ~C08_Holds(c, in, o) }

(***************************************************************************)
(* C02  Append-only: the annotated fn / mod / impl items are emitted       *)
(*      unchanged.  Pure token relations on interned token ids.            *)
(*  Reading: a token's identity is its kind and text; the spacing hint of  *)
(*  punctuation is not part of it where the macro legitimately re-parses   *)
(*  (signatures: `Option<&T>` is re-emitted with a free-standing `<`), but *)
(*  it is inside the opaque function body, where a lost joint flag would   *)
(*  tear operators like `&&` or `..=` apart ("body-spacing").              *)
(*  in : [kind \in {"fn","mod","impl"}, toks: the input item,              *)
(*        sp: the same with spacing, bodyFrom: index of the fn body group, *)
(*        close: index of the module's closing brace (mod),                *)
(*        keep: for impl blocks the tokens that must open the output:      *)
(*              attributes (minus async_trait, which entrait moves) ++     *)
(*              `unsafe`? ++ `impl` ++ self type ++ the brace group]       *)
(*  o  : [expanded (the macro accepted the item), out / outsp: output      *)
(*        tokens, closeOut: index in `out` of the brace matching the one   *)
(*        that opens the module body, 0 if none]                           *)
(* The property speaks about accepted items only.                          *)
(***************************************************************************)
C02_Conj == {"fn-prefix", "body-spacing", "mod-prefix", "mod-brace", "impl-beside"}
C02_Holds(c, in, o) ==
  CASE c = "fn-prefix"   -> o.expanded /\ in.kind = "fn" => IsPrefix(in.toks, o.out)
    [] c = "body-spacing" -> o.expanded /\ in.kind = "fn" =>
                               /\ Len(o.outsp) >= Len(in.sp)
                               /\ SubSeq(o.outsp, in.bodyFrom, Len(in.sp)) = SubSeq(in.sp, in.bodyFrom, Len(in.sp))
    \* everything up to the closing brace is the input, unaltered ...
    [] c = "mod-prefix"  -> o.expanded /\ in.kind = "mod" =>
                               /\ Len(o.out) >= in.close - 1
                               /\ SubSeq(o.out, 1, in.close - 1) = SubSeq(in.toks, 1, in.close - 1)
    \* ... and what is generated sits at the end of the module (before its own closing brace) or after it
    [] c = "mod-brace"   -> o.expanded /\ in.kind = "mod" => o.closeOut >= in.close
    [] c = "impl-beside" -> o.expanded /\ in.kind = "impl" => IsPrefix(in.keep, o.out)
C02_Fail(in, o) == { c \in C02_Conj : ~C02_Holds(c, in, o) }

(***************************************************************************)
(* C17  Options mean what the table says; macro variants are shorthands.   *)
(*  Metamorphic: two invocations of the SAME item related by one of        *)
(*   "bare=true"     an option written bare vs `= true`                    *)
(*   "false=omitted" `no_deps = false` / `export = false` inserted         *)
(*   "order"         the options permuted                                  *)
(*   "export-variant"  entrait_export(a) vs entrait(a, export)             *)
(*   "unimock-feature" feature-on entrait(a) vs feature-off (a, unimock)   *)
(*  must produce identical output tokens (e.left = e.right).               *)
(*  Acceptance: an option documented for the target is accepted, one       *)
(*  documented only for other targets (or unknown) is rejected.  Reading:  *)
(*  the table (src/lib.rs) does not mention `debug`, and lists `no_deps`   *)
(*  for `fn` while module mode is described as grouping such functions:    *)
(*  those two cells carry no requirement.                                  *)
(***************************************************************************)
C17_Table(target) ==
  CASE target = "fn"    -> {"no_deps", "export", "mock_api", "unimock", "mockall", "?Send"}
    [] target = "mod"   -> {"export", "mock_api", "unimock", "mockall", "?Send"}
    [] target = "trait" -> {"mock_api", "unimock", "mockall", "delegate_by", "?Send"}
    [] target = "impl"  -> {}
C17_Unspecified(target) == IF target = "mod" THEN {"debug", "no_deps"} ELSE {"debug"}
C17_Conj == {"same-expansion", "accepted-on-table", "rejected-off-table"}
C17_Holds(c, e) ==
  CASE c = "same-expansion"     -> e.kind = "pair" => e.left = e.right
    [] c = "accepted-on-table"  -> e.kind = "accept" /\ e.wellformed /\ e.key \in C17_Table(e.target) => e.accepted
    [] c = "rejected-off-table" -> e.kind = "accept" /\ e.key \notin (C17_Table(e.target) \cup C17_Unspecified(e.target))
                                   => ~e.accepted /\ ~e.panicked
C17_Fail(e) == { c \in C17_Conj : ~C17_Holds(c, e) }

(***************************************************************************)
(* C10  Mock code is generated only when enabled and is test-gated unless  *)
(*      exported.                                                          *)
(*  in : a lattice point [macro, feature, target ("fnconc" = a function    *)
(*        with a concrete dependency: its trait is itself entraited by a   *)
(*        nested invocation), unimock, mockall, export                     *)
(*        \in {"absent","true","false"}, mock_api \in {"absent","present"}] *)
(*  o  : [expanded; unimock / mockall: is the derivation attached to the   *)
(*        trait; ugated / mgated: is it wrapped in cfg_attr(test, ..);     *)
(*        and, where the build configuration can show it (built = TRUE),   *)
(*        whether a non-test / test build of the crate contains the mock:  *)
(*        nt_unimock, t_unimock, nt_mockall, t_mockall]                    *)
(***************************************************************************)
Explicit(v, default) == IF v = "absent" THEN default ELSE v = "true"
C10_Exporting(in) == Explicit(in.export, in.macro = "entrait_export")
C10_UnimockOn(in) == /\ Explicit(in.unimock, in.feature)
                     /\ (in.target \in {"fn", "fnconc", "mod"} => in.mock_api = "present")
C10_MockallOn(in) == Explicit(in.mockall, FALSE)
C10_Conj == {"unimock-iff-enabled", "mockall-iff-enabled", "gated-unless-exporting",
             "nontest-build-unimock", "test-build-unimock", "nontest-build-mockall", "test-build-mockall"}
C10_Holds(c, in, o) ==
  CASE c = "unimock-iff-enabled"    -> o.expanded => o.unimock = C10_UnimockOn(in)
    [] c = "mockall-iff-enabled"    -> o.expanded => o.mockall = C10_MockallOn(in)
    [] c = "gated-unless-exporting" -> o.expanded => /\ (o.unimock => o.ugated = ~C10_Exporting(in))
                                                     /\ (o.mockall => o.mgated = ~C10_Exporting(in))
    \* non-test builds contain the mock implementation iff it is enabled AND exported; test builds iff enabled
    [] c = "nontest-build-unimock"  -> o.built => o.nt_unimock = (C10_UnimockOn(in) /\ C10_Exporting(in))
    [] c = "test-build-unimock"     -> o.built => o.t_unimock = C10_UnimockOn(in)
    [] c = "nontest-build-mockall"  -> o.built => o.nt_mockall = (C10_MockallOn(in) /\ C10_Exporting(in))
    [] c = "test-build-mockall"     -> o.built => o.t_mockall = C10_MockallOn(in)
C10_Fail(in, o) == { c \in C10_Conj : ~C10_Holds(c, in, o) }

(***************************************************************************)
(* C15  Misuse yields a compile-time diagnostic; the macro never panics.   *)
(*  in : [fault: "" or the documented misuse injected into an otherwise    *)
(*        valid invocation, optname: the offending option for option       *)
(*        faults]                                                          *)
(*  o  : [panicked (hook record / "custom attribute panicked"),            *)
(*        rejected: the macro emitted an error instead of an expansion,    *)
(*        parses: the emitted tokens parse as Rust items,                  *)
(*        diagnosed: rustc reported the macro's error at the invocation,   *)
(*        phrases: which key phrases the message contains]                 *)
(*  Messages are recognised by stable key phrases, not by exact text.      *)
(***************************************************************************)
C15_Phrases(fault, optname) ==
  CASE fault = "missing-deps"       -> {"dependency", "no_deps"}
    [] fault = "self-receiver"      -> {"self receiver"}
    [] fault = "concrete-in-module" -> {"concrete dependenc"}
    [] fault = "concrete-in-impl"   -> {"concrete dependenc"}
    [] fault = "unknown-option"     -> {"option", optname}
    [] fault = "unsupported-option" -> {"nsupported option"}
    [] fault = "custom-delegate-without-target-trait" -> {"delegat"}
    [] fault = "target-trait-without-delegate-by"     -> {"delegate_by"}
    [] OTHER -> {}
C15_Conj == {"no-panic", "tokens-parse", "diagnosed", "rejected-when-misused", "specific-message"}
C15_Holds(c, in, o) ==
  CASE c = "no-panic"      -> ~o.panicked
    [] c = "tokens-parse"  -> ~o.panicked => o.parses
    [] c = "diagnosed"     -> o.rejected => o.diagnosed
    [] c = "rejected-when-misused" -> in.fault # "" => (o.rejected \/ o.panicked)
    [] c = "specific-message" -> in.fault # "" /\ o.rejected => C15_Phrases(in.fault, in.optname) \subseteq o.phrases
C15_Fail(in, o) == { c \in C15_Conj : ~C15_Holds(c, in, o) }

(***************************************************************************)
(* C04  Dependency bounds bubble up exactly: implemented iff the deps are  *)
(*      satisfied.                                                         *)
(*  in : [declared: the set of bounds declared on the dependency parameter *)
(*        by ALL functions of the trait, byvalue, mocksupport: is mock     *)
(*        support enabled for the invocation (as C10 defines "enabled")]   *)
(*  probe: [shape \in {"bare","implT"}, sat: the declared-bound traits the *)
(*        probe type satisfies, sync, send]                                *)
(*  The implementation must exist for the probe type iff ...               *)
(***************************************************************************)
C04_AvailReq(in, pr) ==
  /\ in.declared \subseteq pr.sat
  /\ pr.sync                                   \* entrait's fixed requirement Sync + 'static ('static: all probes are)
  /\ (in.byvalue => pr.send)                   \* and Send for by-value receivers
  /\ (in.mocksupport => pr.shape = "implT")    \* mockable: for Impl<T> (and the mock type); otherwise every qualifying type

(***************************************************************************)
(* C06  Entraited traits: Impl<T> implements the trait exactly when T      *)
(*      provides it in the selected way (with entrait's fixed              *)
(*      T: Sync + 'static).  app: [provides, sync, static]                 *)
(* C07  Impl<T> implements the trait iff T selects a target.               *)
(* (The forwarding halves of C05 / C06 / C07 are the guards of Runtime.)   *)
(***************************************************************************)
C06_AvailReq(app) == app.provides /\ app.sync /\ app.static
C07_AvailReq(app) == app.selects

(***************************************************************************)
(* C09  An entraited trait definition is preserved.                        *)
(*  i / o : the user's trait and the emitted trait of the same name, each  *)
(*  [name, vis, unsafe, generics, where, supers, attrs: Seq([text, kind]), *)
(*   methods: Seq([name, attrs, shape (signature without `async` and       *)
(*   return type), async, ret, futout, futsend, futpath, default]),        *)
(*   assoc: Seq(text)]                                                     *)
(*  The macro may ADD attributes it owns (mock derivations, its own nested *)
(*  attribute, a re-applied async_trait) and may rewrite                   *)
(*  `async fn m(..) -> R` into `fn m(..) -> impl Future<Output = R> [+ Send]`. *)
(***************************************************************************)
OwnedKinds == {"unimock", "mockall", "entrait", "async_trait"}
IsSubseq(a, b) == \E f \in [1..Len(a) -> 1..Len(b)] : (\A x, y \in 1..Len(a) : x < y => f[x] < f[y]) /\ (\A x \in 1..Len(a) : b[f[x]] = a[x])
Texts(attrs) == [k \in DOMAIN attrs |-> attrs[k].text]
C09_MethodOK(mi, mo) ==
  /\ mi.name = mo.name /\ mi.shape = mo.shape /\ mi.attrs = mo.attrs
  /\ \/ (mi.async = mo.async /\ mi.ret = mo.ret)                                        \* kept as written
     \/ (mi.async /\ ~mo.async /\ mo.futpath = "::core::future::Future"                  \* the documented rewrite
         /\ mo.futout = (IF mi.ret = "" THEN "()" ELSE mi.ret))
C09_Conj == {"expands", "name-vis", "unsafe", "generics", "supertraits", "where", "attrs-kept", "only-owned-attrs-added",
             "methods", "default-bodies", "assoc-types"}
C09_Holds(c, i, o) ==
  CASE c = "expands"     -> o.found
    [] c = "name-vis"    -> o.found => i.name = o.name /\ i.vis = o.vis
    [] c = "unsafe"      -> o.found => i.unsafe = o.unsafe
    [] c = "generics"    -> o.found => i.generics = o.generics
    [] c = "supertraits" -> o.found => i.supers = o.supers
    [] c = "where"       -> o.found => i.where = o.where
    [] c = "attrs-kept"  -> o.found => IsSubseq(Texts(i.attrs), Texts(o.attrs))
    [] c = "only-owned-attrs-added" -> o.found =>
          \A k \in DOMAIN o.attrs : (\E j \in DOMAIN i.attrs : i.attrs[j].text = o.attrs[k].text) \/ o.attrs[k].kind \in OwnedKinds
    [] c = "methods"     -> o.found => /\ Len(i.methods) = Len(o.methods)
                                       /\ \A k \in DOMAIN i.methods : C09_MethodOK(i.methods[k], o.methods[k])
    [] c = "default-bodies" -> o.found /\ Len(i.methods) = Len(o.methods) => \A k \in DOMAIN i.methods : i.methods[k].default = o.methods[k].default
    [] c = "assoc-types" -> o.found => i.assoc = o.assoc
C09_Fail(i, o) == { c \in C09_Conj : ~C09_Holds(c, i, o) }

(***************************************************************************)
(* C13  Generated traits have exactly the requested visibility.            *)
(*  Module paths are sequences of names from the crate root.  An item      *)
(*  declared in module `def` with visibility `vis` can be named from       *)
(*  module `from` (in the same crate or not) iff (Rust reference,          *)
(*  "Visibility and privacy"):                                             *)
(***************************************************************************)
ParentOf(path) == SubSeq(path, 1, Len(path) - 1)
Accessible(vis, def, from, samecrate) ==
  CASE vis = ""            -> samecrate /\ IsPrefix(def, from)
    [] vis = "pub"         -> TRUE                                   \* (all enclosing modules of the test crates are pub)
    [] vis = "pub(crate)"  -> samecrate
    [] vis = "pub(super)"  -> samecrate /\ IsPrefix(ParentOf(def), from)
    [] vis = "pub(self)"   -> samecrate /\ IsPrefix(def, from)
    [] vis = "pub(in super::super)" -> samecrate /\ IsPrefix(ParentOf(ParentOf(def)), from)
    [] vis = "pub(in crate::cases)" -> samecrate /\ IsPrefix(<<"cases">>, from)
    [] vis = "pub(in crate::cases::p)" -> samecrate /\ IsPrefix(<<"cases", "p">>, from)      \* a multi-segment path: the parent of D
\* in : [vis: the visibility written before the trait name (for an entraited trait: the trait's own visibility,
\*       which the delegation-target trait must take), def, from, samecrate]
\* o  : [compiled: does naming the trait from `from` compile, privacyonly: if not, is every error a privacy error]
C13_Conj == {"accessible-iff-requested", "rejected-for-privacy"}
C13_Holds(c, in, o) ==
  CASE c = "accessible-iff-requested" -> o.compiled = Accessible(in.vis, in.def, in.from, in.samecrate)
    [] c = "rejected-for-privacy"     -> ~o.compiled /\ ~Accessible(in.vis, in.def, in.from, in.samecrate) => o.privacyonly
C13_Fail(in, o) == { c \in C13_Conj : ~C13_Holds(c, in, o) }

(***************************************************************************)
(* C12  Async methods: exact Output type, Send by default, opt-out         *)
(*      honoured; async_trait re-applied.                                  *)
(*  in : [nosend (`?Send` given), asynctrait (an async_trait attribute     *)
(*        below entrait), rettext: the declared return type ("()" when     *)
(*        omitted)]                                                        *)
(*  o  : compile witnesses (V): w_output (the future's Output is exactly   *)
(*       the declared type), w_send (a generic caller may require Send),   *)
(*       w_nonsend_body (a body holding a !Send value across an await),    *)
(*       and the projected trait (X): kept_async, futout, futsend,         *)
(*       attr_on_trait, attr_on_impls, attr_on_item (the re-emitted         *)
(*       function / module still carries the async_trait attribute)        *)
(***************************************************************************)
C12_Conj == {"output-exact", "output-exact-tokens", "send-by-default", "send-is-required", "optout-honoured", "async-trait-kept-and-reapplied", "compiles"}
C12_Holds(c, in, o) ==
  CASE c = "compiles"            -> o.base_compiles
    [] c = "output-exact"        -> o.w_output
    [] c = "output-exact-tokens" -> ~in.asynctrait /\ o.expanded => ~o.kept_async /\ o.futout = in.rettext
    [] c = "send-by-default"     -> ~in.nosend /\ ~in.asynctrait => o.w_send /\ (o.expanded => o.futsend)
    \* "required to be Send": a body that is not Send is rejected
    [] c = "send-is-required"    -> ~in.nosend /\ ~in.asynctrait => ~o.w_nonsend_body
    \* with ?Send no Send requirement is imposed: non-Send bodies are accepted and callers cannot assume Send
    [] c = "optout-honoured"     -> in.nosend /\ ~in.asynctrait => o.w_nonsend_body /\ ~o.w_send /\ (o.expanded => ~o.futsend)
    \* ("instead": an annotated function or module does not keep the attribute - attr_on_item)
    [] c = "async-trait-kept-and-reapplied" -> in.asynctrait /\ o.expanded => o.kept_async /\ o.attr_on_trait /\ o.attr_on_impls /\ ~o.attr_on_item
C12_Fail(in, o) == { c \in C12_Conj : ~C12_Holds(c, in, o) }

(***************************************************************************)
(* C18  Foreign attributes stay where the user put them.                   *)
(*  in : [place \in {"fn", "param", "modfn", "implfn", "traitmethod"},     *)
(*        kind \in {"doc", "lint", "cfgon", "cfgoff", "tool", "inert",     *)
(*        "cfgattr", "cfgonoff" (stacked cfgs: enabled, then disabled),     *)
(*        "cfgattroff" (a disabled cfg applied through cfg_attr)}]          *)
(*  o  : counts of the marker attribute in the expansion: on the user's    *)
(*       own item (orig), on generated traits / impls (gen_items), on      *)
(*       generated trait methods (gen_trait_methods), on the methods of    *)
(*       generated impls (gen_impl_methods), on parameters of generated    *)
(*       signatures (gen_params); and whether the program compiles.        *)
(***************************************************************************)
C18_Conj == {"stays-on-original", "not-copied-to-generated-items", "not-copied-to-generated-methods", "param-attrs-stripped",
             "trait-method-attrs-mirrored", "no-dangling-method", "compiles"}
C18_Holds(c, in, o) ==
  CASE c = "stays-on-original" -> o.expanded => o.orig = 1
    [] c = "not-copied-to-generated-items" -> o.expanded => o.gen_items = 0
    \* a cfg on a module / impl-block function may (must, when it is off) also guard the generated method
    [] c = "not-copied-to-generated-methods" -> o.expanded /\ in.place \in {"fn", "param", "modfn", "implfn"} /\ ~(in.kind \in {"cfgon", "cfgoff", "cfgonoff", "cfgattroff"} /\ in.place \in {"modfn", "implfn"})
                                                 => o.gen_trait_methods = 0 /\ o.gen_impl_methods = 0
    [] c = "param-attrs-stripped" -> o.expanded /\ in.place = "param" => o.gen_params = 0
    [] c = "trait-method-attrs-mirrored" -> o.expanded /\ in.place = "traitmethod" => o.gen_impl_methods >= 1
    [] c = "no-dangling-method" -> in.kind \in {"cfgoff", "cfgonoff", "cfgattroff"} /\ in.place \in {"modfn", "implfn", "traitmethod"} => o.compiled
    [] c = "compiles" -> in.kind \notin {"cfgoff", "cfgonoff", "cfgattroff"} => o.compiled
C18_Fail(in, o) == { c \in C18_Conj : ~C18_Holds(c, in, o) }

(***************************************************************************)
(* C19  Generated code is self-contained: no imports, no std, no name      *)
(*      capture.  For a program placed in a hostile scope (nothing         *)
(*      imported, a set of names shadowed, possibly a generated trait      *)
(*      named like a marker trait, possibly a no_std crate):               *)
(*   o : [compiled, sameresult / sameavail: run-time result and trait      *)
(*        availability equal to the clean-scope run of the same program    *)
(*        (TRUE when the variant is compile-only)]                         *)
(***************************************************************************)
C19_Conj == {"compiles-in-hostile-scope", "means-the-same"}
C19_Holds(c, o) ==
  CASE c = "compiles-in-hostile-scope" -> o.compiled
    [] c = "means-the-same" -> o.compiled => o.sameresult /\ o.sameavail
C19_Fail(o) == { c \in C19_Conj : ~C19_Holds(c, o) }

(***************************************************************************)
(* C03  Every supported signature expands to compiling code with the same  *)
(*      call type.                                                         *)
(*  o : [compiled: the expansion (and the user's function) compiles,       *)
(*       witness: both the function and the generated trait method coerce  *)
(*       to ONE fn-pointer type written from the ORIGINAL signature (for   *)
(*       async: both futures' Output is the declared type)]                *)
(***************************************************************************)
C03_Conj == {"compiles", "same-call-type"}
C03_Holds(c, o) == CASE c = "compiles" -> o.compiled [] c = "same-call-type" -> o.compiled => o.witness
C03_Fail(o) == { c \in C03_Conj : ~C03_Holds(c, o) }
=============================================================================
