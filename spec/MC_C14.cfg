SPECIFICATION Spec
CONSTANTS
  MaxDepth = 3
  DumpCases = TRUE
INVARIANTS StepwiseIsTotal
CHECK_DEADLOCK FALSE
