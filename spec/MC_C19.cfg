SPECIFICATION Spec
CONSTANTS
  DumpCases = TRUE
  PairShadows = FALSE
INVARIANT Refines
CHECK_DEADLOCK FALSE
