SPECIFICATION Spec
CONSTANT DumpCases = TRUE
INVARIANT Refines
CHECK_DEADLOCK FALSE
