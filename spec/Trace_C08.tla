------------------------------ MODULE Trace_C08 ------------------------------
(* Trace validation for C08: one event per module body replayed through the real macro.  *)
(* B3 round trip: the kinds of the tokens the hook recorded must be the body the model    *)
(* was given (e.kinds_in = Flat(body)); a renderer/catalogue mismatch is a tool error.    *)
EXTENDS TraceLib, Items
R == INSTANCE Req
VARIABLES l, bad, drift
vars == <<l, bad, drift>>
Fail(e) == R!C08_Fail(e.l1, e.obs)
Drifts(e) == (IF e.obs.mnames # e.pred.mnames THEN {"mnames"} ELSE {})
             \cup (IF e.kinds_in # Flat(Cat, e.body) THEN {"B3-roundtrip"} ELSE {})
Init == l = 1 /\ bad = {} /\ drift = {}
Step == /\ l <= Len(Rec) /\ l' = l + 1
        /\ LET e == Rec[l] IN
           /\ bad' = bad \cup { [case |-> e.case, conjunct |-> c, cls |-> e.cls] : c \in Fail(e) }
           /\ drift' = drift \cup { [case |-> e.case, field |-> f] : f \in Drifts(e) }
Spec == Init /\ [][Step]_vars
RegC == Reg(l, bad, drift)
=============================================================================
