---------------------------- MODULE Trace_Session ----------------------------
(***************************************************************************)
(* Trace validation for C20: the records of ALL compiler processes of the  *)
(* check (several rustc processes, permuted module orders, different job   *)
(* counts and environments), each event (run, pid, seq, key, out) with key *)
(* and out interned whole token streams.  An event conforms iff it is an   *)
(* `Invoke` step of Session; otherwise it deviates and is collected.       *)
(***************************************************************************)
EXTENDS TraceLib
VARIABLES l, memo, lastseq, bad, drift
vars == <<l, memo, lastseq, bad, drift>>
Init == l = 1 /\ memo = [k \in {} |-> 0] /\ lastseq = [p \in {} |-> 0] /\ bad = {} /\ drift = {}
Step == /\ l <= Len(Rec) /\ l' = l + 1
        /\ LET e == Rec[l] IN
           \* Session!Invoke's guard
           /\ IF e.key \in DOMAIN memo
              THEN /\ memo' = memo
                   /\ bad' = IF e.out = memo[e.key] THEN bad
                             ELSE bad \cup {[case |-> e.case, conjunct |-> "same-key-same-output", cls |-> ""]}
              ELSE memo' = memo @@ (e.key :> e.out) /\ bad' = bad
           \* sanity of the recording itself: per process the hook's sequence numbers increase
           /\ LET pr == <<e.run, e.pid>> IN
              /\ lastseq' = IF pr \in DOMAIN lastseq THEN [lastseq EXCEPT ![pr] = e.seq] ELSE lastseq @@ (pr :> e.seq)
              /\ drift' = IF pr \in DOMAIN lastseq /\ e.seq <= lastseq[pr]
                          THEN drift \cup {[case |-> e.case, field |-> "seq-order"]} ELSE drift
Spec == Init /\ [][Step]_vars
RegC == Reg(l, bad, drift)
=============================================================================
