------------------------------- MODULE MC_C10 -------------------------------
(***************************************************************************)
(* The full C10 lattice through the attribute front end (Opts) and the     *)
(* mock-attribute decisions of gen_trait_def: every point is a behaviour   *)
(*   ParseOneOpt* -> EndOfOpts -> ApplyVariantFallbacks -> GenTraitDef     *)
(* and the outcome must satisfy Level 1 (Req!C10).                         *)
(***************************************************************************)
EXTENDS Opts, Json, IOUtils
CONSTANT DumpCases
R == INSTANCE Req
Tri == {"absent", "true", "false"}
Lattice == [macro : {"entrait", "entrait_export"}, feature : BOOLEAN, target : {"fn", "mod", "trait"},
            unimock : Tri, mock_api : {"absent", "present"}, mockall : Tri, export : Tri]
TriOpt(k, v) == IF v = "absent" THEN <<>> ELSE IF v = "true" THEN <<Bare(k)>> ELSE <<Eq(k, "false")>>
OptsOf(p) == TriOpt("unimock", p.unimock) \o (IF p.mock_api = "present" THEN <<Eq("mock_api", "Mk")>> ELSE <<>>)
             \o TriOpt("mockall", p.mockall) \o TriOpt("export", p.export)
AttrOf(p) == [lead |-> IF p.target = "trait" THEN "" ELSE "pub T", opts |-> OptsOf(p), trail |-> ""]
FE(p) == FrontEnd(p.target, AttrOf(p), p.macro, p.feature)
PredObs(p) == LET f == FE(p) IN
  [ err |-> f.err, expanded |-> f.err = "",
    unimock |-> f.err = "" /\ UnimockAttr(p.target, f.opts), mockall |-> f.err = "" /\ MockallAttr(f.opts),
    ugated |-> Gated(f.opts), mgated |-> Gated(f.opts) ]
\* what a build shows, predicted from the attributes
WithBuilds(p, o) == (o @@ [built |-> TRUE, nt_unimock |-> o.unimock /\ ~o.ugated, t_unimock |-> o.unimock,
                           nt_mockall |-> o.mockall /\ ~o.mgated, t_mockall |-> o.mockall])

VARIABLES p, st, pos, pc, out
vars == <<p, st, pos, pc, out>>
Init == /\ p \in Lattice
        /\ LET lr == LeadResult(p.target, AttrOf(p)) IN
           /\ st = [opts |-> NoOpts, err |-> lr.err, impltrait |-> lr.impltrait] /\ pos = 1 + lr.skip
        /\ pc = "opts" /\ out = [unimock |-> FALSE, mockall |-> FALSE, gated |-> FALSE]
ParseOneOpt == /\ pc = "opts" /\ pos <= Len(OptsOf(p))
               /\ st' = Step(p.target, st, OptsOf(p)[pos]) /\ pos' = pos + 1 /\ UNCHANGED <<p, pc, out>>
EndOfOpts   == /\ pc = "opts" /\ pos > Len(OptsOf(p))
               /\ st' = IF p.target = "trait" THEN TraitSemantic(st) ELSE st
               /\ pc' = "fallbacks" /\ UNCHANGED <<p, pos, out>>
ApplyVariantFallbacks ==
               /\ pc = "fallbacks"
               /\ st' = [st EXCEPT !.opts = IF st.err = "" THEN ApplyFallbacks(@, Variant(p.macro, p.feature)) ELSE @]
               /\ pc' = (IF st.err = "" THEN "gen" ELSE "rejected") /\ UNCHANGED <<p, pos, out>>
GenTraitDef == /\ pc = "gen"
               /\ out' = [unimock |-> UnimockAttr(p.target, st.opts), mockall |-> MockallAttr(st.opts), gated |-> Gated(st.opts)]
               /\ pc' = "done" /\ UNCHANGED <<p, st, pos>>
Next == ParseOneOpt \/ EndOfOpts \/ ApplyVariantFallbacks \/ GenTraitDef
Spec == Init /\ [][Next]_vars

StepwiseIsPred == pc = "done" => out.unimock = PredObs(p).unimock /\ out.mockall = PredObs(p).mockall /\ out.gated = PredObs(p).ugated
\* `export` is not an option of the trait target: those lattice points are rejections (C15/C17), not C10 cases
OnlyExportOnTraitRejected == pc = "rejected" <=> (pc \in {"rejected"} /\ p.target = "trait" /\ p.export # "absent")
Refines == pc = "done" => R!C10_Fail(p, WithBuilds(p, PredObs(p))) = {}

CaseRec(q) == [ in |-> q, text |-> AttrText(q.target, AttrOf(q)), pred |-> PredObs(q) ]
ASSUME DumpCases => ndJsonSerialize(IOEnv.OUT, SetToSeq({ CaseRec(q) : q \in Lattice }))
=============================================================================
