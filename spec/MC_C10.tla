------------------------------- MODULE MC_C10 -------------------------------
(***************************************************************************)
(* The full C10 lattice through the attribute front end (Opts) and the     *)
(* mock-attribute decisions of gen_trait_def: every point is a behaviour   *)
(*   ParseOneOpt* -> EndOfOpts -> ApplyVariantFallbacks -> GenTraitDef     *)
(* and the outcome must satisfy Level 1 (Req!C10).                         *)
(***************************************************************************)
EXTENDS Opts, Json, IOUtils
CONSTANT DumpCases
R == INSTANCE Req
Tri == {"absent", "true", "false"}
\* "fnconc": a fn with a concrete dependency - for the options it is a fn; its generated trait additionally carries
\* `#[::entrait::entrait(unimock = false, mockall = false)]`, i.e. a NESTED trait-mode invocation with both mock kinds off
\* "marker": an entraited trait WITHOUT methods (for the options it is a trait)
Kind(t) == IF t = "fnconc" THEN "fn" ELSE IF t = "marker" THEN "trait" ELSE t
Lattice == [macro : {"entrait", "entrait_export"}, feature : BOOLEAN, target : {"fn", "fnconc", "mod", "trait", "marker"},
            unimock : Tri, mock_api : {"absent", "present"}, mockall : Tri, export : Tri]
TriOpt(k, v) == IF v = "absent" THEN <<>> ELSE IF v = "true" THEN <<Bare(k)>> ELSE <<Eq(k, "false")>>
OptsOf(p) == TriOpt("unimock", p.unimock) \o (IF p.mock_api = "present" THEN <<Eq("mock_api", "Mk")>> ELSE <<>>)
             \o TriOpt("mockall", p.mockall) \o TriOpt("export", p.export)
AttrOf(p) == [lead |-> IF Kind(p.target) = "trait" THEN "" ELSE "pub T", opts |-> OptsOf(p), trail |-> ""]
FE(p) == FrontEnd(Kind(p.target), AttrOf(p), p.macro, p.feature)
\* the nested invocation on the generated trait (the facade's `entrait` name: the variant follows the feature)
NestedFE(p) == FrontEnd("trait", [lead |-> "", opts |-> <<Eq("unimock", "false"), Eq("mockall", "false")>>, trail |-> ""], "entrait", p.feature)
PredObs(p) == LET f == FE(p) IN
  [ err |-> f.err, expanded |-> f.err = "",
    unimock |-> f.err = "" /\ (UnimockAttr(Kind(p.target), f.opts) \/ (p.target = "fnconc" /\ UnimockAttr("trait", NestedFE(p).opts))),
    mockall |-> f.err = "" /\ (MockallAttr(f.opts) \/ (p.target = "fnconc" /\ MockallAttr(NestedFE(p).opts))),
    ugated |-> Gated(f.opts), mgated |-> Gated(f.opts) ]
\* what a build shows, predicted from the attributes
WithBuilds(p, o) == (o @@ [built |-> TRUE, nt_unimock |-> o.unimock /\ ~o.ugated, t_unimock |-> o.unimock,
                           nt_mockall |-> o.mockall /\ ~o.mgated, t_mockall |-> o.mockall])

VARIABLES p, st, pos, pc, out
vars == <<p, st, pos, pc, out>>
Init == /\ p \in Lattice
        /\ LET lr == LeadResult(Kind(p.target), AttrOf(p)) IN
           /\ st = [opts |-> NoOpts, err |-> lr.err, impltrait |-> lr.impltrait] /\ pos = 1 + lr.skip
        /\ pc = "opts" /\ out = [unimock |-> FALSE, mockall |-> FALSE, gated |-> FALSE]
ParseOneOpt == /\ pc = "opts" /\ pos <= Len(OptsOf(p))
               /\ st' = Step(Kind(p.target), st, OptsOf(p)[pos]) /\ pos' = pos + 1 /\ UNCHANGED <<p, pc, out>>
EndOfOpts   == /\ pc = "opts" /\ pos > Len(OptsOf(p))
               /\ st' = IF Kind(p.target) = "trait" THEN TraitSemantic(st) ELSE st
               /\ pc' = "fallbacks" /\ UNCHANGED <<p, pos, out>>
ApplyVariantFallbacks ==
               /\ pc = "fallbacks"
               /\ st' = [st EXCEPT !.opts = IF st.err = "" THEN ApplyFallbacks(@, Variant(p.macro, p.feature)) ELSE @]
               /\ pc' = (IF st.err = "" THEN "gen" ELSE "rejected") /\ UNCHANGED <<p, pos, out>>
GenTraitDef == /\ pc = "gen"
               /\ out' = [unimock |-> UnimockAttr(Kind(p.target), st.opts), mockall |-> MockallAttr(st.opts), gated |-> Gated(st.opts)]
               /\ pc' = (IF p.target = "fnconc" THEN "nested" ELSE "done") /\ UNCHANGED <<p, st, pos>>
\* the nested trait-mode invocation adds whatever ITS options enable (nothing: both are explicitly false)
NestedEntraitOnTrait ==
               /\ pc = "nested"
               /\ out' = [out EXCEPT !.unimock = @ \/ UnimockAttr("trait", NestedFE(p).opts), !.mockall = @ \/ MockallAttr(NestedFE(p).opts)]
               /\ pc' = "done" /\ UNCHANGED <<p, st, pos>>
Next == ParseOneOpt \/ EndOfOpts \/ ApplyVariantFallbacks \/ GenTraitDef \/ NestedEntraitOnTrait
Spec == Init /\ [][Next]_vars

StepwiseIsPred == pc = "done" => out.unimock = PredObs(p).unimock /\ out.mockall = PredObs(p).mockall /\ out.gated = PredObs(p).ugated
\* `export` is not an option of the trait target: those lattice points are rejections (C15/C17), not C10 cases
OnlyExportOnTraitRejected == pc = "rejected" <=> (pc \in {"rejected"} /\ Kind(p.target) = "trait" /\ p.export # "absent")
Refines == pc = "done" => R!C10_Fail(p, WithBuilds(p, PredObs(p))) = {}

CaseRec(q) == [ in |-> q, text |-> AttrText(Kind(q.target), AttrOf(q)), pred |-> PredObs(q) ]
ASSUME DumpCases => ndJsonSerialize(IOEnv.OUT, SetToSeq({ CaseRec(q) : q \in Lattice }))
=============================================================================
