------------------------------ MODULE Trace_C16 ------------------------------
(***************************************************************************)
(* Trace validation for C16 (binding B2).  One event per case replayed     *)
(* through the real macro in real rustc:                                   *)
(*   e.l1   the abstract input as Level 1 sees it (from MC_C16's dump)     *)
(*   e.pred Level 2's predicted observation (from MC_C16's dump)           *)
(*   e.obs  the REAL observation: projected expansion record (X), compiler *)
(*          verdict (V) and run-time result (R)                            *)
(* Every event is consumed (never stuck): Level 1 (Req) is evaluated on    *)
(* the real observation -> `bad`; real vs predicted -> `drift`.            *)
(***************************************************************************)
EXTENDS TraceLib
R == INSTANCE Req

VARIABLES l, bad, drift
vars == <<l, bad, drift>>

\* run-time conjunct (R): the arguments arrive at the original function in declared order, through the trait
\* exactly as in a direct call
ArriveOK(e) == e.obs.compiled => (e.obs.ran /\ e.obs.via_trait = e.expect /\ e.obs.direct = e.expect)
Fail(e) == R!C16_Fail(e.l1, e.obs) \cup (IF ArriveOK(e) THEN {} ELSE {"arrive"})

DriftFields == {"expanded", "panic", "tkind", "tname", "tdeco", "inserted", "callee", "selfarg", "callargs", "compiled"}
Txt(ns) == [i \in DOMAIN ns |-> <<ns[i].raw, ns[i].base>>]
Same(f, a, b) == IF f \in {"tname", "callargs", "inserted"} THEN Txt(a) = Txt(b) ELSE a = b
Drifts(e) == { f \in DriftFields : ~Same(f, e.obs[f], e.pred[f]) }

Init == l = 1 /\ bad = {} /\ drift = {}
Step == /\ l <= Len(Rec) /\ l' = l + 1
        /\ LET e == Rec[l] IN
           /\ bad' = bad \cup { [case |-> e.case, conjunct |-> c, cls |-> e.cls] : c \in Fail(e) }
           /\ drift' = drift \cup { [case |-> e.case, field |-> f] : f \in Drifts(e) }
Spec == Init /\ [][Step]_vars

RegC == Reg(l, bad, drift)
=============================================================================
