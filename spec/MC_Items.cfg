SPECIFICATION Spec
CONSTANTS
  MaxItems = 2
  MaxImplItems = 2
  DumpCases = TRUE
INVARIANTS TypeOK StepwiseIsSplit Progress C02_Lossless NoReadPastEnd C08_Refines
CHECK_DEADLOCK FALSE
