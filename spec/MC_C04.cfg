SPECIFICATION Spec
CONSTANTS
  DumpCases = TRUE
  WithMod = TRUE
INVARIANTS StepwiseIsFix Refines
CHECK_DEADLOCK FALSE
