------------------------------- MODULE MC_C03 -------------------------------
(***************************************************************************)
(* C03: the supported signature class through generics collection and      *)
(* signature conversion (SigConv), one AnalyzeFn step per function (the    *)
(* accumulator is shared), then Convert and StaticCheck.  Refinement:      *)
(* StaticOk for every input of the class except named deviation classes.   *)
(* The dump is either the whole class or a seeded random subset of it.     *)
(***************************************************************************)
EXTENDS SigConv, Json, IOUtils, Randomization
CONSTANTS MaxParams, DumpCases, SampleSize
R == INSTANCE Req

ParamLists == UNION { [1..n -> ParamTys] : n \in 0..MaxParams }
Fn0(dk, pass, ps, bound, lw, as, q, ret, gn) ==
  [deps |-> [kind |-> dk, pass |-> pass], params |-> ps, bound |-> bound, lwhere |-> lw, async |-> as, qual |-> q, ret |-> ret, gname |-> gn,
   cfirst |-> FALSE, cform |-> "path", dvar |-> "plain"]
Fn(dk, pass, ps, bound, lw, as, q, ret, gn) == Fn0(dk, pass, ps, bound, lw, as, q, ret, gn)
FnOK(f) ==
  /\ (f.deps.kind = "nodeps" => f.deps.pass = "ref" /\ f.ret # "borrow-deps")
  /\ (f.ret = "borrow-deps" => f.deps.pass = "reflife")
  /\ (f.ret = "borrow-arg" => Len(f.params) >= 1 /\ f.params[1] = "reflife")
  /\ (f.ret = "generic" => Len(f.params) >= 1 /\ f.params[1] = "generic")
  \* elision in the ORIGINAL function must be unambiguous: exactly one reference among all parameters (the dependency included)
  /\ (f.ret = "borrow-arg-elided" => /\ Len(f.params) >= 1 /\ f.params[1] = "ref"
                                     /\ \A j \in DOMAIN f.params : j > 1 => f.params[j] \notin {"ref", "reflife"}
                                     /\ (f.deps.kind = "nodeps" \/ f.deps.pass = "value"))
  /\ (f.lwhere # "none" => Len(f.params) = 2 /\ f.params[1] = "reflife" /\ f.params[2] = "reflife")
  /\ (f.bound \in {"where", "whereassoc"} => \E i \in DOMAIN f.params : f.params[i] = "generic")
  /\ (f.qual = "extern" => ~f.async)
FnsBase == { f \in { Fn(dk, pa, ps, bo, lw, as, q, re, "U") : dk \in DepKinds, pa \in Passes, ps \in ParamLists, bo \in {"inline", "where", "whereassoc"},
                                                         lw \in {"none", "where", "inline"}, as \in BOOLEAN, q \in Quals, re \in Rets } : FnOK(f) }
\* two rendering variants of the same abstract function: the const parameter first; the concrete dependency as a bare identifier
Fns == FnsBase \cup { [f EXCEPT !.cfirst = TRUE] : f \in { g \in FnsBase : HasArray(g) } }
               \cup { [f EXCEPT !.cform = "ident"] : f \in { g \in FnsBase : g.deps.kind = "concrete" } }
\* modes: one fn; a module of one fn; a module of two fns with different / the same generic names; impl blocks (no lifted generics)
Simple(f) == \A i \in DOMAIN f.params : f.params[i] \in {"owned", "ref", "reflife"}
Second(same) == Fn("generic", "ref", <<"generic">>, "inline", "none", FALSE, "plain", "unit", IF same THEN "U" ELSE "V")
\* how a by-reference named dependency parameter is spelled (single fn only): bound by `where for<'x> D: HasLt<'x>`; with a relaxed
\* bound `?Sized`; the type in parentheses `(&D)`; the type handed in through a `$t:ty` macro fragment (an invisible group)
DepVariants == { [f EXCEPT !.dvar = v] : f \in { g \in FnsBase : g.deps.kind = "generic" /\ g.deps.pass = "ref" }, v \in {"hrtb", "relaxed", "paren", "group"} }
Inputs == { [mode |-> "fn", fns |-> <<f>>] : f \in Fns \cup DepVariants }
          \cup { [mode |-> "mod1", fns |-> <<f>>] : f \in { g \in Fns : g.deps.kind # "concrete" } }
          \* (no_deps is an option of the whole module: a second function with a dependency needs the first one to have one too)
          \cup { [mode |-> "mod2diff", fns |-> <<f, Second(FALSE)>>] : f \in { g \in Fns : g.deps.kind \notin {"concrete", "nodeps"} /\ g.qual = "plain" } }
          \cup { [mode |-> "mod2same", fns |-> <<f, Second(TRUE)>>] : f \in { g \in Fns : g.deps.kind \notin {"concrete", "nodeps"} /\ g.qual = "plain" /\ ~g.async } }
          \cup UNION { { [mode |-> m, fns |-> <<f>>] :
                          f \in { g \in Fns : g.deps.kind \in {"generic", "implTrait"} /\ g.deps.pass # "value" /\ Simple(g) /\ g.qual = "plain"
                                              /\ g.ret # "borrow-deps" /\ (m = "impl-dyn" => ~g.async) } } : m \in {"impl-static", "impl-dyn"} }

VARIABLES inp, k, tparams, twhere, pc
vars == <<inp, k, tparams, twhere, pc>>
Init == inp \in Inputs /\ k = 1 /\ tparams = << >> /\ twhere = << >> /\ pc = "analyze"
AnalyzeFn == /\ pc = "analyze" /\ k <= Len(inp.fns)
             /\ tparams' = tparams \o LiftedParams(inp.fns[k]) /\ twhere' = twhere \o LiftedWhere(inp.fns[k])
             /\ k' = k + 1 /\ UNCHANGED <<inp, pc>>
ConvertSignatures == pc = "analyze" /\ k > Len(inp.fns) /\ pc' = "check" /\ UNCHANGED <<inp, k, tparams, twhere>>
StaticCheck == pc = "check" /\ pc' = "done" /\ UNCHANGED <<inp, k, tparams, twhere>>
Spec == Init /\ [][AnalyzeFn \/ ConvertSignatures \/ StaticCheck]_vars
StepwiseIsConcat == pc \in {"check", "done"} => tparams = TraitParams(inp.fns) /\ twhere = TraitWhere(inp.fns)
Refines == pc = "done" => (StaticOk(inp.fns) \/ Class(inp.fns) # "")
\* the impl-block modes lift nothing (their delegation-target trait comes from the user's trait)
ImplBlocksLiftNothing == pc = "done" /\ inp.mode \in {"impl-static", "impl-dyn"} => tparams = << >>

CaseRec(x) == [ mode |-> x.mode, fns |-> x.fns, ntraitparams |-> Len(TraitParams(x.fns)),
                traitparams |-> [j \in DOMAIN TraitParams(x.fns) |-> TraitParams(x.fns)[j].kind], pred |-> StaticOk(x.fns), cls |-> Class(x.fns) ]
Dump == IF SampleSize = 0 THEN Inputs ELSE RandomSubset(SampleSize, Inputs)
ASSUME DumpCases => ndJsonSerialize(IOEnv.OUT, SetToSeq({ CaseRec(x) : x \in Dump }))
ASSUME PrintT(<<"INPUTS", Cardinality(Inputs)>>)
=============================================================================
