------------------------------ MODULE Trace_C15 ------------------------------
(* Trace validation for C15: one event per replayed case; the observation joins the hook's record       *)
(* (panic flag, emitted tokens) with rustc's diagnostics for the case file.                             *)
EXTENDS TraceLib
R == INSTANCE Req
VARIABLES l, bad, drift
vars == <<l, bad, drift>>
Init == l = 1 /\ bad = {} /\ drift = {}
Step == /\ l <= Len(Rec) /\ l' = l + 1
        /\ LET e == Rec[l] IN
           /\ bad' = bad \cup { [case |-> e.case, conjunct |-> c, cls |-> e.cls] : c \in R!C15_Fail(e.l1, [e.obs EXCEPT !.phrases = ToSet(@)]) }
           /\ drift' = drift \cup (IF e.obs.invoked /\ (e.obs.outcome # e.pred.outcome \/ e.obs.class # e.pred.class)
                                   THEN {[case |-> e.case, field |-> "outcome"]} ELSE {})
Spec == Init /\ [][Step]_vars
RegC == Reg(l, bad, drift)
=============================================================================
