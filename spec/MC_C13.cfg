SPECIFICATION Spec
CONSTANTS
  DumpCases = TRUE
  Deep = FALSE
INVARIANT Refines
CHECK_DEADLOCK FALSE
