------------------------------- MODULE MC_C09 -------------------------------
(***************************************************************************)
(* C09: which components of an entraited trait survive the round trip      *)
(* ItemTrait -> analyze_trait (OutTrait) -> gen_trait_def.                  *)
(* Level 2 (entrait_trait/out_trait.rs, trait_codegen.rs): carried over:   *)
(* attributes, visibility, name, generics, supertraits, where clause,      *)
(* method attributes and signatures (async rewritten unless async_trait);  *)
(* NOT carried over: `unsafe`, default method bodies, associated types.    *)
(* The machine applies the two stages to every subset of components and    *)
(* every trait-mode option set; Refines = Level 1 holds except on the      *)
(* named deviation classes.                                                *)
(***************************************************************************)
EXTENDS TLC, FiniteSets, Sequences, Naturals, Json, IOUtils, SequencesExt
CONSTANT DumpCases

\* ("doc": for every second case the documentation and a lint attribute are written as INNER attributes, inside the trait's braces)
Comps == {"doc", "lint", "pubvis", "unsafe", "generics", "supertrait", "where", "default-body", "assoc-type", "method-attr", "method-cfg", "async", "two-methods"}
OptSets == {"none", "unimock", "mockall", "ref", "borrow", "static-di", "dyn-di", "async_trait"}
\* the shape of the generic parameter list (when there is one): one type parameter; a const parameter declared
\* BEFORE the type parameter; a lifetime parameter; a defaulted type parameter; all of these at once
\* ("lifetime-where": two lifetime parameters and a where-predicate `'t: 'u` between them)
GenericKinds == {"type", "const-first", "lifetime", "default", "mixed", "lifetime-where"}
Inputs == { i \in [comps : SUBSET Comps, opt : OptSets, gk : GenericKinds \cup {"none"}] :
            /\ (i.gk = "none" <=> "generics" \notin i.comps)
            /\ ("where" \in i.comps => "generics" \in i.comps)
            /\ (i.opt = "async_trait" => "async" \in i.comps)
            /\ (i.opt \in {"ref", "borrow", "dyn-di"} /\ "async" \in i.comps => FALSE)     \* dyn dispatch of async needs async_trait: its own option set
            /\ (i.opt \in {"ref", "borrow", "dyn-di"} => "assoc-type" \notin i.comps /\ "generics" \notin i.comps) }

\* stage 1 (analyze_trait): what OutTrait holds
Analyzed(i) == i.comps \ {"unsafe", "default-body", "assoc-type"}
\* stage 2 (gen_trait_def): everything OutTrait holds is emitted; async is rewritten unless async_trait is among the attributes
Emitted(i) == Analyzed(i)
Rewritten(i) == "async" \in i.comps /\ i.opt # "async_trait"
Dropped(i) == i.comps \ Emitted(i)
Class(i) == IF Dropped(i) = {} THEN ""
            ELSE IF "unsafe" \in Dropped(i) THEN "unsafe-trait-dropped"
            ELSE IF "assoc-type" \in Dropped(i) THEN "associated-types-dropped" ELSE "default-method-body-dropped"

VARIABLES i, held, pc
vars == <<i, held, pc>>
Init == i \in Inputs /\ held = i.comps /\ pc = "analyze"
AnalyzeTrait == pc = "analyze" /\ held' = held \cap Analyzed(i) /\ pc' = "gen" /\ UNCHANGED i
GenTraitDef  == pc = "gen" /\ held' = held /\ pc' = "done" /\ UNCHANGED i
Spec == Init /\ [][AnalyzeTrait \/ GenTraitDef]_vars
StepwiseIsEmitted == pc = "done" => held = Emitted(i)
\* Level 1 at design level: nothing the user wrote is lost
Refines == pc = "done" => (held = i.comps \/ Class(i) # "")

ASSUME DumpCases => ndJsonSerialize(IOEnv.OUT, SetToSeq({ [comps |-> SetToSeq(x.comps), opt |-> x.opt, gk |-> x.gk, dropped |-> SetToSeq(Dropped(x)),
                                                          rewritten |-> Rewritten(x), cls |-> Class(x)] : x \in Inputs }))
ASSUME PrintT(<<"INPUTS", Cardinality(Inputs)>>)
=============================================================================
