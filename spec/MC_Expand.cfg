SPECIFICATION Spec
CONSTANTS
  MaxFns = 1
INVARIANTS StepwiseIsExpand ImplsImplementEmittedTraits MethodsCorrespond AwaitIffAsync MocksGatedUnlessExported TargetTraitsCarryNoMocks AsyncTraitReapplied SendOnlyByDefault ByValueNeedsSend OwnedReceiverFutureIsSendable VisibilityAsRequested ModuleMethodsAreVisibleFns
CHECK_DEADLOCK FALSE
