"""A fixed-shape corpus of entrait invocations for history properties (C20): seeded random fn/mod/impl inputs
(gen/soup.py), functions whose signatures need several generated parameter names (the code path with a
HashSet), modules with many functions, traits in every delegation mode, impl blocks."""
import random

from gen import soup

HAND = [
    ("#[::entrait::entrait(pub T)]", "fn both0<D>(deps: &D, (a, b): (i32, i32), arg0: i32, _arg0: i32) -> i32 { a + b + arg0 + _arg0 }"),
    ("#[::entrait::entrait(pub T)]", "fn both1<D>(deps: &D, arg1: u8, _: u8, _arg1: u8, __arg1: u8) -> u8 { arg1 }"),
    ("#[::entrait::entrait(pub T, no_deps)]", "fn both2(_arg2: u8, arg2: u8, [x, y]: [u8; 2], __arg2: u8) -> u8 { x + y }"),
    ("#[::entrait::entrait]", "pub trait BothT { fn m(&self, (a, b): (i32, i32), arg0: i32, _arg0: i32) -> i32; }"),
    ("#[::entrait::entrait(pub T)]", "fn many<D>(deps: &D, _: u8, (a, b): (u8, u8), _: u16, [x, y]: [u8; 2], _: u32, arg1: u8, _arg3: u8) {}"),
    ("#[::entrait::entrait(pub T, no_deps)]", "fn nd(_: u8, _: u8, _: u8, _: u8, _: u8, _: u8) -> u8 { 0 }"),
    ("#[::entrait::entrait(pub T, mock_api=Mk, unimock)]", "fn mocked<D>(deps: &D, _: u8, s: &str, _: u8) -> u8 { 0 }"),
    ("#[::entrait::entrait(pub T)]", "mod big {\n" + "\n".join(f"    pub fn f{i}<D: Sync>(d: &D, _: u8, (p, q): (u8, u8), _: u8) -> u8 {{ {i} }}" for i in range(12)) + "\n}"),
    ("#[::entrait::entrait(pub T, mockall)]", "mod async_mod {\n    pub async fn a<D>(d: &D, _: &str) -> u8 { 1 }\n    pub(crate) async fn b(d: &impl Sync, x: u8) {}\n}"),
    ("#[::entrait::entrait]", "pub trait Leaf { fn m(&self, _: u8, _: u8) -> u8; async fn n(&self); }"),
    ("#[::entrait::entrait(delegate_by = ref)]", "pub trait Dy<G> where G: Sync { fn m(&self, g: G) -> G; }"),
    ("#[::entrait::entrait(LImpl, delegate_by = DelegateL, mock_api = LMock)]", "pub trait L: 'static { fn m(&self, (a, b): (u8, u8)) -> u8; fn n<'a>(&'a self, s: &'a str) -> &'a str; }"),
    ("#[::entrait::entrait(RImpl, delegate_by = ref)]", "pub trait R { async fn m(&self, a: u8) -> u8; }"),
    ("#[::entrait::entrait]", "impl LImpl for X { fn m(d: &impl Sync, (a, b): (u8, u8)) -> u8 { a } fn n<'a, D>(d: &D, s: &'a str) -> &'a str { s } }"),
    ("#[::entrait::entrait(ref)]", "#[async_trait::async_trait]\nimpl RImpl for X { async fn m<D: Sync>(d: &D, _: u8) -> u8 { 0 } }"),
    ("#[::entrait::entrait(pub T)]", "fn conc(deps: &crate::Wr, _: u8, _: u8) -> u8 { 0 }"),
    ("#[::entrait::entrait_export(pub T, mock_api=Api)]", "fn exported(deps: &(impl Sync + Send), a: u8, _: u8) -> u8 { a }"),
    # every delegation kind of trait mode (also the deprecated one), options that are rarely written out
    ("#[::entrait::entrait(delegate_by = Borrow)]", "pub trait Bo: 'static { fn m(&self, a: u8) -> u8; }"),
    ("#[::entrait::entrait(BoImpl, delegate_by = Borrow)]", "pub trait BoT { fn m(&self, a: u8) -> u8; }"),
    ("#[::entrait::entrait(delegate_by = Self)]", "pub trait SelfT { fn m(&self, (a, b): (u8, u8)) -> u8; }"),
    ("#[::entrait::entrait(mockall, ?Send)]", "pub trait NoSendT { async fn m(&self, a: u8) -> u8; async fn unit(&self); }"),
    ("#[::entrait::entrait(pub T, export = false, mockall, debug = false)]", "fn explicit<D>(deps: &D, a: u8) -> u8 { a }"),
    ("#[::entrait::entrait(dyn)]", "impl RImpl for X { fn m<D: Sync>(d: &D, _: u8) -> u8 { 0 } }"),
    # invocations that refer to each other's generated traits by name, the same invocation before AND after the one it names:
    # what an invocation generates must not depend on what an earlier one (with other options) generated for that name
    ("#[::entrait::entrait(pub Report)]", "async fn report(deps: &impl Ui, a: u8) -> u8 { a }"),
    ("#[::entrait::entrait(pub Report2, mockall)]", "mod report2 {\n    pub async fn r2<D: Ui + Sync>(deps: &D) {}\n    pub fn r3<D>(deps: &D) where D: Ui {}\n}"),
    ("#[::entrait::entrait(pub Ui, ?Send)]", "async fn ui<D>(deps: &D, a: u8) -> u8 { a }"),
    ("#[::entrait::entrait(pub Report)]", "async fn report(deps: &impl Ui, a: u8) -> u8 { a }"),
    ("#[::entrait::entrait(pub Report2, mockall)]", "mod report2 {\n    pub async fn r2<D: Ui + Sync>(deps: &D) {}\n    pub fn r3<D>(deps: &D) where D: Ui {}\n}"),
    ("#[::entrait::entrait(pub Ui, export, mock_api = UiMock, unimock)]", "fn ui<D>(deps: &D, a: u8) -> u8 { a }"),
    ("#[::entrait::entrait(pub Report)]", "async fn report(deps: &impl Ui, a: u8) -> u8 { a }"),
]


def build(seed, nrand=200):
    rng = random.Random(seed)
    out = []
    for n, (attr, item) in enumerate(HAND):
        out.append((f"h{n:03d}", f"use crate::nothing;\n{attr}\n{item}\n"))
    for n in range(nrand):
        kind, attr, item = soup.gen_case(rng, n)
        out.append((f"r{n:04d}", f"use crate::nothing;\n{attr}\n{item}\n"))
    return out
