"""Renderer for the C12 inputs of spec/MC_C12.tla: async fn / mod / trait / impl-block items with the compile
witnesses (exact Output, Send required by callers, non-Send body)."""

PRELUDE = """
pub struct App;
pub trait HasName { fn name(&self) -> &str; }
impl HasName for ::entrait::Impl<App> { fn name(&self) -> &str { "app" } }
pub struct ConcN;
impl HasName for ConcN { fn name(&self) -> &str { "conc" } }
pub fn assert_output<R, F: ::core::future::Future<Output = R>>(_: &F) {}
pub fn is_send<X: Send>(_: &X) {}
"""

RET = {"unit": ("", "()", "", ""), "owned": (" -> String", "String", "", ""), "borrow-deps": (" -> &'a str", "&'a str", "", ""),
       "borrow-arg": (" -> &'a str", "&'a str", ", s: &'a str", ", s"), "generic": (" -> G", "u8", ", g: G", ", 7u8"),
       "tuple": (" -> (u8, String)", "(u8, String)", "", ""), "result": (" -> Result<u8, String>", "Result<u8, String>", "", ""),
       "static": (" -> &'static str", "&'static str", "", "")}
VALUE = {"unit": "", "owned": 'String::from("x")', "borrow-deps": "deps.name()", "borrow-arg": "s", "generic": "g",
         "tuple": '(1u8, String::from("x"))', "result": "Ok(1u8)", "static": '"s"'}


def body(ret, rc):
    pre = "let rc = ::std::rc::Rc::new(1u8); " if rc else ""
    post = "let _keep = *rc; " if rc else ""
    return "{ " + pre + "::vt::yield_once().await; " + post + VALUE[ret] + " }"


def render(i, variant):
    mode, ret, nosend = i["mode"], i["ret"], i["nosend"]
    rc = variant == "rc"
    rdecl, rty, pdecl, pargs = RET[ret]
    ns = ((", ?Send = true" if nosend else ", ?Send = false") if i.get("valued") else (", ?Send" if nosend else "")) + (", mockall" if i.get("mockall") else "")
    lt = "'a, " if ret in ("borrow-deps", "borrow-arg") else ""
    g = ", G: Send + 'static" if ret == "generic" else ""
    targ = "<u8>" if ret == "generic" else ""
    tgen = "<G: Send + 'static>" if ret == "generic" else ""
    at = ("#[::async_trait::async_trait(?Send)]\n" if i.get("atargs") else "#[::async_trait::async_trait]\n") if mode.endswith("-at") else ""
    items = []
    byvalue = i.get("recv") == "value"
    if mode in ("fn-at", "mod-at"):
        mode = mode[:-3]
    if mode in ("fn", "mod", "fn-concrete"):
        conc = mode == "fn-concrete"
        if conc:
            deps = "deps: &'a crate::ConcN" if ret == "borrow-deps" else "deps: &crate::ConcN"
        else:
            deps = "deps: &'a impl crate::HasName" if ret == "borrow-deps" else "deps: &D"
        gens = f"<{lt}{'' if (ret == 'borrow-deps' or conc) else 'D: Sync'}{g}>".replace("<, ", "<").replace(", >", ">").replace("<'a, >", "<'a>")
        if gens == "<>":
            gens = ""
        f = f"async fn f{gens}({deps}{pdecl}){rdecl} {body(ret, rc)}"
        if mode in ("fn", "fn-concrete"):
            items.append(f"#[::entrait::entrait(pub T{ns})]\n{at}{f}\n")
        else:
            items.append(f"#[::entrait::entrait(pub T{ns})]\n{at}pub mod m {{\n    use super::*;\n    pub {f}\n    pub async fn other<D: Sync>(deps: &D) -> u8 {{ 1 }}\n}}\n")
    else:
        mlt = "<'a>" if ret == "borrow-arg" else ""
        selfp = "self" if byvalue else "&self"
        msig = f"async fn f{mlt}({selfp}{pdecl}){rdecl}"
        base = mode.replace("-at", "")
        if base == "trait-self":
            items.append(f"#[::entrait::entrait({ns.strip(', ')})]\n{at}pub trait T{tgen} {{ {msig}; }}\n")
            items.append(f"{at}impl T{targ} for crate::App {{ {msig.replace('G', 'u8')} {body(ret, rc)} }}\n")
        elif base == "trait-ref":
            items.append(f"#[::entrait::entrait(delegate_by = ref)]\n{at}pub trait T{tgen}: Sync + 'static {{ {msig}; }}\n")
            items.append(f"pub struct Inner;\n{at}impl T{targ} for Inner {{ {msig.replace('G', 'u8')} {body(ret, rc)} }}\n")
            items.append(f"impl AsRef<dyn T{targ}> for crate::App {{ fn as_ref(&self) -> &(dyn T{targ} + 'static) {{ &Inner }} }}\n")
        else:
            dyn = base == "di-dyn"
            attr = f"TI, delegate_by = {'ref' if dyn else 'Del'}{ns}"
            items.append(f"#[::entrait::entrait({attr})]\n{at}pub trait T {{ {msig}; }}\n")
            ea = "#[::entrait::entrait(ref)]" if dyn else "#[::entrait::entrait]"
            flt = "<'a, D: Sync>" if ret == "borrow-arg" else "<D: Sync>"
            items.append(f"pub struct X;\n{ea}\n{at}impl TI for X {{ pub async fn f{flt}(deps: &D{pdecl}){rdecl} {body(ret, rc)} }}\n")
            if dyn:
                items.append("impl AsRef<dyn TI<Self> + Sync> for crate::App { fn as_ref(&self) -> &(dyn TI<Self> + Sync + 'static) { &X } }\n")
            else:
                items.append("impl Del<Self> for crate::App { type Target = X; }\n")
    src = "use crate::*;\n" + "\n".join(items)
    recv = "crate::ConcN" if mode == "fn-concrete" else "::entrait::Impl<crate::App>"
    if variant == "base":
        arg = "::entrait::Impl::new(crate::App)" if byvalue else "app"
        src += (f"pub fn w_output<'a>(app: &'a {recv}, s: &'a str) {{ let fut = T::f({arg}{pargs}); "
                f"assert_output::<{rty}, _>(&fut); let _ = ::vt::block_on(fut); }}\n")
    elif variant == "send" and byvalue:
        # the future owns the receiver: a caller that owns a Send receiver may require a Send future
        src += f"pub fn w_send<'a, A: T{targ} + Sync + Send>(app: A, s: &'a str) {{ let fut = app.f({pargs.lstrip(', ')}); is_send(&fut); }}\n"
    elif variant == "send":
        src += f"pub fn w_send<'a, A: T{targ} + Sync>(app: &'a A, s: &'a str) {{ let fut = app.f({pargs.lstrip(', ')}); is_send(&fut); }}\n"
    return src
