"""Renderer for the abstract trait programs of spec/TraitPrograms.tla (C06: entraited traits with logging
providers; C07: dependency inversion with two competing logging targets)."""
import random

PARAM_TY = {"i32": "i32", "string": "String", "str": "&str"}


def params_of(p):
    """[(name, type, log expression)]"""
    out = []
    for j, k in enumerate(p["params"], start=1):
        n = f"a{9 - j}"         # names DESCEND with the position: declaration order is not alphabetical order
        log = {"i32": f'format!("{{:?}}", {n})', "string": f"{n}.clone()", "str": f"{n}.to_string()"}[k]
        out.append((n, PARAM_TY[k], log))
    return out


def args_of(p, rng):
    exprs, logged = [], []
    for k in p["params"]:
        v = rng.randint(-900, 900)
        if k == "i32":
            exprs.append(str(v)); logged.append(str(v))
        elif k == "string":
            exprs.append(f'String::from("s{v}")'); logged.append(f"s{v}")
        else:
            exprs.append(f'"r{v}"'); logged.append(f"r{v}")
    return exprs, logged


def js_list(logged):
    return ",".join('\\"' + l + '\\"' for l in logged)


def args_json_expr(logs):
    if not logs:
        return "String::new()"
    return "String::new() + &" + " + \",\" + &".join(f"::vt::js(&{l})" for l in logs)


def logging_body(fname_expr, ident_expr, logs, is_async, extra=""):
    """a body that logs enter/exit and returns a String naming itself and its arguments"""
    return f"""{{
        let __f: String = {fname_expr};
        let __args: String = {args_json_expr(logs)};
        ::vt::emit("enter", &format!("\\"f\\":{{}},\\"deps\\":{{}},\\"args\\":[{{}}]", ::vt::js(&__f), ::vt::js(&{ident_expr}), __args));
        {"::vt::yield_once().await;" if is_async else ""}
        {extra}
        let __val = format!("{{}}({{}})", __f, __args);
        ::vt::emit("exit", &format!("\\"f\\":{{}},\\"val\\":{{}}", ::vt::js(&__f), ::vt::js(&__val)));
        __val
    }}"""


def scenario(case, n, recv_expr, mname, logged, call_expr, is_async, make=""):
    lines = [f'::vt::emit("scenario", "\\"case\\":\\"{case}\\",\\"sc\\":{n}");', make,
             f'::vt::emit("call", &format!("\\"m\\":\\"{mname}\\",\\"recv\\":{{}},\\"args\\":[{js_list(logged)}]", ::vt::js(&{recv_expr})));']
    if is_async:
        lines += [f"let fut = {call_expr};", f'::vt::emit("future", "\\"m\\":\\"{mname}\\"");', "let r = ::vt::block_on(fut);"]
    else:
        lines += [f"let r = {call_expr};"]
    lines += ["let r: String = r.to_string();",
              f'::vt::emit("ret", &format!("\\"m\\":\\"{mname}\\",\\"val\\":{{}}", ::vt::js(&r)));',
              '::vt::emit("end", &format!("\\"panicked\\":false,\\"result\\":{}", ::vt::js(&r)));']
    return "{ " + "\n      ".join(l for l in lines if l) + " }"


# ------------------------------------------------------------------------------------------------
# C06
# ------------------------------------------------------------------------------------------------

def render_c06(case, c, seed):
    p = c["prog"]
    rng = random.Random(f"{seed}:{case}")
    is_async = p["async"] != "no"
    at = "#[::async_trait::async_trait]\n" if p["async"] == "async_trait" else ""
    sel = p["sel"]
    attr = {"Self": "", "ref": "delegate_by = ref", "Borrow": "delegate_by = Borrow"}[sel]
    generic = p["extra"] in ("generic-trait", "where", "default-param")
    tgen_decl = ""
    twhere = ""
    targs = ""
    if p["extra"] == "generic-trait":
        tgen_decl, targs = "<G: ::core::fmt::Debug + Send + Sync + 'static>", "<i32>"
    elif p["extra"] == "where":
        tgen_decl, twhere, targs = "<G>", " where G: ::core::fmt::Debug + Send + Sync + 'static", "<i32>"
    elif p["extra"] == "default-param":
        tgen_decl, twhere, targs = "<G = i32>", " where G: ::core::fmt::Debug + Send + Sync + 'static", "<i32>"
    elif p["extra"] == "unsized-param":
        tgen_decl, targs = "<K: ?Sized + Sync + 'static>", "<str>"
    elif p["extra"] == "lifetime-trait":
        # two lifetime parameters related by a where-predicate that the method needs
        tgen_decl, twhere, targs = "<'t, 'u>", " where 't: 'u", "<'static, 'static>"
    supers = []
    if p["extra"] == "supertrait":
        supers.append("Sup")
    if sel != "Self":
        # (a trait with a lifetime parameter cannot also be `'static` and be used through `dyn Tr<'t>`: that would
        #  need `'t: 'static` in any delegation, hand-written ones included)
        if p["extra"] != "lifetime-trait":
            supers.append("'static")
        if is_async:
            supers.append("Sync")
    sup = (": " + " + ".join(supers)) if supers else ""
    ps = params_of(p)
    sig_params = "".join(f", {n}: {t}" for n, t, _ in ps)
    fnkw = "async fn" if is_async else "fn"
    methods = [f"    {fnkw} m{i}(&self{sig_params}) -> String;" for i in range(1, p["nmeth"] + 1)]
    extra_methods = []   # (name, decl, impl body builder, call args, logged)
    if generic:
        methods.append(f"    {fnkw} gx(&self, g: G) -> String;")
    if p["extra"] == "generic-method":
        methods.append(f"    {fnkw} gm<X: ::core::fmt::Debug + Send>(&self, x: X) -> String;")
    if p["extra"] == "borrowed-return":
        methods.append("    fn br<'a>(&'a self, s: &'a str) -> &'a str;")
    if p["extra"] == "byvalue-method":
        methods.append("    fn consume(self, x: i32) -> String;")
    if p["extra"] == "typed-receiver":
        methods.append(f"    {fnkw} tr(self: &Self, x: i32) -> String;")
    if p["extra"] == "unsized-param":
        methods.append(f"    {fnkw} uk(&self, k: &K) -> String;")
    if p["extra"] == "lifetime-trait":
        methods.append("    fn lt(&self, s: &'t str, _u: &'u str) -> &'u str;")
    trait_text = (f"#[::entrait::entrait({attr})]\n{at}pub trait Tr{tgen_decl}{sup}{twhere} {{\n" + "\n".join(methods) + "\n}\n")

    # provider impl block for a type; `owner` expression gives the application's name, `me` the identity
    def provider_impl(ty, owner_expr, me_expr="::vt::addr(self)"):
        ms = []
        # a provider that is not Sync cannot hold `&self` across an await of a Send future: it answers with a ready future
        ready = (p["async"] == "native" and ty == "ProvNoSync")

        def method(sig, fname, logs):
            if ready:
                body = logging_body(fname, me_expr, logs, False)
                return f"    fn {sig} -> impl ::core::future::Future<Output = String> + Send {{ ::core::future::ready({body}) }}"
            return f"    {fnkw} {sig} -> String {logging_body(fname, me_expr, logs, is_async)}"

        for i in range(1, p["nmeth"] + 1):
            ms.append(method(f"m{i}(&self{sig_params})", f'format!("provider:{{}}::m{i}", {owner_expr})', [l for _, _, l in ps]))
        if generic:
            ms.append(method("gx(&self, g: i32)", f'format!("provider:{{}}::gx", {owner_expr})', ['format!("{:?}", g)']))
        if p["extra"] == "generic-method":
            ms.append(method("gm<X: ::core::fmt::Debug + Send>(&self, x: X)", f'format!("provider:{{}}::gm", {owner_expr})', ['format!("{:?}", x)']))
        if p["extra"] == "byvalue-method":
            body = logging_body(f'format!("provider:{{}}::consume", {owner_expr})', 'String::from("by-value")', ['format!("{:?}", x)'], False)
            ms.append(f"    fn consume(self, x: i32) -> String {body}")
        if p["extra"] == "typed-receiver":
            ms.append(method("tr(self: &Self, x: i32)", f'format!("provider:{{}}::tr", {owner_expr})', ['format!("{:?}", x)']))
        if p["extra"] == "unsized-param":
            ms.append(method("uk(&self, k: &str)", f'format!("provider:{{}}::uk", {owner_expr})', ['k.to_string()']))
        if p["extra"] == "lifetime-trait":
            ms.append(f"""    fn lt(&self, s: &'static str, _u: &'static str) -> &'static str {{
        let __f: String = format!("provider:{{}}::lt", {owner_expr});
        ::vt::emit("enter", &format!("\\"f\\":{{}},\\"deps\\":{{}},\\"args\\":[{{}}]", ::vt::js(&__f), ::vt::js(&{me_expr}), ::vt::js(&s.to_string())));
        ::vt::emit("exit", &format!("\\"f\\":{{}},\\"val\\":{{}}", ::vt::js(&__f), ::vt::js(&s.to_string())));
        s
    }}""")
        if p["extra"] == "borrowed-return":
            ms.append(f"""    fn br<'a>(&'a self, s: &'a str) -> &'a str {{
        let __f: String = format!("provider:{{}}::br", {owner_expr});
        ::vt::emit("enter", &format!("\\"f\\":{{}},\\"deps\\":{{}},\\"args\\":[{{}}]", ::vt::js(&__f), ::vt::js(&{me_expr}), ::vt::js(&s.to_string())));
        ::vt::emit("exit", &format!("\\"f\\":{{}},\\"val\\":{{}}", ::vt::js(&__f), ::vt::js(&s.to_string())));
        s
    }}""")
        sup_impl = f"impl Sup for {ty} {{}}\n" if p["extra"] == "supertrait" else ""
        return f"{sup_impl}{at}impl Tr{targs} for {ty} {{\n" + "\n".join(ms) + "\n}\n"

    apps = {"Prov": "", "NoProv": "", "ProvNoSync": "pub c: ::core::cell::Cell<u8>, ", "ProvNoSend": "pub p: ::core::marker::PhantomData<::std::sync::MutexGuard<'static, ()>>, "}
    decls = ["pub struct Inner { pub owner: &'static str }"]
    for a, extra_field in apps.items():
        decls.append(f"pub struct {a} {{ {extra_field}pub inner: Inner }}")
    impls = []
    dyn_ty = f"dyn Tr{targs}"
    if sel == "Self":
        for a in ("Prov", "ProvNoSync", "ProvNoSend"):
            if a == "ProvNoSync" and p["async"] == "async_trait":
                continue      # an async_trait impl on a non-Sync type cannot produce Send futures: this app then simply lacks the trait
            impls.append(provider_impl(a, f'"{a}"'))
    else:
        impls.append(provider_impl("Inner", "self.owner"))
        for a in ("Prov", "ProvNoSync", "ProvNoSend"):
            if sel == "ref":
                impls.append(f"impl AsRef<{dyn_ty}> for {a} {{ fn as_ref(&self) -> &({dyn_ty} + 'static) {{ &self.inner }} }}")
            else:
                impls.append(f"impl ::core::borrow::Borrow<{dyn_ty}> for {a} {{ fn borrow(&self) -> &({dyn_ty} + 'static) {{ &self.inner }} }}")
    sup_text = "pub trait Sup {}\nimpl<T> Sup for ::entrait::Impl<T> {}\n" if p["extra"] == "supertrait" else ""

    def mk(a):
        fields = {"Prov": "", "NoProv": "", "ProvNoSync": "c: ::core::cell::Cell::new(0), ", "ProvNoSend": "p: ::core::marker::PhantomData, "}[a]
        return f'::entrait::Impl::new({a} {{ {fields}inner: Inner {{ owner: "{a}" }} }})'

    scs = []
    descs = {}
    n = 0
    own = {}
    calls = []
    for i in range(1, p["nmeth"] + 1):
        exprs, logged = args_of(p, rng)
        calls.append((f"m{i}", exprs, logged, is_async))
        own[f"m{i}"] = f"provider:Prov::m{i}"
    if generic:
        v = rng.randint(1, 99)
        calls.append(("gx", [str(v)], [str(v)], is_async)); own["gx"] = "provider:Prov::gx"
    if p["extra"] == "generic-method":
        v = rng.randint(1, 99)
        calls.append(("gm", [f"{v}u8"], [str(v)], is_async)); own["gm"] = "provider:Prov::gm"
    if p["extra"] == "borrowed-return":
        calls.append(("br", ['"borrowed"'], ["borrowed"], False)); own["br"] = "provider:Prov::br"
    if p["extra"] == "typed-receiver":
        v = rng.randint(1, 99)
        calls.append(("tr", [str(v)], [str(v)], is_async)); own["tr"] = "provider:Prov::tr"
    if p["extra"] == "unsized-param":
        calls.append(("uk", ['"key"'], ["key"], is_async)); own["uk"] = "provider:Prov::uk"
    if p["extra"] == "lifetime-trait":
        calls.append(("lt", ['"lifetime"', '"u"'], ["lifetime"], False)); own["lt"] = "provider:Prov::lt"
    depsmap = {m: "recv" for m in own}
    recv = "::vt::addr(&*app)" if sel == "Self" else "::vt::addr(&app.inner)"
    for (m, exprs, logged, asy) in calls:
        n += 1
        call = f"Tr::{m}(&app{''.join(', ' + e for e in exprs)})"
        scs.append(scenario(case, n, recv, m, logged, call, asy, make=f"let app = {mk('Prov')};"))
        descs[n] = {"own": own, "deps": depsmap, "expect": "ok", "avail": {}, "pair": "", "allocpair": "", "answer": "", "kind": "trait"}
    # availability (of the trait, and of the method-less sibling trait `Mark` of the "marker" programs)
    marker_text = ""
    probed = [f"Tr{targs}"]
    if p["extra"] == "marker":
        probed.append("Mark")
        msup = "" if sel == "Self" else ": 'static"
        marker_text = f"#[::entrait::entrait({attr})]\npub trait Mark{msup} {{}}\n"
        if sel == "Self":
            marker_text += "".join(f"impl Mark for {a} {{}}\n" for a in ("Prov", "ProvNoSync", "ProvNoSend"))
        else:
            marker_text += "impl Mark for Inner {}\n"
            for a in ("Prov", "ProvNoSync", "ProvNoSend"):
                if sel == "ref":
                    marker_text += f"impl AsRef<dyn Mark> for {a} {{ fn as_ref(&self) -> &(dyn Mark + 'static) {{ &self.inner }} }}\n"
                else:
                    marker_text += f"impl ::core::borrow::Borrow<dyn Mark> for {a} {{ fn borrow(&self) -> &(dyn Mark + 'static) {{ &self.inner }} }}\n"
    for tr in probed:
        n += 1
        probes = [f'::vt::emit("scenario", "\\"case\\":\\"{case}\\",\\"sc\\":{n}");']
        for a in apps:
            if tr == "Mark" and sel == "Self" and a == "ProvNoSync" and p["async"] == "async_trait":
                pass
            probes.append(f'::vt::emit("avail", &format!("\\"probe\\":\\"{a}\\",\\"has\\":{{}}", ::vt::has_impl!(::entrait::Impl<{a}>: {tr})));')
        probes.append('::vt::emit("end", "\\"panicked\\":false,\\"result\\":\\"\\"");')
        scs.append("{ " + "\n      ".join(probes) + " }")
        descs[n] = {"own": {}, "deps": {}, "expect": "ok", "avail": {a: c["avail"][a]["expect"] for a in apps}, "pair": "", "allocpair": "",
                    "answer": "", "kind": "avail"}
    imports = "#[allow(unused_imports)] use ::core::borrow::Borrow;\n#[allow(unused_imports)] use ::core::convert::AsRef;\n"
    src = (imports + sup_text + trait_text + marker_text + "\n".join(decls) + "\n" + "\n".join(impls) + "\npub fn run() {\n    " + "\n    ".join(scs) + "\n}\n")
    return src, descs


# ------------------------------------------------------------------------------------------------
# C07
# ------------------------------------------------------------------------------------------------

def render_c07(case, c, seed):
    p = c["prog"]
    rng = random.Random(f"{seed}:{case}")
    is_async = p["async"] != "no"
    at = "#[::async_trait::async_trait]\n" if p["async"] == "async_trait" else ""
    static = p["kind"] == "static"
    ps = params_of(p)
    sig_params = "".join(f", {n}: {t}" for n, t, _ in ps)
    fnkw = "async fn" if is_async else "fn"
    others = []
    # depbounds 0..2: that many entraited fns as further dependencies; 3: two instantiations of one generic LEAF trait
    # (`Leaf<u8> + Leaf<u16>`: same last path segment, and not implemented for every Impl<T>)
    leaf = p["depbounds"] == 3
    nb = 0 if leaf else p["depbounds"]
    for k in range(1, nb + 1):
        body = logging_body(f'String::from("{case}::other{k}")', "::vt::addr(deps)", ['format!("{:?}", x)'], False)
        others.append(f"#[::entrait::entrait(pub Other{k})]\nfn other{k}<D>(deps: &D, x: i32) -> String {body}\n")
    borrow = p["kind"] == "dynborrow"
    attr = "TrImpl, delegate_by = DelegateTr" if static else ("TrImpl, delegate_by = Borrow" if borrow else "TrImpl, delegate_by = ref")
    methods = [f"    {fnkw} m{i}(&self{sig_params}) -> String;" for i in range(1, p["nmeth"] + 1)]
    if p.get("typed"):
        methods = [m.replace("(&self", "(self: &Self") for m in methods]
    if p.get("mixed"):
        methods.append("    fn level(&self) -> u8;")
    trait_text = f"#[::entrait::entrait({attr})]\n{at}pub trait Tr {{\n" + "\n".join(methods) + "\n}\n"
    if leaf:
        gen, deps_ty = "", "&(impl Leaf<u8> + Leaf<u16>)"
        others.append("#[::entrait::entrait]\npub trait Leaf<K> { fn leaf(&self, k: K) -> u8; }\n"
                      + "".join(f"impl Leaf<{k}> for {a} {{ fn leaf(&self, _k: {k}) -> u8 {{ {v} }} }}\n" for a in ("A", "B") for k, v in (("u8", 8), ("u16", 16))))
    elif p["depbounds"] == 0:
        gen, deps_ty = "<D>", "&D"
    elif p["depbounds"] == 1:
        gen, deps_ty = "", "&impl Other1"
    else:
        gen, deps_ty = "", "&(impl Other1 + Other2)"

    generic_target = p.get("target") == "generic"
    tyname = {"X1": "X<P1>", "X2": "X<P2>"} if generic_target else {"X1": "X1", "X2": "X2"}
    tyval = {"X1": "X::<P1>(::core::marker::PhantomData)", "X2": "X::<P2>(::core::marker::PhantomData)"} if generic_target else {"X1": "X1", "X2": "X2"}

    def target_impl(x):
        ms = []
        for i in range(1, p["nmeth"] + 1):
            nested = "let _ = (deps.leaf(1u8), deps.leaf(2u16));\n        " if leaf else ""
            for k in range(1, nb + 1):
                v = 100 * i + k
                nested += (f'::vt::emit("call", &format!("\\"m\\":\\"other{k}\\",\\"recv\\":{{}},\\"args\\":[\\"{v}\\"]", ::vt::js(&::vt::addr(deps))));\n'
                           f'        let __n{k} = deps.other{k}({v});\n'
                           f'        ::vt::emit("ret", &format!("\\"m\\":\\"other{k}\\",\\"val\\":{{}}", ::vt::js(&__n{k})));\n        ')
            body = logging_body(f'String::from("target:{x}::m{i}")', "::vt::addr(deps)", [l for _, _, l in ps], is_async, extra=nested)
            ms.append(f"    pub {fnkw} m{i}{gen}(deps: {deps_ty}{sig_params}) -> String {body}")
        if p.get("mixed"):
            ms.append("    pub fn level<D>(_deps: &D) -> u8 { 7 }")
        ea = "#[::entrait::entrait]" if static else "#[::entrait::entrait(ref)]"
        decl = "" if generic_target else f"pub struct {x};\n"
        return f"{decl}{ea}\n{at}impl TrImpl for {tyname[x]} {{\n" + "\n".join(ms) + "\n}\n"

    glue = ["pub struct A; pub struct B; pub struct NoSel;"]
    if generic_target:
        glue.append("pub struct P1; pub struct P2; pub struct X<P>(pub ::core::marker::PhantomData<P>);\n"
                    "unsafe impl<P> Sync for X<P> {}\nstatic XP1: X<P1> = X(::core::marker::PhantomData);\nstatic XP2: X<P2> = X(::core::marker::PhantomData);")
    sync = " + Sync" if is_async else ""
    for a, x in (("A", "X1"), ("B", "X2")):
        if static:
            glue.append(f"impl DelegateTr<Self> for {a} {{ type Target = {tyname[x]}; }}")
        else:
            ref = {"X1": "&XP1", "X2": "&XP2"}[x] if generic_target else f"&{x}"
            if borrow:
                # selection through Borrow; the application ALSO hands out the OTHER target through AsRef (a decoy that must not be reached)
                other = {"X1": "X2", "X2": "X1"}[x]
                oref = {"X1": "&XP1", "X2": "&XP2"}[other] if generic_target else f"&{other}"
                glue.append(f"impl ::core::borrow::Borrow<dyn TrImpl<Self>{sync}> for {a} {{ fn borrow(&self) -> &(dyn TrImpl<Self>{sync} + 'static) {{ {ref} }} }}")
                glue.append(f"impl AsRef<dyn TrImpl<Self>{sync}> for {a} {{ fn as_ref(&self) -> &(dyn TrImpl<Self>{sync} + 'static) {{ {oref} }} }}")
                continue
            glue.append(f"impl AsRef<dyn TrImpl<Self>{sync}> for {a} {{ fn as_ref(&self) -> &(dyn TrImpl<Self>{sync} + 'static) {{ {ref} }} }}")
    scs, descs = [], {}
    n = 0
    for a, x in (("A", "X1"), ("B", "X2")):
        own = {f"m{i}": f"target:{x}::m{i}" for i in range(1, p["nmeth"] + 1)}
        own.update({f"other{k}": f"{case}::other{k}" for k in range(1, nb + 1)})
        depsmap = {m: "recv" for m in own}
        for i in range(1, p["nmeth"] + 1):
            n += 1
            exprs, logged = args_of(p, rng)
            call = f"Tr::m{i}(&app{''.join(', ' + e for e in exprs)})"
            scs.append(scenario(case, n, "::vt::addr(&app)", f"m{i}", logged, call, is_async, make=f"let app = ::entrait::Impl::new({a});"))
            descs[n] = {"own": own, "deps": depsmap, "expect": "ok", "avail": {}, "pair": "", "allocpair": "", "answer": "", "kind": "trait"}
    n += 1
    probes = [f'::vt::emit("scenario", "\\"case\\":\\"{case}\\",\\"sc\\":{n}");']
    for a in ("A", "B", "NoSel"):
        probes.append(f'::vt::emit("avail", &format!("\\"probe\\":\\"{a}\\",\\"has\\":{{}}", ::vt::has_impl!(::entrait::Impl<{a}>: Tr)));')
    probes.append('::vt::emit("end", "\\"panicked\\":false,\\"result\\":\\"\\"");')
    scs.append("{ " + "\n      ".join(probes) + " }")
    descs[n] = {"own": {}, "deps": {}, "expect": "ok", "avail": {a: c["avail"][a]["expect"] for a in ("A", "B", "NoSel")}, "pair": "",
                "allocpair": "", "answer": "", "kind": "avail"}
    src = ("".join(others) + trait_text + target_impl("X1") + target_impl("X2") + "\n".join(glue) +
           "\npub fn run() {\n    " + "\n    ".join(scs) + "\n}\n")
    return src, descs


# ------------------------------------------------------------------------------------------------
# C05: concrete dependency
# ------------------------------------------------------------------------------------------------

def render_c05(case, c, seed):
    p = c["prog"]
    rng = random.Random(f"{seed}:{case}")
    is_async = p["async"]
    fnkw = "async fn" if is_async else "fn"
    cty = {"ident": "Conc", "path": "self::Conc", "inst": "Gen<u8>", "tuple": "(u8, u16)", "reflife": "Conc"}[p["shape"]]
    cval = {"ident": 'Conc { name: "conc" }', "path": 'Conc { name: "conc" }', "inst": "Gen(7u8)", "tuple": "(1u8, 2u16)",
            "reflife": 'Conc { name: "conc" }'}[p["shape"]]
    ps = params_of(p)
    first_str = next((n for (n, t, _) in ps if t == "&str"), None)
    # lifetimes
    gens = ""
    deps_ty = f"&{cty}"
    ret_ty = "String"
    ptexts = []
    for (n, t, _) in ps:
        ptexts.append(f"{n}: {t}")
    if p["ret"] == "borrow-deps" or p["shape"] == "reflife":
        gens = "<'a>"
        deps_ty = f"&'a {cty}"
    if p["ret"] == "borrow-deps":
        ret_ty = "&'a str"
    if p["ret"] == "borrow-arg":
        gens = "<'b>" if not gens else "<'a, 'b>"
        ptexts = [f"{n}: &'b str" if n == first_str else f"{n}: {t}" for (n, t, _) in ps]
        ret_ty = "&'b str"
    sig_params = "".join(", " + x for x in ptexts)
    valexpr = {"owned": None, "borrow-deps": "deps.name", "borrow-arg": first_str}[p["ret"]]

    def body(fname, ident, extra="", value=None, is_provider=False):
        logs = [l for _, _, l in ps]
        v = value if value else 'format!("{}({})", __f, __args)'
        tail = "__val" if not value else "__val"
        return f"""{{
        let __f: String = String::from("{fname}");
        let __args: String = {args_json_expr(logs)};
        ::vt::emit("enter", &format!("\\"f\\":{{}},\\"deps\\":{{}},\\"args\\":[{{}}]", ::vt::js(&__f), ::vt::js(&{ident}), __args));
        {"::vt::yield_once().await;" if is_async else ""}
        {extra}
        let __val = {v};
        ::vt::emit("exit", &format!("\\"f\\":{{}},\\"val\\":{{}}", ::vt::js(&__f), ::vt::js(&__val.to_string())));
        {tail}
    }}"""

    mockopt = ", mockall" if p.get("mock") == "mockall" else ""
    fn_item = (f"#[::entrait::entrait(pub Tr{mockopt})]\n{fnkw} f{gens}(deps: {deps_ty}{sig_params}) -> {ret_ty} "
               + body(f"{case}::f", "::vt::addr(deps)", value=valexpr) + "\n")
    # hand-written impls
    self_ty = "&'a self" if "'a" in gens else "&self"
    argnames = "".join(f", {n}" for n, _, _ in ps)
    logged_args = args_json_expr([l for _, _, l in ps])
    awaitkw = ".await" if is_async else ""

    def handwritten(ty, cfield):
        inner = f"""let __cargs: String = {logged_args};
        ::vt::emit("call", &format!("\\"m\\":\\"fnf\\",\\"recv\\":{{}},\\"args\\":[{{}}]", ::vt::js(&::vt::addr(&self.{cfield})), __cargs));
        let __r = f(&self.{cfield}{argnames}){awaitkw};
        ::vt::emit("ret", &format!("\\"m\\":\\"fnf\\",\\"val\\":{{}}", ::vt::js(&__r.to_string())));"""
        # the provider's own enter/exit around the direct call
        logs = [l for _, _, l in ps]
        return f"""impl Tr for {ty} {{
    {fnkw} f{gens}({self_ty}{sig_params}) -> {ret_ty} {{
        let __f: String = String::from("provider:App::f");
        let __args: String = {args_json_expr(logs)};
        ::vt::emit("enter", &format!("\\"f\\":{{}},\\"deps\\":{{}},\\"args\\":[{{}}]", ::vt::js(&__f), ::vt::js(&::vt::addr(self)), __args));
        {inner}
        ::vt::emit("exit", &format!("\\"f\\":{{}},\\"val\\":{{}}", ::vt::js(&__f), ::vt::js(&__r.to_string())));
        __r
    }}
}}
"""
    types = f"""pub struct Conc {{ pub name: &'static str }}
pub struct Gen<T>(pub T);
pub struct AppT {{ pub c: {cty} }}
pub struct XT;
pub struct NoSyncT {{ pub c: {cty}, pub cell: ::core::cell::Cell<u8> }}
"""
    impls = handwritten("AppT", "c")
    with_nosync = not is_async
    if with_nosync:
        impls += handwritten("NoSyncT", "c")
    scs, descs = [], {}
    exprs, logged = args_of(p, rng)
    argl = "".join(", " + e for e in exprs)
    n = 0
    own_fn = {"f": f"{case}::f", "fnf": f"{case}::f"}
    own_app = {"f": "provider:App::f", "fnf": f"{case}::f"}
    depsmap = {"f": "recv", "fnf": "recv"}
    pair = f"{case}:p"
    plan = [("direct", f"let c: {cty} = {cval};", "::vt::addr(&c)", f"f(&c{argl})", own_fn),
            ("C", f"let c: {cty} = {cval};", "::vt::addr(&c)", f"Tr::f(&c{argl})", own_fn),
            ("ImplC", f"let app = ::entrait::Impl::new({cval});", "::vt::addr(&*app)", f"Tr::f(&app{argl})", own_fn),
            ("ImplApp", f"let app = ::entrait::Impl::new(AppT {{ c: {cval} }});", "::vt::addr(&*app)", f"Tr::f(&app{argl})", own_app)]
    for kind, make, recv, call, own in plan:
        n += 1
        scs.append(scenario(case, n, recv, "f", logged, call, is_async, make=make))
        descs[n] = {"own": own, "deps": depsmap, "expect": "ok", "avail": {}, "pair": pair, "allocpair": "", "answer": "", "kind": kind}
    n += 1
    probe_types = {"C": cty, "ImplC": f"::entrait::Impl<{cty}>", "App": "AppT", "ImplApp": "::entrait::Impl<AppT>", "X": "XT", "ImplX": "::entrait::Impl<XT>"}
    if with_nosync:
        probe_types.update({"NoSync": "NoSyncT", "ImplNoSync": "::entrait::Impl<NoSyncT>"})
    probes = [f'::vt::emit("scenario", "\\"case\\":\\"{case}\\",\\"sc\\":{n}");']
    for k, ty in probe_types.items():
        probes.append(f'::vt::emit("avail", &format!("\\"probe\\":\\"{k}\\",\\"has\\":{{}}", ::vt::has_impl!({ty}: Tr)));')
    probes.append('::vt::emit("end", "\\"panicked\\":false,\\"result\\":\\"\\"");')
    scs.append("{ " + "\n      ".join(probes) + " }")
    descs[n] = {"own": {}, "deps": {}, "expect": "ok", "avail": {k: c["avail"][k]["expect"] for k in probe_types}, "pair": "", "allocpair": "",
                "answer": "", "kind": "avail"}
    src = types + fn_item + impls + "pub fn run() {\n    " + "\n    ".join(scs) + "\n}\n"
    return src, descs
