"""Renderer for the C14 programs of spec/MC_C14.tla: call chains of depth 1..3 through generated traits, with
non-logging bodies whose innermost function performs a known number of heap allocations."""


def render(case, c):
    p = c["prog"]
    kind, depth, is_async, work = p["kind"], p["depth"], p["async"], p["work"]
    extra = " + crate::Marker" if p.get("bounds", 1) == 2 else ""
    fnkw = "async fn" if is_async else "fn"
    aw = ".await" if is_async else ""
    BIG = "let buf = [1u8; 4096]; ::vt::yield_once().await; "
    workbody = {0: "x + 1", 1: "let v: Vec<u64> = Vec::with_capacity(x as usize + 1); (v.capacity() as u64) + x",
                2: BIG + "(buf[(x as usize) % 4096] as u64) + x"}[work]
    RT = "u64"
    if p.get("ret", "value") == "ref":
        RT = "&'static str"
        workbody = {0: 'if x > 2 { "a" } else { "b" }',
                    1: 'let v: Vec<u64> = Vec::with_capacity(x as usize + 1); if v.capacity() > x as usize { "w" } else { "z" }',
                    2: BIG + 'if buf[(x as usize) % 4096] > 0 { "w" } else { "z" }'}[work]
    opaque = p.get("ret") == "opaque"
    if opaque:
        RT = "impl Fn() -> u64"
        workbody = "move || x + 1"
    mockopt = ", mockall" if p.get("mock") else ""
    items = []
    direct = trait = ""
    gen = p.get("gen", False)
    G = "<G: Send + Sync + 'static>" if gen else ""
    garg, gval = (", _g: G", ", 7u8") if gen else ("", "")
    if p.get("refarg"):
        garg, gval = ", _s: &str", ', "k"' 
    if kind in ("fn", "mod"):
        fns = []
        for k in range(1, depth + 1):
            if k < depth:
                deps, body = f"deps: &(impl T{k + 1}{extra})", f"deps.f{k + 1}(x + 1{', _s' if p.get('refarg') else ''}){aw}"
                if opaque:
                    # (the inner opaque value borrows `deps`: evaluate it and hand out a closure of this function's own)
                    body = f"let v = ({body})(); move || v"
            else:
                deps, body = f"deps: &(impl Sync{extra})", workbody
            if kind == "fn":
                fns.append(f"#[::entrait::entrait(pub T{k}{mockopt})]\n{fnkw} f{k}{G}({deps}, x: u64{garg}) -> {RT} {{ {body} }}\n")
            else:
                fns.append(f"#[::entrait::entrait(pub T{k}{mockopt})]\npub mod m{k} {{\n    use super::*;\n    pub {fnkw} f{k}{G}({deps}, x: u64{garg}) -> {RT} {{ {body} }}\n"
                           f"    pub {fnkw} other{k}(deps: &impl Sync) -> u64 {{ 0 }}\n}}\n")
        items = fns
        path = "m1::f1" if kind == "mod" else "f1"
        direct, trait = f"{path}(&app, 3{gval})", f"T1::f1(&app, 3{gval})"
        mk = "let app = ::entrait::Impl::new(());"
    elif kind == "trait-self":
        # f1 -> .. -> f(depth-1) -> Leaf::m (hand-written provider on the application)
        at = ""
        items.append(f"#[::entrait::entrait]\npub trait Leaf {{ {fnkw} m(&self, x: u64) -> {RT}; }}\n")
        items.append(f"pub struct App;\nimpl Leaf for App {{ {fnkw} m(&self, x: u64) -> {RT} {{ {workbody} }} }}\n")
        for k in range(1, depth):
            nxt = f"deps.f{k + 1}(x + 1){aw}" if k < depth - 1 else f"deps.m(x + 1){aw}"
            bound = f"T{k + 1}" if k < depth - 1 else "Leaf"
            items.append(f"#[::entrait::entrait(pub T{k})]\n{fnkw} f{k}(deps: &(impl {bound}{extra}), x: u64) -> {RT} {{ {nxt} }}\n")
        mk = "let app = ::entrait::Impl::new(App);"
        if depth == 1:
            direct, trait = "Leaf::m(&*app, 3)", "Leaf::m(&app, 3)"
        else:
            direct, trait = "f1(&app, 3)", "T1::f1(&app, 3)"
    elif kind in ("static-di", "dyn-async-trait"):
        dyn = kind == "dyn-async-trait"
        at = "#[::async_trait::async_trait]\n" if dyn else ""
        attr = "TrImpl, delegate_by = ref" if dyn else "TrImpl, delegate_by = DelegateTr"
        items.append(f"#[::entrait::entrait({attr})]\n{at}pub trait Tr {{ {fnkw} m(&self, x: u64) -> {RT}; }}\n")
        ea = "#[::entrait::entrait(ref)]" if dyn else "#[::entrait::entrait]"
        items.append(f"pub struct X;\n{ea}\n{at}impl TrImpl for X {{ pub {fnkw} m(deps: &(impl Sync{extra}), x: u64) -> {RT} {{ {workbody} }} }}\n")
        items.append("pub struct App;")
        if dyn:
            items.append("impl AsRef<dyn TrImpl<Self> + Sync> for App { fn as_ref(&self) -> &(dyn TrImpl<Self> + Sync + 'static) { &X } }\n")
        else:
            items.append("impl DelegateTr<Self> for App { type Target = X; }\n")
        for k in range(1, depth):
            nxt = f"deps.f{k + 1}(x + 1){aw}" if k < depth - 1 else f"deps.m(x + 1){aw}"
            bound = f"T{k + 1}" if k < depth - 1 else "Tr"
            items.append(f"#[::entrait::entrait(pub T{k})]\n{fnkw} f{k}(deps: &(impl {bound}{extra}), x: u64) -> {RT} {{ {nxt} }}\n")
        mk = "let app = ::entrait::Impl::new(App);"
        if depth == 1:
            direct, trait = "X::m(&app, 3)", "Tr::m(&app, 3)"
        else:
            direct, trait = "f1(&app, 3)", "T1::f1(&app, 3)"
    scs = []
    descs = {}
    for n, (k, call) in enumerate((("direct", direct), ("trait", trait)), start=1):
        run = f"::vt::block_on({call})" if is_async else call
        if opaque:
            run = f"({run})()"
        scs.append(f"""{{ ::vt::emit("scenario", "\\"case\\":\\"{case}\\",\\"sc\\":{n}");
      {mk}
      let _warm = {run};
      let (r, n) = ::vt::count_allocs(|| {run});
      ::vt::emit("alloc", &format!("\\"allocs\\":{{}}", n));
      ::vt::emit("end", &format!("\\"panicked\\":false,\\"result\\":\\"{{}}\\"", r)); }}""")
        descs[n] = {"own": {}, "deps": {}, "expect": "ok", "avail": {}, "pair": f"{case}:r", "allocpair": (f"{case}:a" if c["static"] else ""),
                    "answer": "", "kind": k}
    src = "use crate::*;\n" + "\n".join(items) + "\npub fn run() {\n    " + "\n    ".join(scs) + "\n}\n"
    return src, descs
