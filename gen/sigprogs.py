"""Renderer for the C03 inputs of spec/MC_C03.tla: functions of the supported signature class, with a witness
that coerces the function and the generated trait method to ONE fn-pointer type written from the original
signature (async: ascribes both futures' Output)."""

PRELUDE = """
pub struct App;
pub struct Conc { pub name: &'static str }
pub trait HasName { fn name(&self) -> &str; }
impl HasName for ::entrait::Impl<App> { fn name(&self) -> &str { "app" } }
impl HasName for Conc { fn name(&self) -> &str { self.name } }
impl<T: HasName + Sync + 'static> HasName for ::entrait::Impl<T> where T: NotApp { fn name(&self) -> &str { (**self).name() } }
pub trait NotApp {}
impl NotApp for Conc {}
pub fn assert_output<R, F: ::core::future::Future<Output = R>>(_: &F) {}
pub trait HasLt<'x> { fn lt(&self, s: &'x str) -> &'x str; }
impl<'x> HasLt<'x> for ::entrait::Impl<App> { fn lt(&self, s: &'x str) -> &'x str { s } }
pub trait HasOut { type Out; }
impl HasOut for u8 { type Out = u8; }
"""

TY = {"owned": "String", "ref": "&str", "reflife": "&'a str", "implTrait": "impl ::core::fmt::Debug + Send", "array": "[u8; N]"}
PTY = {"owned": "String", "ref": "&str", "reflife": "&'a str", "generic": "u8", "implTrait": "u8", "array": "[u8; 3]"}     # in the fn-pointer type
VAL = {"owned": "String::new()", "ref": '"x"', "reflife": '"x"', "generic": "1u8", "implTrait": "1u8", "array": "[0u8; 3]"}


def fn_text(f, name, vis=""):
    d = f["deps"]
    gens, where = [], []
    uses_life = d["pass"] == "reflife" or "reflife" in f["params"] or f["ret"] in ("borrow-deps", "borrow-arg")
    if uses_life:
        gens.append("'a")
    if f["lwhere"]:
        if f["linline"]:
            gens.append("'b: 'a")
        else:
            gens.append("'b")
            where.append("'b: 'a")
    need_name = f["ret"] == "borrow-deps"
    amp = {"ref": "&", "reflife": "&'a ", "value": ""}[d["pass"]]
    params = []
    if "array" in f["params"] and f.get("cfirst"):
        gens.append("const N: usize")
    dvar = f.get("dvar", "plain")
    if d["kind"] == "generic":
        db = "crate::HasName + Sync" if need_name else "Sync"
        if dvar == "hrtb":
            gens.append("D")
            where.append(f"for<'x> D: crate::HasLt<'x> + {db}")
        elif dvar == "relaxed":
            gens.append(f"D: ?Sized + {db}")
        else:
            gens.append(f"D: {db}")
        params.append({"paren": f"deps: ({amp}D)", "group": "deps: $t"}.get(dvar, f"deps: {amp}D"))
    elif d["kind"] == "implTrait":
        params.append(f"deps: {amp}" + ("(impl crate::HasName + Sync)" if amp else "impl crate::HasName + Sync"))
    elif d["kind"] == "concrete":
        params.append(f"deps: {amp}" + ("Conc" if f.get("cform") == "ident" else "crate::Conc"))
    for j, t in enumerate(f["params"], start=1):
        if t == "generic":
            g = f"{f['gname']}{j}"
            b = "::core::fmt::Debug + Send + 'static"
            if f["bound"] == "where":
                gens.append(g)
                where.append(f"{g}: {b}")
            elif f["bound"] == "whereassoc":
                gens.append(g)
                where.append(f"{g}: {b} + crate::HasOut")
                where.append(f"{g}::Out: Send")
            else:
                gens.append(f"{g}: {b}")
            params.append(f"p{j}: {g}")
        elif t == "reflife" and f["lwhere"] and j == 2:
            params.append(f"p{j}: &'b str")
        else:
            params.append(f"p{j}: {TY[t]}")
    if "array" in f["params"] and not f.get("cfirst"):
        gens.append("const N: usize")
    ret = {"unit": "", "owned": " -> String", "borrow-deps": " -> &'a str", "borrow-arg": " -> &'a str", "borrow-arg-elided": " -> &str", "generic": f" -> {f['gname']}1"}[f["ret"]]
    body = {"unit": "", "owned": "String::new()", "borrow-deps": "deps.name()", "borrow-arg": "p1", "borrow-arg-elided": "p1", "generic": "p1"}[f["ret"]]
    q = {"plain": "", "unsafe": "unsafe ", "extern": 'extern "C" '}[f["qual"]]
    a = "async " if f["async"] else ""
    g = f"<{', '.join(gens)}>" if gens else ""
    w = f" where {', '.join(where)}" if where else ""
    return f"{vis}{a}{q}fn {name}{g}({', '.join(params)}){ret}{w} {{ {body} }}"


def ptr_type(f, with_recv, recv_ty):
    """the fn-pointer type of the ORIGINAL function seen as (receiver, arguments..) -> return"""
    d = f["deps"]
    lts = []
    uses_life = d["pass"] == "reflife" or "reflife" in f["params"] or f["ret"] in ("borrow-deps", "borrow-arg", "borrow-arg-elided")
    if uses_life:
        lts.append("'a")
    if f["lwhere"]:
        lts.append("'b")
    args = []
    if with_recv:
        amp = {"ref": "&", "reflife": "&'a ", "value": ""}[d["pass"]] if d["kind"] != "nodeps" else "&"
        args.append(f"{amp}{recv_ty}")
    for j, t in enumerate(f["params"], start=1):
        if t == "reflife" and f["lwhere"] and j == 2:
            args.append("&'b str")
        elif j == 1 and f["ret"] == "borrow-arg-elided":
            args.append("&'a str")        # the elided relation of the original function, written out
        else:
            args.append(PTY[t])
    ret = {"unit": "", "owned": " -> String", "borrow-deps": " -> &'a str", "borrow-arg": " -> &'a str", "borrow-arg-elided": " -> &'a str", "generic": " -> u8"}[f["ret"]]
    q = {"plain": "", "unsafe": "unsafe ", "extern": 'extern "C" '}[f["qual"]]
    return f"{q}fn({', '.join(args)}){ret}"


def witness_lts(f):
    d = f["deps"]
    uses_life = d["pass"] == "reflife" or "reflife" in f["params"] or f["ret"] in ("borrow-deps", "borrow-arg", "borrow-arg-elided")
    lts = (["'a"] if uses_life else []) + (["'b: 'a"] if f["lwhere"] else [])
    return f"<{', '.join(lts)}>" if lts else ""


def rty(f):
    return {"unit": "()", "owned": "String", "borrow-deps": "&'a str", "borrow-arg": "&'a str", "borrow-arg-elided": "&'a str", "generic": "u8"}[f["ret"]]


def witness(f, fpath, tpath, recv_ty, recv_mk, k):
    d = f["deps"]
    has_deps = d["kind"] != "nodeps"
    if not f["async"]:
        p_fn = ptr_type(f, has_deps, recv_ty)
        p_tr = ptr_type(f, True, recv_ty)
        return (f"pub fn witness{k}{witness_lts(f)}() {{\n    let _a: {p_fn} = {fpath};\n    let _b: {p_tr} = {tpath};\n}}\n")
    # async: call both with the same arguments and ascribe the Output
    args = [VAL[t] for t in f["params"]]
    amp = {"ref": "&", "reflife": "&", "value": ""}[d["pass"]] if has_deps else "&"
    byval = has_deps and d["pass"] == "value"
    ra = "recv_a" if byval else f"{amp}recv_a"
    rb = "recv_b" if byval else f"{amp}recv_b"
    fa = f"{fpath}({', '.join(([ra] if has_deps else []) + args)})"
    fb = f"{tpath}({', '.join([rb] + args)})"
    if f["qual"] == "unsafe":
        fa, fb = f"unsafe {{ {fa} }}", f"unsafe {{ {fb} }}"
    out_ty = rty(f).replace("'a ", "")
    return (f"pub fn witness{k}() {{\n    let recv_a = {recv_mk};\n    let recv_b = {recv_mk};\n    let fa = {fa};\n"
            f"    crate::assert_output::<{out_ty}, _>(&fa);\n"
            f"    let fb = {fb};\n    crate::assert_output::<{out_ty}, _>(&fb);\n}}\n")


def render(c):
    mode, fns = c["mode"], c["fns"]
    for g in fns:
        if not isinstance(g["lwhere"], bool):
            # "none" / "where" (`where 'b: 'a`) / "inline" (`<'a, 'b: 'a>`)
            g["linline"] = g["lwhere"] == "inline"
            g["lwhere"] = g["lwhere"] != "none"
    under = ", ".join("u8" if k == "type" else "3" for k in c["traitparams"])
    targs = f"<{under}>" if under else ""
    f = fns[0]
    conc = f["deps"]["kind"] == "concrete"
    recv_ty = "crate::Conc" if conc else "::entrait::Impl<crate::App>"
    recv_mk = 'crate::Conc { name: "c" }' if conc else "::entrait::Impl::new(crate::App)"
    nd = (", no_deps" if f["deps"]["kind"] == "nodeps" else "") + c.get("xopt", "")
    out = ["#[allow(unused_imports)] use crate::HasName as _;\n#[allow(unused_imports)] use crate::Conc;\n"]
    if mode == "fn":
        item = f"#[::entrait::entrait(pub T{nd})]\n{fn_text(f, 'f')}\n"
        if f.get("dvar") == "group":
            # the dependency type reaches the signature through a `$t:ty` fragment
            item = f"macro_rules! mk {{ ($t:ty) => {{ {item} }} }}\nmk!(&D);\n"
        out.append(item)
        out.append(witness(f, "f", f"<{recv_ty} as T{targs}>::f", recv_ty, recv_mk, 1))
    elif mode.startswith("mod"):
        body = "\n".join("    " + fn_text(g, f"f{k}", vis="pub ") for k, g in enumerate(fns, start=1))
        out.append(f"#[::entrait::entrait(pub T{nd})]\npub mod m {{\n{body}\n}}\n")
        for k, g in enumerate(fns, start=1):
            out.append(witness(g, f"m::f{k}", f"<{recv_ty} as T{targs}>::f{k}", recv_ty, recv_mk, k))
    else:
        dyn = mode == "impl-dyn"
        # the user's trait mirrors the function's signature with the dependency replaced by &self
        a = "async " if f["async"] else ""
        lts = []
        if "reflife" in f["params"] or f["ret"] == "borrow-arg" or f["deps"]["pass"] == "reflife":
            lts.append("'a")
        if f["lwhere"]:
            lts.append("'b: 'a" if f["linline"] else "'b")
        selfp = "&'a self" if f["deps"]["pass"] == "reflife" else "&self"
        ps = []
        for j, t in enumerate(f["params"], start=1):
            ps.append(f"p{j}: " + ("&'b str" if (t == "reflife" and f["lwhere"] and j == 2) else TY[t]))
        ret = {"unit": "", "owned": " -> String", "borrow-arg": " -> &'a str"}[f["ret"]]
        w = " where 'b: 'a" if (f["lwhere"] and not f["linline"]) else ""
        g = f"<{', '.join(lts)}>" if lts else ""
        attr = "TI, delegate_by = ref" if dyn else "TI, delegate_by = Del"
        out.append(f"#[::entrait::entrait({attr})]\npub trait Tr {{ {a}fn f{g}({', '.join([selfp] + ps)}){ret}{w}; }}\n")
        ea = "#[::entrait::entrait(ref)]" if dyn else "#[::entrait::entrait]"
        out.append(f"pub struct X;\n{ea}\nimpl TI for X {{\n    {fn_text(f, 'f', vis='pub ')}\n}}\n")
        if dyn:
            out.append("impl AsRef<dyn TI<Self>> for crate::App { fn as_ref(&self) -> &(dyn TI<Self> + 'static) { &X } }\n")
        else:
            out.append("impl Del<Self> for crate::App { type Target = X; }\n")
        out.append(witness(f, "X::f", f"<{recv_ty} as Tr>::f", recv_ty, recv_mk, 1))
    return "\n".join(out)
