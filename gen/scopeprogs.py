"""Renderer for C19: a fixed family of programs (one per input mode / delegation kind) whose generated code is
placed in scopes that import nothing and shadow the names the macro refers to.  All client code uses absolute
paths, so that only the macro's own references are at the mercy of the scope."""

SHADOW_DEFS = {
    "Impl": "pub struct Impl;", "core": "pub mod core {}", "entrait": "pub mod entrait {}", "Future": "pub trait Future {}",
    "Send": "pub trait Send {}", "Sync": "pub trait Sync {}", "AsRef": "pub trait AsRef {}", "Borrow": "pub trait Borrow {}",
    "Sized": "pub trait Sized {}", "Box": "pub struct Box;", "Option": "pub enum Option {}", "Result": "pub enum Result {}",
    "m:as_ref": "pub trait AsRefM { fn as_ref(&self) -> i32 { 7 } } impl<X: ?::core::marker::Sized> AsRefM for X {}",
    "m:borrow": "pub trait BorrowM { fn borrow(&self) -> i32 { 7 } } impl<X: ?::core::marker::Sized> BorrowM for X {}",
    "m:into_inner": "pub trait IntoInnerM: ::core::marker::Sized { fn into_inner(self) -> i32 { 7 } } impl<X> IntoInnerM for X {}",
    "no-prelude": "",
    "std": "pub mod std {}", "own-value": "#[allow(non_snake_case)] pub fn {NAME}() {}", "EntraitT-value": "#[allow(non_upper_case_globals)] pub const EntraitT: u8 = 0;",
}
PROGS = ["fn", "fn-async-bounds", "fn-byvalue", "mod", "concrete", "trait-self", "trait-self-async", "trait-ref", "trait-borrow", "di-static", "di-dyn-at", "di-dyn", "di-dyn-borrow", "fn-chain",
         "trait-self-named-as_ref", "concrete-named-as_ref", "trait-self-byvalue"]


def render(prog, name, case, nostd=False, dname="DelegateN"):
    """returns (items, run body producing a result String `r`, availability probes [(label, type expr, trait expr)])"""
    N = name
    if prog == "fn":
        items = f"#[::entrait::entrait(pub {N})]\nfn f<D>(deps: &D, a: i32) -> i32 {{ a + 1 }}\n"
        run = f"let app = ::entrait::Impl::new(()); let r = ::std::format!(\"{{}}\", <::entrait::Impl<()> as {N}>::f(&app, 1));"
        probes = [("impl", "::entrait::Impl<()>", N), ("bare", "()", N)]
    elif prog == "fn-async-bounds":
        items = (f"#[::entrait::entrait(pub Dep)]\nfn dep<D>(deps: &D, a: i32) -> i32 {{ a * 2 }}\n"
                 f"#[::entrait::entrait(pub {N})]\nasync fn f(deps: &(impl Dep + ::core::marker::Sync), a: i32) -> i32 {{ {'' if nostd else '::vt::yield_once().await; '}deps.dep(a) + 1 }}\n")
        run = f"let app = ::entrait::Impl::new(()); let r = ::std::format!(\"{{}}\", ::vt::block_on(<::entrait::Impl<()> as {N}>::f(&app, 4)));"
        probes = [("impl", "::entrait::Impl<()>", N)]
    elif prog == "fn-byvalue":
        items = f"#[::entrait::entrait(pub {N})]\nfn f<D>(deps: D, a: i32) -> i32 {{ a + 7 }}\n"
        run = f"let app = ::entrait::Impl::new(()); let r = ::std::format!(\"{{}}\", <::entrait::Impl<()> as {N}>::f(app, 1));"
        probes = [("impl", "::entrait::Impl<()>", N)]
    elif prog == "mod":
        items = (f"#[::entrait::entrait(pub {N})]\npub mod m {{\n    pub fn f<D>(deps: &D, a: i32) -> i32 {{ a + 1 }}\n"
                 f"    pub async fn g<D: ::core::marker::Sync>(deps: &D, a: i32) -> i32 {{ a + 2 }}\n}}\n")
        run = (f"let app = ::entrait::Impl::new(()); let r = ::std::format!(\"{{}}/{{}}\", <::entrait::Impl<()> as {N}>::f(&app, 1), "
               f"::vt::block_on(<::entrait::Impl<()> as {N}>::g(&app, 1)));")
        probes = [("impl", "::entrait::Impl<()>", N)]
    elif prog in ("concrete", "concrete-named-as_ref"):
        f = "as_ref" if prog.endswith("as_ref") else "f"
        items = f"pub struct Conc(pub i32);\n#[::entrait::entrait(pub {N})]\nfn {f}(deps: &Conc, a: i32) -> i32 {{ deps.0 + a }}\n"
        run = (f"let app = ::entrait::Impl::new(Conc(10)); let r = ::std::format!(\"{{}}/{{}}\", <::entrait::Impl<Conc> as {N}>::{f}(&app, 1), "
               f"<Conc as {N}>::{f}(&Conc(20), 1));")
        probes = [("implC", "::entrait::Impl<Conc>", N), ("implOther", "::entrait::Impl<()>", N)]
    elif prog in ("trait-self", "trait-self-async", "trait-self-named-as_ref", "trait-self-byvalue"):
        a = "async " if prog.endswith("async") else ""
        m = "as_ref" if prog.endswith("as_ref") else "m"
        rcv, arg = ("self", "app") if prog.endswith("byvalue") else ("&self", "&app")
        items = (f"#[::entrait::entrait]\npub trait {N} {{ {a}fn {m}({rcv}, target: i32, this: i32) -> i32; }}\npub struct App;\n"
                 f"impl {N} for App {{ {a}fn {m}({rcv}, target: i32, this: i32) -> i32 {{ target + 3 + this * 0 }} }}\n")
        call = f"<::entrait::Impl<App> as {N}>::{m}({arg}, 1, 50)"
        if a:
            call = f"::vt::block_on({call})"
        run = f"let app = ::entrait::Impl::new(App); let r = ::std::format!(\"{{}}\", {call});"
        probes = [("impl", "::entrait::Impl<App>", N), ("implOther", "::entrait::Impl<()>", N)]
    elif prog in ("trait-ref", "trait-borrow"):
        sel = "ref" if prog == "trait-ref" else "Borrow"
        tr = "::core::convert::AsRef" if prog == "trait-ref" else "::core::borrow::Borrow"
        meth = "as_ref" if prog == "trait-ref" else "borrow"
        items = (f"#[::entrait::entrait(delegate_by = {sel})]\npub trait {N}: 'static {{ fn m(&self, target: i32, this: i32) -> i32; }}\npub struct Inner;\n"
                 f"impl {N} for Inner {{ fn m(&self, target: i32, this: i32) -> i32 {{ target + 4 + this * 0 }} }}\npub struct App(pub Inner);\n"
                 f"impl {tr}<dyn {N}> for App {{ fn {meth}(&self) -> &(dyn {N} + 'static) {{ &self.0 }} }}\n")
        run = f"let app = ::entrait::Impl::new(App(Inner)); let r = ::std::format!(\"{{}}\", <::entrait::Impl<App> as {N}>::m(&app, 1, 50));"
        probes = [("impl", "::entrait::Impl<App>", N), ("implOther", "::entrait::Impl<()>", N)]
    elif prog in ("di-static", "di-dyn-at"):
        dyn = prog == "di-dyn-at"
        at = "#[::async_trait::async_trait]\n" if dyn else ""
        a = "async " if dyn else ""
        attr = "NImpl, delegate_by = ref" if dyn else f"NImpl, delegate_by = {dname}"
        ea = "#[::entrait::entrait(ref)]" if dyn else "#[::entrait::entrait]"
        glue = ("impl ::core::convert::AsRef<dyn NImpl<Self> + ::core::marker::Sync> for App { fn as_ref(&self) -> &(dyn NImpl<Self> + ::core::marker::Sync + 'static) { &X } }"
                if dyn else f"impl {dname}<Self> for App {{ type Target = X; }}")
        items = (f"#[::entrait::entrait({attr})]\n{at}pub trait {N} {{ {a}fn m(&self, target: i32, this: i32) -> i32; }}\npub struct X;\n{ea}\n{at}"
                 f"impl NImpl for X {{ pub {a}fn m<D: ::core::marker::Sync>(deps: &D, target: i32, this: i32) -> i32 {{ target + 5 + this * 0 }} }}\npub struct App;\n{glue}\n")
        call = f"<::entrait::Impl<App> as {N}>::m(&app, 1, 50)"
        if dyn:
            call = f"::vt::block_on({call})"
        run = f"let app = ::entrait::Impl::new(App); let r = ::std::format!(\"{{}}\", {call});"
        probes = [("impl", "::entrait::Impl<App>", N), ("implOther", "::entrait::Impl<()>", N)]
    elif prog == "fn-chain":
        # the generated trait {N} has a real requirement (Dep0) and is itself the dependency bound of further functions,
        # written as `impl {N}` and as a where-clause bound
        items = (f"pub struct St(pub i32);\n#[::entrait::entrait(pub Dep0)]\nfn dep0(st: &St, a: i32) -> i32 {{ st.0 + a * 2 }}\n"
                 f"#[::entrait::entrait(pub {N})]\nfn f(deps: &impl Dep0, a: i32) -> i32 {{ deps.dep0(a) + 1 }}\n"
                 f"#[::entrait::entrait(pub User1)]\nfn g(deps: &impl {N}, a: i32) -> i32 {{ deps.f(a) + 1 }}\n"
                 f"#[::entrait::entrait(pub User2)]\nfn h<D>(deps: &D, a: i32) -> i32 where D: {N} {{ deps.f(a) + 2 }}\n")
        run = (f"let app = ::entrait::Impl::new(St(10)); let r = ::std::format!(\"{{}}/{{}}\", <::entrait::Impl<St> as User1>::g(&app, 1), "
               f"<::entrait::Impl<St> as User2>::h(&app, 1));")
        probes = [("impl", "::entrait::Impl<St>", "User1"), ("impl2", "::entrait::Impl<St>", "User2"), ("implOther", "::entrait::Impl<()>", "User1")]
    elif prog in ("di-dyn", "di-dyn-borrow"):
        # dynamic dependency inversion without async: `dyn NImpl<T>` reached through AsRef / Borrow
        sel = "ref" if prog == "di-dyn" else "Borrow"
        tr = "::core::convert::AsRef" if prog == "di-dyn" else "::core::borrow::Borrow"
        meth = "as_ref" if prog == "di-dyn" else "borrow"
        items = (f"#[::entrait::entrait(NImpl, delegate_by = {sel})]\npub trait {N} {{ fn m(&self, target: i32, this: i32) -> i32; }}\npub struct X;\n"
                 f"#[::entrait::entrait(ref)]\nimpl NImpl for X {{ pub fn m<D>(deps: &D, target: i32, this: i32) -> i32 {{ target + 6 + this * 0 }} }}\npub struct App;\n"
                 f"impl {tr}<dyn NImpl<Self>> for App {{ fn {meth}(&self) -> &(dyn NImpl<Self> + 'static) {{ &X }} }}\n")
        run = f"let app = ::entrait::Impl::new(App); let r = ::std::format!(\"{{}}\", <::entrait::Impl<App> as {N}>::m(&app, 1, 50));"
        probes = [("impl", "::entrait::Impl<App>", N), ("implOther", "::entrait::Impl<()>", N)]
    else:
        raise ValueError(prog)
    return items, run, probes


def source(prog, name, shadows, case, with_run=True, dname="DelegateN"):
    items, run, probes = render(prog, name, case, nostd=not with_run, dname=dname)
    defs = "\n".join(SHADOW_DEFS[s].replace("{NAME}", name) for s in shadows)
    if "no-prelude" in shadows:
        defs = "#![no_implicit_prelude]\n" + defs
    if not with_run:
        return f"{defs}\n{items}\n"
    pr = "\n    ".join(f'::vt::emit("avail", &::std::format!("\\"probe\\":\\"{lbl}\\",\\"has\\":{{}}", ::vt::has_impl!({ty}: {tr})));' for lbl, ty, tr in probes)
    return f"""{defs}
{items}
pub fn run() {{
    ::vt::emit("scenario", "\\"case\\":\\"{case}\\",\\"sc\\":1");
    {run}
    {pr}
    ::vt::emit("end", &::std::format!("\\"panicked\\":false,\\"result\\":{{}}", ::vt::js(&r)));
}}
"""
