"""Renderer for the C11 programs of spec/MC_C11.tla (unimock wiring): logging functions with a mock_api, and
mock / partial / impl scenarios."""
from gen import programs

PRELUDE = programs.PRELUDE + "impl Marker for ::unimock::Unimock {}\n"


def render(case, c, seed):
    p = dict(c["prog"])
    is_trait = p["mode"] == "trait"
    pr = programs.Prog(case, {**{k: v for k, v in p.items() if k not in ("stamp", "cfg", "featoff", "viafeat")}, "opt": "mock", "mode": ("fn" if is_trait else p["mode"])}, c["leaves"], seed)
    is_async = p["async"]
    nparams = len(p["params"])
    if is_trait:
        # an entraited trait with the same method signatures (no function exists to un-mock)
        gens, params, logs = pr.fn_generics_and_params(1)
        # drop the deps parameter; a body-less trait method cannot declare a pattern: the tuple is a plain parameter there
        import re
        sig_params = "".join(", " + re.sub(r"^\(x(\d+), y\d+\)", r"t\1", x) for x in params[1:])
        fnkw = "async fn" if is_async else "fn"
        methods = "\n".join(f"    {fnkw} f{i}(&self{sig_params}) -> String;" for i in range(1, p["nfn"] + 1))
        item = f"#[::entrait::entrait_export(mock_api = Mk, unimock)]\npub trait T {{\n{methods}\n}}\n"
    else:
        item = pr.item_text()
        if p.get("viafeat"):
            assert "::entrait::entrait(pub T, mock_api = Mk, unimock, export" in item
            item = item.replace("::entrait::entrait(pub T, mock_api = Mk, unimock, export", "::entrait::entrait_export(pub T, mock_api = Mk, export = true", 1)
        if p.get("cfg"):
            # every function of the module is guarded by an enabled cfg
            import re
            item = re.sub(r"(?m)^(    )(pub (?:async )?fn f\d)", r"\1#[cfg(all())] \2", item)
        if p.get("stamp"):
            import re
            m = re.match(r"(?s)(#\[[^\n]*\])\n(async )?fn f1\((.*?)\) -> String (\{.*\})\n$", item)
            attr, asy, params, body = m.group(1), m.group(2) or "", m.group(3), m.group(4)
            item = (f"macro_rules! stamp {{ ([$($params:tt)*] $body:block) => {{ {attr} {asy}fn f1($($params)*) -> String $body }} }}\n"
                    f"stamp! {{ [{params}] {body} }}\n")
    exprs, logged = pr.call_args()
    args_json = ",".join('\\"' + l + '\\"' for l in logged)
    argl = "".join(", " + e for e in exprs)
    scs, descs = [], {}
    n = 0
    names = [f"f{i}" for i in range(1, p["nfn"] + 1)]
    for fi in range(1, p["nfn"] + 1):
        m = f"f{fi}"
        mockpath = "Mk" if p["mode"] == "fn" else (f"m::Mk::{m}" if p["mode"] == "mod" else f"Mk::{m}")
        # answer closure: one parameter per trait-method parameter
        cparams, clogs = [], []
        for j, k in enumerate(p["params"], start=1):
            cparams.append(f"q{j}")
            if k == "tuple":
                clogs += [f'format!("{{:?}}", q{j}.0)', f'format!("{{:?}}", q{j}.1)']
            elif k == "i32":
                clogs.append(f'format!("{{:?}}", q{j})')
            else:
                clogs.append(f"q{j}.to_string()")
        clog = ("String::new() + &" + " + \",\" + &".join(f"::vt::js(&{l})" for l in clogs)) if clogs else "String::new()"
        matching = ", ".join("_" for _ in p["params"])
        closure = (f"&|_{''.join(', ' + q for q in cparams)}| {{ let __a: String = {clog}; "
                   f'::vt::emit("answer", &format!("\\"m\\":\\"{m}\\",\\"args\\":[{{}}]", __a)); String::from("ANSWER-{m}") }}')
        call = f"T::{m}(&u{argl})"
        run = f"::vt::block_on({call})" if is_async else call
        for s in c["scens"]:
            n += 1
            own = {x: ("" if s == "mock" else (f"{case}::{x}")) for x in names}
            deps = {x: ("none" if p["deps"] == "nodeps" else "recv") for x in names}
            head = f'::vt::emit("scenario", "\\"case\\":\\"{case}\\",\\"sc\\":{n}");'
            if s == "mock":
                mk = f"let u = ::unimock::Unimock::new({mockpath}.each_call(::unimock::matching!({matching})).answers({closure}));"
                body = [head, mk,
                        f'::vt::emit("call", &format!("\\"m\\":\\"{m}\\",\\"recv\\":{{}},\\"args\\":[{args_json}]", ::vt::js(&::vt::addr(&u))));',
                        f"let r: String = {run};",
                        f'::vt::emit("ret", &format!("\\"m\\":\\"{m}\\",\\"val\\":{{}}", ::vt::js(&r)));',
                        '::vt::emit("end", &format!("\\"panicked\\":false,\\"result\\":{}", ::vt::js(&r)));']
                descs[n] = {"own": own, "deps": deps, "expect": "ok", "avail": {}, "pair": "", "allocpair": "", "answer": f"ANSWER-{m}", "kind": "mock"}
            elif s == "partial":
                body = [head, "let u = ::unimock::Unimock::new_partial(());",
                        f'::vt::emit("call", &format!("\\"m\\":\\"{m}\\",\\"recv\\":{{}},\\"args\\":[{args_json}]", ::vt::js(&::vt::addr(&u))));',
                        f"let r: String = {run};",
                        f'::vt::emit("ret", &format!("\\"m\\":\\"{m}\\",\\"val\\":{{}}", ::vt::js(&r)));',
                        '::vt::emit("end", &format!("\\"panicked\\":false,\\"result\\":{}", ::vt::js(&r)));']
                descs[n] = {"own": own, "deps": deps, "expect": "ok", "avail": {}, "pair": f"{case}:{m}", "allocpair": "", "answer": "", "kind": "partial"}
            elif s == "impl":
                body = [pr.scenario_text(n, fi, "trait")[2:-2]]
                descs[n] = {"own": own, "deps": deps, "expect": "ok", "avail": {}, "pair": f"{case}:{m}", "allocpair": "", "answer": "", "kind": "impl"}
            else:   # partial-panics
                body = [head, "let u = ::unimock::Unimock::new_partial(());",
                        f'::vt::emit("call", &format!("\\"m\\":\\"{m}\\",\\"recv\\":{{}},\\"args\\":[{args_json}]", ::vt::js(&::vt::addr(&u))));',
                        f"let res = ::vt::catch(|| {{ let _r: String = {run}; }});",
                        'if let Err(msg) = &res { ::vt::emit("panic", &format!("\\"msg\\":{}", ::vt::js(msg))); }',
                        '::vt::emit("end", &format!("\\"panicked\\":{},\\"result\\":\\"\\"", res.is_err()));',
                        "::core::mem::forget(u);"]
                descs[n] = {"own": own, "deps": deps, "expect": "panic", "avail": {}, "pair": "", "allocpair": "", "answer": "", "kind": "partial-panics"}
            scs.append("{ " + "\n      ".join(body) + " }")
    src = "use ::unimock::MockFn as _;\n" + item + "\npub fn run() {\n    " + "\n    ".join(scs) + "\n}\n"
    return src, descs
