"""Seeded random fn / mod / impl-block inputs for the token-fidelity checks (C02, C20).

The items are syntactically valid Rust (rustc parses the annotated item before it hands the tokens to an
attribute macro), but need not type-check: the expansion record is written at expansion time. Arbitrary
token sequences - ones syn could not parse as Rust - are embedded where Rust allows them: inside macro
invocations (`nothing!{ .. }`, `nothing!( .. );`) in bodies and between module / impl items."""
import random

SOUP_ATOMS = [
    "r#\"raw \"quoted\" string\"#", "br\"bytes\"", "b\"by\\\"tes\"", "'x'", "b'y'", "'\\''", "\"str\\n\"",
    "1.0e-3f32", "0xFFu8", "1_000i64", "0b1010", "7usize", "3.14", "'label", "'a", "'static",
    "..=", "..", "...", "=>", "->", "<<=", ">>=", "&&", "||", "::", "<-", "!=", "==", "+=", "-=", "^=", "|=", "%=",
    "r#type", "r#match", "self", "Self", "super", "crate", "dyn", "impl", "fn", "pub", "mod", "trait", "unsafe",
    "async", "await", "move", "ref", "mut", "where", "for", "loop", "_", "x", "y1", "Zed", "__impl", "EntraitT",
    "#", "!", "?", "@", "~", "$", "%", "^", "&", "*", "-", "+", "=", "|", ":", ";", ",", ".", "/", "<", ">",
    "#[attr]", "#![inner]", "/// doc inside\n", "/** block doc */", "$crate", "$x:tt",
]


def soup(rng, depth=0, n=None):
    n = n if n is not None else rng.randint(0, 10)
    out = []
    for _ in range(n):
        r = rng.random()
        if r < 0.15 and depth < 3:
            o, c = rng.choice([("(", ")"), ("[", "]"), ("{", "}")])
            out.append(o + " " + soup(rng, depth + 1, rng.randint(0, 6)) + " " + c)
        else:
            out.append(rng.choice(SOUP_ATOMS))
    return " ".join(out)


def macro_call(rng, stmt=True):
    s = soup(rng)
    form = rng.randint(0, 2)
    if form == 0:
        return f"nothing! {{ {s} }}" + (";" if stmt and rng.random() < 0.3 else "")
    if form == 1:
        return f"nothing!( {s} );"
    return f"nothing![ {s} ];"


ATTRS = [
    "/// a doc comment with `code` and \"quotes\"", "/** block doc */", "#[inline]", "#[must_use]", "#[allow(unused, dead_code)]",
    "#[cfg_attr(all(), inline)]", "#[rustfmt::skip]", "#[doc = \"explicit doc\"]", "#[cfg(all())]", "#[deny(unsafe_code)]",
    "#[allow(clippy::needless_lifetimes)]", "#[doc(hidden)]", "#[cold]", "#[track_caller]",
]
VIS = ["", "pub ", "pub(crate) ", "pub(super) ", "pub(self) ", "pub(in crate::cases) "]
QUALS = ["", "async ", "unsafe ", "const ", "extern \"C\" ", "const unsafe ", "async unsafe ", "unsafe extern \"C\" ",
         "const unsafe extern \"C\" ", "extern "]
RET = ["", " -> u32", " -> &'static str", " -> impl core::fmt::Debug", " -> (u8, [u16; 2])", " -> Option<Vec<u8>>",
       " -> &D", " -> Result<(), ()>", " -> !"]
PARAMS = ["a: u8", "b: &str", "(x, y): (u8, u8)", "_: i32", "mut m: u32", "s: &'static [u8]", "f: impl Fn() -> u8",
          "#[allow(unused)] c: char", "o: Option<&mut u8>", "r#type: u8", "arr: [u8; 3]", "z: ::core::option::Option<u8>"]
STMTS = [
    "let x = 1u8;", "let _y = \"str\";", "loop { break; }", "if true { } else { }", "'outer: for _ in 0..=3 { continue 'outer; }",
    "let _c = |a: u8| -> u8 { a + 1 };", "match 1 { 0..=5 => {}, _ => {} }", "unsafe { }", "let r#type = 5;",
    "let _s = r#\"raw\"#;", "let _t = (1, 2.0, 'c', b'b', b\"bs\");", "struct Inner; impl Inner { pub fn f(&self) {} }",
    "fn nested() -> u8 { 0 }", "let _ = 1 << 2 >> 1;", "let _v = [0u8; 4];", "#[allow(unused)] let q = ();",
    "let _ = async { 1 };", "let _cl = move || { };", "return Default::default();", "let _r = &&1;", "let _ = 1..2;",
    "todo!()", "unimplemented!(\"x {}\", 1)", ";",
]


def attrs(rng):
    return "".join(a + "\n" for a in rng.sample(ATTRS, rng.randint(0, 3)))


def body(rng):
    parts = []
    for _ in range(rng.randint(0, 4)):
        parts.append(macro_call(rng) if rng.random() < 0.4 else rng.choice(STMTS))
    return "{ " + " ".join(parts) + " }"


def gen_fn(rng, name="f", deps=True, vis=None, quals=None):
    vis = rng.choice(VIS) if vis is None else vis
    quals = rng.choice(QUALS) if quals is None else quals
    ps = rng.sample(PARAMS, rng.randint(0, 3))
    generics, first, where = "", "", ""
    if deps:
        form = rng.randint(0, 3)
        if form == 0:
            generics, first = "<D>", "deps: &D"
        elif form == 1:
            generics, first = "<D: Sync>", "deps: &D"
        elif form == 2:
            generics, first, where = "<'a, D>", "deps: &'a D", " where D: Sized"
        else:
            first = "deps: &impl Sized"
    params = ", ".join(([first] if first else []) + ps)
    ret = rng.choice(RET)
    if "&D" in ret and "<" not in generics:
        ret = ""
    return f"{attrs(rng)}{vis}{quals}fn {name}{generics}({params}){ret}{where} {body(rng)}"


OTHER_ITEMS = [
    "struct S{i} {{ a: u8, f: fn() -> u8 }}", "pub struct T{i}(pub u8, fn());", "struct U{i};",
    "pub enum E{i} {{ A, B {{ x: u8 }}, C(fn()) }}", "const C{i}: u8 = {{ 1 }};", "pub const K{i}: [u8; 2] = [1, 2];",
    "pub static Z{i}: &str = \"z;{{\";", "use core::fmt::{{Debug as D{i}, Display as P{i}}};", "pub use core::mem as mem{i};",
    "pub type F{i} = fn(u8) -> u8;", "impl S{i} {{ pub fn g(&self) -> u8 {{ 1 }} pub const fn h() {{}} }}",
    "pub mod inner{i} {{ pub fn h() {{}} pub(crate) fn i() {{}} }}", "extern \"C\" {{ pub fn e{i}(); }}",
    "macro_rules! m{i} {{ ($x:tt) => {{ pub fn x() {{}} }}; }}", "pub trait Tr{i} {{ fn t(&self); fn d(&self) {{ }} }}",
    "const X{i}: u8 = if true {{ 1 }} else {{ 2 }};", "pub union Un{i} {{ a: u8, b: u16 }}", "static mut M{i}: u8 = 0;",
    "fn private{i}() -> u8 {{ 0 }}", "async fn private_async{i}() {{ }}", "pub fn bodyless_like{i}() -> fn() {{ || () }}",
]


def gen_mod(rng, n):
    items = []
    for k in range(rng.randint(0, 5)):
        r = rng.random()
        if r < 0.45:
            items.append(gen_fn(rng, name=f"f{k}", vis=rng.choice(VIS), quals=rng.choice(QUALS[:8])))
        elif r < 0.6:
            items.append(macro_call(rng, stmt=False) if rng.random() < 0.5 else f"nothing!( {soup(rng)} );")
        else:
            items.append(rng.choice(OTHER_ITEMS).format(i=f"{n}_{k}"))
    return f"{attrs(rng)}{rng.choice(VIS)}mod m{n} {{\n    " + "\n    ".join(items) + "\n}"


IMPL_OTHER = ["const C{i}: u8 = {{ 1 }};", "type F{i} = fn();", "const P{i}: fn() = || ();"]


def gen_impl(rng, n):
    items = []
    for k in range(rng.randint(0, 4)):
        r = rng.random()
        if r < 0.6:
            items.append(gen_fn(rng, name=f"f{k}", vis=rng.choice(["", "", "pub "]), quals=rng.choice(["", "async ", "unsafe "])))
        elif r < 0.8:
            items.append(macro_call(rng, stmt=False) if rng.random() < 0.5 else f"nothing!( {soup(rng)} );")
        else:
            items.append(rng.choice(IMPL_OTHER).format(i=f"{n}_{k}"))
    at = rng.choice(["", "", "#[async_trait::async_trait]\n", "#[::async_trait::async_trait]\n"])
    uns = rng.choice(["", "", "unsafe "])
    selfty = rng.choice(["X{n}", "crate::cases::Y", "(u8, u16)", "[u8; 4]", "Gen<u8>", "&'static str"]).format(n=n)
    path = rng.choice(["TI{n}", "self::TI{n}", "crate::cases::TJ"]).format(n=n)
    return f"{attrs(rng)}{at}{uns}impl {path} for {selfty} {{\n    " + "\n    ".join(items) + "\n}"


def gen_case(rng, n):
    """returns (kind, attribute text, item text)"""
    r = rng.random()
    tvis = rng.choice(["", "pub ", "pub(crate) "])
    opts = rng.choice(["", "", ", no_deps", ", mock_api=Mk", ", export", ", unimock=false", ", ?Send", ", mockall=false"])
    if r < 0.45:
        nodeps = "no_deps" in opts
        return "fn", f"#[::entrait::entrait({tvis}T{n}{opts})]", gen_fn(rng, name=f"f{n}", deps=not nodeps)
    if r < 0.8:
        opts = opts if "no_deps" not in opts else ""
        return "mod", f"#[::entrait::entrait({tvis}T{n}{opts})]", gen_mod(rng, n)
    ref = rng.choice(["", "", "ref", "dyn"])
    return "impl", f"#[::entrait::entrait({ref})]", gen_impl(rng, n)
