"""Renderer for the abstract fn / mod programs of spec/Programs.tla: logging function bodies and call
scenarios (trait call, direct call, dropped future). The abstract record decides everything; this file is a
table lookup from its fields to Rust text."""
import random

PRELUDE = """
pub struct N(pub i32);
pub struct App { pub id: u32 }
pub struct Conc { pub id: u32 }
pub trait HasId { fn id(&self) -> String; }
pub trait Marker {}
impl HasId for ::entrait::Impl<App> { fn id(&self) -> String { format!("app#{}", self.id) } }
impl Marker for ::entrait::Impl<App> {}
pub mod alt { pub trait Marker {} }
impl alt::Marker for ::entrait::Impl<App> {}
"""

ATTR = {"none": "pub T", "unimock": "pub T, mock_api = Mk, unimock", "mock": "pub T, mock_api = Mk, unimock, export", "mockall": "pub T, mockall", "export": "pub T, export",
        "nosend": "pub T, ?Send"}


def value_of(kind, leaf, rng_vals):
    v = rng_vals[leaf]
    if kind == "string":
        return f'String::from("s{v}")', f"s{v}", True
    if kind in ("str", "lstr"):
        return f'"r{v}"', f"r{v}", True
    return str(v), str(v), False


class Prog:
    def __init__(self, case, prog, leaves, seed):
        self.case = case
        self.p = prog
        self.leaves = leaves
        rng = random.Random(f"{seed}:{case}")
        # injective assignment of values to leaves
        pool = rng.sample(range(-500, 500), 8)
        self.vals = {i + 1: pool[i] for i in range(8)}

    # ---- signature pieces
    def fn_generics_and_params(self, fi):
        p = self.p
        gens, params = [], []
        if p["deps"] == "genref":
            gens.append("D")
            params.append("deps: &D")
        elif p["deps"] == "genval":
            gens.append("D: crate::HasId")
            params.append("deps: D")
        elif p["deps"] == "implref":
            params.append("deps: &impl crate::Marker")
        elif p["deps"] == "implref2":
            params.append("deps: &(impl crate::Marker + crate::alt::Marker)")
        elif p["deps"] == "concrete":
            params.append("deps: &crate::Conc")
        leaf = 1
        logs = []
        hyg = p.get("hyg", False)
        for j, k in enumerate(p["params"], start=1):
            d = 9 - j          # name suffixes DESCEND with the position: declaration order is not alphabetical order
            if k == "i32" and hyg and j <= 2:
                # both are called `a2` in the expanded code: `$p` (from the macro caller) and the literal `a2` of the macro body
                nm = "$p" if j == 1 else "a2"
                params.append(f"{nm}: i32"); logs.append(f'format!("{{:?}}", {nm})'); leaf += 1
            elif k == "i32":
                params.append(f"a{d}: i32"); logs.append(f'format!("{{:?}}", a{d})'); leaf += 1
            elif k == "string":
                params.append(f"s{d}: String"); logs.append(f"s{d}.clone()"); leaf += 1
            elif k == "str":
                params.append(f"r{d}: &str"); logs.append(f"r{d}.to_string()"); leaf += 1
            elif k == "lstr":
                # an EXPLICIT lifetime binder on the function: the parameter stays on the generated method (`fn f<'l1>(..)`)
                gens.insert(0, f"'l{j}")
                params.append(f"r{d}: &'l{j} str"); logs.append(f"r{d}.to_string()"); leaf += 1
            elif k == "tuple":
                params.append(f"(x{d}, y{d}): (i32, i32)"); logs.append(f'format!("{{:?}}", x{d})'); logs.append(f'format!("{{:?}}", y{d})'); leaf += 2
            elif k == "wild":
                params.append("_: i32"); logs.append('String::from("_")'); leaf += 1
            elif k == "samename":
                params.append(f"f{fi}: i32"); logs.append(f'format!("{{:?}}", f{fi})'); leaf += 1
            elif k == "liftname":
                params.append(f"crate::N(f{fi}): crate::N"); logs.append(f'format!("{{:?}}", f{fi})'); leaf += 1
            elif k == "gen":
                gens.append(f"G{fi}x{j}: ::core::fmt::Debug + Send")
                params.append(f"g{d}: G{fi}x{j}"); logs.append(f'format!("{{:?}}", g{d})'); leaf += 1
        return gens, params, logs

    def deps_id(self):
        d = self.p["deps"]
        if d in ("genref", "implref", "implref2", "concrete"):
            return "::vt::addr(deps)"
        if d == "genval":
            return "crate::HasId::id(&deps)"
        return 'String::from("-")'

    def fn_text(self, fi, vis=""):
        p = self.p
        gens, params, logs = self.fn_generics_and_params(fi)
        g = f"<{', '.join(gens)}>" if gens else ""
        fname = f"{self.case}::f{fi}"
        args_json = " + \",\" + &".join(f"::vt::js(&{l})" for l in logs) if logs else 'String::new()'
        if logs:
            args_json = "String::new() + &" + args_json
        body = f"""{{
    let __args: String = {args_json};
    ::vt::emit("enter", &format!("\\"f\\":\\"{fname}\\",\\"deps\\":{{}},\\"args\\":[{{}}]", ::vt::js(&{self.deps_id()}), __args));
    {"::vt::yield_once().await;" if p["async"] else ""}
    let __val = format!("{fname}({{}})", __args);
    ::vt::emit("exit", &format!("\\"f\\":\\"{fname}\\",\\"val\\":{{}}", ::vt::js(&__val)));
    __val
}}"""
        return f"{vis}{'async ' if p['async'] else ''}fn f{fi}{g}({', '.join(params)}) -> String {body}"

    def item_text(self):
        txt = self.item_text_plain()
        if self.p.get("hyg", False):
            return f"macro_rules! define_item {{ ($p:ident) => {{\n{txt}\n}} }}\ndefine_item!(a2);\n"
        if self.p.get("hygtr", False):
            txt = txt.replace("::entrait::entrait(pub T", "::entrait::entrait(pub $tr", 1)
            return f"macro_rules! define_item {{ ($tr:ident) => {{\n{txt}\n}} }}\ndefine_item!(T);\n"
        return txt

    def item_text_plain(self):
        p = self.p
        attr = f"#[::entrait::entrait({ATTR[p['opt']]}{', no_deps' if p['deps'] == 'nodeps' else ''})]"
        if p["mode"] == "fn":
            return f"{attr}\n{self.fn_text(1)}\n"
        # (rev: the functions are written in descending name order, so that source order is not alphabetical order)
        order = range(p["nfn"], 0, -1) if p.get("rev") else range(1, p["nfn"] + 1)
        fns = "\n".join("    " + self.fn_text(i, vis="pub ").replace("\n", "\n    ") for i in order)
        return f"{attr}\npub mod m {{\n{fns}\n}}\n"

    # ---- scenarios
    def call_args(self):
        """(rust argument expressions, logged strings) in declared order"""
        exprs, logged = [], []
        leaf = 1
        for k in self.p["params"]:
            if k == "tuple":
                a, b = self.vals[leaf], self.vals[leaf + 1]
                exprs.append(f"({a}, {b})"); logged += [str(a), str(b)]; leaf += 2
            elif k == "wild":
                exprs.append(str(self.vals[leaf])); logged.append("_"); leaf += 1
            elif k == "liftname":
                exprs.append(f"crate::N({self.vals[leaf]})"); logged.append(str(self.vals[leaf])); leaf += 1
            else:
                e, l, _ = value_of(k, leaf, self.vals)
                exprs.append(e)
                logged.append(l if k in ("i32", "gen") else f'"{l}"' if False else l)
                leaf += 1
        # the function logs strings with {:?} for i32/gen (-> digits) and the raw text for String/&str
        return exprs, logged

    def scenario_text(self, n, fi, kind):
        p = self.p
        exprs, logged = self.call_args()
        args_json = ",".join('\\"' + l.replace('"', '') + '\\"' for l in logged)
        path = f"m::f{fi}" if p["mode"] == "mod" else f"f{fi}"
        mname = f"f{fi}"
        if p["deps"] == "concrete":
            mk = f"let app = crate::Conc {{ id: {n} }};"
            recv = "::vt::addr(&app)"
            passrecv = "&app"
        elif p["deps"] == "genval":
            mk = f"let app = ::entrait::Impl::new(crate::App {{ id: {n} }});"
            recv = "crate::HasId::id(&app)"
            passrecv = "app"
        else:
            mk = f"let app = ::entrait::Impl::new(crate::App {{ id: {n} }});"
            recv = "::vt::addr(&app)"
            passrecv = "&app"
        argl = ", ".join(exprs)
        if kind == "direct":
            first = "" if p["deps"] == "nodeps" else passrecv
            call = f"{path}({', '.join(x for x in [first, argl] if x)})"
        else:
            ngen = sum(1 for k in p["params"] if k == "gen") * p["nfn"]
            turbofish = ("::<" + ", ".join(["i32"] * ngen) + ">") if (ngen and p["mode"] == "mod") else ""
            call = f"T{turbofish}::f{fi}({', '.join(x for x in [passrecv, argl] if x)})"
        lines = [f'::vt::emit("scenario", "\\"case\\":\\"{self.case}\\",\\"sc\\":{n}");', mk,
                 f'::vt::emit("call", &format!("\\"m\\":\\"{mname}\\",\\"recv\\":{{}},\\"args\\":[{args_json}]", ::vt::js(&{recv})));']
        if kind == "dropped":
            lines += [f"let fut = {call};", "drop(fut);", f'::vt::emit("dropped", "\\"m\\":\\"{mname}\\"");',
                      '::vt::emit("end", "\\"panicked\\":false,\\"result\\":\\"\\"");']
            return "{ " + "\n      ".join(lines) + " }"
        if p["async"]:
            lines += [f"let fut = {call};", f'::vt::emit("future", "\\"m\\":\\"{mname}\\"");', "let r: String = ::vt::block_on(fut);"]
        else:
            lines += [f"let r: String = {call};"]
        lines += [f'::vt::emit("ret", &format!("\\"m\\":\\"{mname}\\",\\"val\\":{{}}", ::vt::js(&r)));',
                  'let __res = ::vt::js(&r);',
                  '::vt::emit("end", &format!("\\"panicked\\":false,\\"result\\":{}", __res));']
        return "{ " + "\n      ".join(lines) + " }"

    def scenarios(self):
        """list of (n, fi, kind, text) and the descriptors the driver needs"""
        out = []
        n = 0
        for fi in range(1, self.p["nfn"] + 1):
            kinds = ["direct", "trait"] + (["dropped"] if self.p["async"] else [])
            for kind in kinds:
                n += 1
                out.append({"sc": n, "fi": fi, "kind": kind, "text": self.scenario_text(n, fi, kind)})
        return out

    def source(self):
        scs = self.scenarios()
        body = "\n    ".join(s["text"] for s in scs)
        return f"{self.item_text()}\npub fn run() {{\n    {body}\n}}\n", scs

    def descriptors(self, scs):
        p = self.p
        own = {f"f{i}": f"{self.case}::f{i}" for i in range(1, p["nfn"] + 1)}
        deps = {f"f{i}": ("none" if p["deps"] == "nodeps" else "recv") for i in range(1, p["nfn"] + 1)}
        out = {}
        for s in scs:
            out[s["sc"]] = {"own": own, "deps": deps, "expect": "ok", "avail": {}, "pair": (f"{self.case}:{s['fi']}" if s["kind"] != "dropped" else ""),
                            "allocpair": "", "answer": "", "kind": s["kind"]}
        return out
