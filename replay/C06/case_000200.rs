#[allow(unused_imports)] use ::core::borrow::Borrow;
#[allow(unused_imports)] use ::core::convert::AsRef;
#[::entrait::entrait(delegate_by = Borrow)]
#[::async_trait::async_trait]
pub trait Tr<G>: 'static + Sync where G: ::core::fmt::Debug + Send + Sync + 'static {
    async fn m1(&self, a1: &str, a2: i32) -> String;
    async fn gx(&self, g: G) -> String;
}
pub struct Inner { pub owner: &'static str }
pub struct Prov { pub inner: Inner }
pub struct NoProv { pub inner: Inner }
pub struct ProvNoSync { pub c: ::core::cell::Cell<u8>, pub inner: Inner }
pub struct ProvNoSend { pub p: ::core::marker::PhantomData<::std::sync::MutexGuard<'static, ()>>, pub inner: Inner }
#[::async_trait::async_trait]
impl Tr<i32> for Inner {
    async fn m1(&self, a1: &str, a2: i32) -> String {
        let __f: String = format!("provider:{}::m1", self.owner);
        let __args: String = String::new() + &::vt::js(&a1.to_string()) + "," + &::vt::js(&format!("{:?}", a2));
        ::vt::emit("enter", &format!("\"f\":{},\"deps\":{},\"args\":[{}]", ::vt::js(&__f), ::vt::js(&::vt::addr(self)), __args));
        ::vt::yield_once().await;
        
        let __val = format!("{}({})", __f, __args);
        ::vt::emit("exit", &format!("\"f\":{},\"val\":{}", ::vt::js(&__f), ::vt::js(&__val)));
        __val
    }
    async fn gx(&self, g: i32) -> String {
        let __f: String = format!("provider:{}::gx", self.owner);
        let __args: String = String::new() + &::vt::js(&format!("{:?}", g));
        ::vt::emit("enter", &format!("\"f\":{},\"deps\":{},\"args\":[{}]", ::vt::js(&__f), ::vt::js(&::vt::addr(self)), __args));
        ::vt::yield_once().await;
        
        let __val = format!("{}({})", __f, __args);
        ::vt::emit("exit", &format!("\"f\":{},\"val\":{}", ::vt::js(&__f), ::vt::js(&__val)));
        __val
    }
}

impl ::core::borrow::Borrow<dyn Tr<i32>> for Prov { fn borrow(&self) -> &(dyn Tr<i32> + 'static) { &self.inner } }
impl ::core::borrow::Borrow<dyn Tr<i32>> for ProvNoSync { fn borrow(&self) -> &(dyn Tr<i32> + 'static) { &self.inner } }
impl ::core::borrow::Borrow<dyn Tr<i32>> for ProvNoSend { fn borrow(&self) -> &(dyn Tr<i32> + 'static) { &self.inner } }
pub fn run() {
    { ::vt::emit("scenario", "\"case\":\"c000200\",\"sc\":1");
      let app = ::entrait::Impl::new(Prov { inner: Inner { owner: "Prov" } });
      ::vt::emit("call", &format!("\"m\":\"m1\",\"recv\":{},\"args\":[\"r-830\",\"773\"]", ::vt::js(&::vt::addr(&app.inner))));
      let fut = Tr::m1(&app, "r-830", 773);
      ::vt::emit("future", "\"m\":\"m1\"");
      let r = ::vt::block_on(fut);
      let r: String = r.to_string();
      ::vt::emit("ret", &format!("\"m\":\"m1\",\"val\":{}", ::vt::js(&r)));
      ::vt::emit("end", &format!("\"panicked\":false,\"result\":{}", ::vt::js(&r))); }
    { ::vt::emit("scenario", "\"case\":\"c000200\",\"sc\":2");
      let app = ::entrait::Impl::new(Prov { inner: Inner { owner: "Prov" } });
      ::vt::emit("call", &format!("\"m\":\"gx\",\"recv\":{},\"args\":[\"53\"]", ::vt::js(&::vt::addr(&app.inner))));
      let fut = Tr::gx(&app, 53);
      ::vt::emit("future", "\"m\":\"gx\"");
      let r = ::vt::block_on(fut);
      let r: String = r.to_string();
      ::vt::emit("ret", &format!("\"m\":\"gx\",\"val\":{}", ::vt::js(&r)));
      ::vt::emit("end", &format!("\"panicked\":false,\"result\":{}", ::vt::js(&r))); }
    { ::vt::emit("scenario", "\"case\":\"c000200\",\"sc\":3");
      ::vt::emit("avail", &format!("\"probe\":\"Prov\",\"has\":{}", ::vt::has_impl!(::entrait::Impl<Prov>: Tr<i32>)));
      ::vt::emit("avail", &format!("\"probe\":\"NoProv\",\"has\":{}", ::vt::has_impl!(::entrait::Impl<NoProv>: Tr<i32>)));
      ::vt::emit("avail", &format!("\"probe\":\"ProvNoSync\",\"has\":{}", ::vt::has_impl!(::entrait::Impl<ProvNoSync>: Tr<i32>)));
      ::vt::emit("avail", &format!("\"probe\":\"ProvNoSend\",\"has\":{}", ::vt::has_impl!(::entrait::Impl<ProvNoSend>: Tr<i32>)));
      ::vt::emit("end", "\"panicked\":false,\"result\":\"\""); }
}
