#[allow(unused_imports)] use ::core::borrow::Borrow;
#[allow(unused_imports)] use ::core::convert::AsRef;
#[::entrait::entrait(delegate_by = Borrow)]
#[::async_trait::async_trait]
pub trait Tr: 'static + Sync {
    async fn m1(&self, a1: String) -> String;
    async fn tr(self: &Self, x: i32) -> String;
}
pub struct Inner { pub owner: &'static str }
pub struct Prov { pub inner: Inner }
pub struct NoProv { pub inner: Inner }
pub struct ProvNoSync { pub c: ::core::cell::Cell<u8>, pub inner: Inner }
pub struct ProvNoSend { pub p: ::core::marker::PhantomData<::std::sync::MutexGuard<'static, ()>>, pub inner: Inner }
#[::async_trait::async_trait]
impl Tr for Inner {
    async fn m1(&self, a1: String) -> String {
        let __f: String = format!("provider:{}::m1", self.owner);
        let __args: String = String::new() + &::vt::js(&a1.clone());
        ::vt::emit("enter", &format!("\"f\":{},\"deps\":{},\"args\":[{}]", ::vt::js(&__f), ::vt::js(&::vt::addr(self)), __args));
        ::vt::yield_once().await;
        
        let __val = format!("{}({})", __f, __args);
        ::vt::emit("exit", &format!("\"f\":{},\"val\":{}", ::vt::js(&__f), ::vt::js(&__val)));
        __val
    }
    async fn tr(self: &Self, x: i32) -> String {
        let __f: String = format!("provider:{}::tr", self.owner);
        let __args: String = String::new() + &::vt::js(&format!("{:?}", x));
        ::vt::emit("enter", &format!("\"f\":{},\"deps\":{},\"args\":[{}]", ::vt::js(&__f), ::vt::js(&::vt::addr(self)), __args));
        ::vt::yield_once().await;
        
        let __val = format!("{}({})", __f, __args);
        ::vt::emit("exit", &format!("\"f\":{},\"val\":{}", ::vt::js(&__f), ::vt::js(&__val)));
        __val
    }
}

impl ::core::borrow::Borrow<dyn Tr> for Prov { fn borrow(&self) -> &(dyn Tr + 'static) { &self.inner } }
impl ::core::borrow::Borrow<dyn Tr> for ProvNoSync { fn borrow(&self) -> &(dyn Tr + 'static) { &self.inner } }
impl ::core::borrow::Borrow<dyn Tr> for ProvNoSend { fn borrow(&self) -> &(dyn Tr + 'static) { &self.inner } }
pub fn run() {
    { ::vt::emit("scenario", "\"case\":\"c000229\",\"sc\":1");
      let app = ::entrait::Impl::new(Prov { inner: Inner { owner: "Prov" } });
      ::vt::emit("call", &format!("\"m\":\"m1\",\"recv\":{},\"args\":[\"s626\"]", ::vt::js(&::vt::addr(&app.inner))));
      let fut = Tr::m1(&app, String::from("s626"));
      ::vt::emit("future", "\"m\":\"m1\"");
      let r = ::vt::block_on(fut);
      let r: String = r.to_string();
      ::vt::emit("ret", &format!("\"m\":\"m1\",\"val\":{}", ::vt::js(&r)));
      ::vt::emit("end", &format!("\"panicked\":false,\"result\":{}", ::vt::js(&r))); }
    { ::vt::emit("scenario", "\"case\":\"c000229\",\"sc\":2");
      let app = ::entrait::Impl::new(Prov { inner: Inner { owner: "Prov" } });
      ::vt::emit("call", &format!("\"m\":\"tr\",\"recv\":{},\"args\":[\"45\"]", ::vt::js(&::vt::addr(&app.inner))));
      let fut = Tr::tr(&app, 45);
      ::vt::emit("future", "\"m\":\"tr\"");
      let r = ::vt::block_on(fut);
      let r: String = r.to_string();
      ::vt::emit("ret", &format!("\"m\":\"tr\",\"val\":{}", ::vt::js(&r)));
      ::vt::emit("end", &format!("\"panicked\":false,\"result\":{}", ::vt::js(&r))); }
    { ::vt::emit("scenario", "\"case\":\"c000229\",\"sc\":3");
      ::vt::emit("avail", &format!("\"probe\":\"Prov\",\"has\":{}", ::vt::has_impl!(::entrait::Impl<Prov>: Tr)));
      ::vt::emit("avail", &format!("\"probe\":\"NoProv\",\"has\":{}", ::vt::has_impl!(::entrait::Impl<NoProv>: Tr)));
      ::vt::emit("avail", &format!("\"probe\":\"ProvNoSync\",\"has\":{}", ::vt::has_impl!(::entrait::Impl<ProvNoSync>: Tr)));
      ::vt::emit("avail", &format!("\"probe\":\"ProvNoSend\",\"has\":{}", ::vt::has_impl!(::entrait::Impl<ProvNoSend>: Tr)));
      ::vt::emit("end", "\"panicked\":false,\"result\":\"\""); }
}
