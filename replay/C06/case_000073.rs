#[allow(unused_imports)] use ::core::borrow::Borrow;
#[allow(unused_imports)] use ::core::convert::AsRef;
#[::entrait::entrait(delegate_by = ref)]
pub trait Tr: 'static {
    fn m1(&self, a1: &str) -> String;
    fn tr(self: &Self, x: i32) -> String;
}
pub struct Inner { pub owner: &'static str }
pub struct Prov { pub inner: Inner }
pub struct NoProv { pub inner: Inner }
pub struct ProvNoSync { pub c: ::core::cell::Cell<u8>, pub inner: Inner }
pub struct ProvNoSend { pub p: ::core::marker::PhantomData<::std::sync::MutexGuard<'static, ()>>, pub inner: Inner }
impl Tr for Inner {
    fn m1(&self, a1: &str) -> String {
        let __f: String = format!("provider:{}::m1", self.owner);
        let __args: String = String::new() + &::vt::js(&a1.to_string());
        ::vt::emit("enter", &format!("\"f\":{},\"deps\":{},\"args\":[{}]", ::vt::js(&__f), ::vt::js(&::vt::addr(self)), __args));
        
        
        let __val = format!("{}({})", __f, __args);
        ::vt::emit("exit", &format!("\"f\":{},\"val\":{}", ::vt::js(&__f), ::vt::js(&__val)));
        __val
    }
    fn tr(self: &Self, x: i32) -> String {
        let __f: String = format!("provider:{}::tr", self.owner);
        let __args: String = String::new() + &::vt::js(&format!("{:?}", x));
        ::vt::emit("enter", &format!("\"f\":{},\"deps\":{},\"args\":[{}]", ::vt::js(&__f), ::vt::js(&::vt::addr(self)), __args));
        
        
        let __val = format!("{}({})", __f, __args);
        ::vt::emit("exit", &format!("\"f\":{},\"val\":{}", ::vt::js(&__f), ::vt::js(&__val)));
        __val
    }
}

impl AsRef<dyn Tr> for Prov { fn as_ref(&self) -> &(dyn Tr + 'static) { &self.inner } }
impl AsRef<dyn Tr> for ProvNoSync { fn as_ref(&self) -> &(dyn Tr + 'static) { &self.inner } }
impl AsRef<dyn Tr> for ProvNoSend { fn as_ref(&self) -> &(dyn Tr + 'static) { &self.inner } }
pub fn run() {
    { ::vt::emit("scenario", "\"case\":\"c000073\",\"sc\":1");
      let app = ::entrait::Impl::new(Prov { inner: Inner { owner: "Prov" } });
      ::vt::emit("call", &format!("\"m\":\"m1\",\"recv\":{},\"args\":[\"r99\"]", ::vt::js(&::vt::addr(&app.inner))));
      let r = Tr::m1(&app, "r99");
      let r: String = r.to_string();
      ::vt::emit("ret", &format!("\"m\":\"m1\",\"val\":{}", ::vt::js(&r)));
      ::vt::emit("end", &format!("\"panicked\":false,\"result\":{}", ::vt::js(&r))); }
    { ::vt::emit("scenario", "\"case\":\"c000073\",\"sc\":2");
      let app = ::entrait::Impl::new(Prov { inner: Inner { owner: "Prov" } });
      ::vt::emit("call", &format!("\"m\":\"tr\",\"recv\":{},\"args\":[\"90\"]", ::vt::js(&::vt::addr(&app.inner))));
      let r = Tr::tr(&app, 90);
      let r: String = r.to_string();
      ::vt::emit("ret", &format!("\"m\":\"tr\",\"val\":{}", ::vt::js(&r)));
      ::vt::emit("end", &format!("\"panicked\":false,\"result\":{}", ::vt::js(&r))); }
    { ::vt::emit("scenario", "\"case\":\"c000073\",\"sc\":3");
      ::vt::emit("avail", &format!("\"probe\":\"Prov\",\"has\":{}", ::vt::has_impl!(::entrait::Impl<Prov>: Tr)));
      ::vt::emit("avail", &format!("\"probe\":\"NoProv\",\"has\":{}", ::vt::has_impl!(::entrait::Impl<NoProv>: Tr)));
      ::vt::emit("avail", &format!("\"probe\":\"ProvNoSync\",\"has\":{}", ::vt::has_impl!(::entrait::Impl<ProvNoSync>: Tr)));
      ::vt::emit("avail", &format!("\"probe\":\"ProvNoSend\",\"has\":{}", ::vt::has_impl!(::entrait::Impl<ProvNoSend>: Tr)));
      ::vt::emit("end", "\"panicked\":false,\"result\":\"\""); }
}
