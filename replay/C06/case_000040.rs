#[allow(unused_imports)] use ::core::borrow::Borrow;
#[allow(unused_imports)] use ::core::convert::AsRef;
#[::entrait::entrait()]
#[::async_trait::async_trait]
pub trait Tr {
    async fn m1(&self) -> String;
    fn consume(self, x: i32) -> String;
}
pub struct Inner { pub owner: &'static str }
pub struct Prov { pub inner: Inner }
pub struct NoProv { pub inner: Inner }
pub struct ProvNoSync { pub c: ::core::cell::Cell<u8>, pub inner: Inner }
pub struct ProvNoSend { pub p: ::core::marker::PhantomData<::std::sync::MutexGuard<'static, ()>>, pub inner: Inner }
#[::async_trait::async_trait]
impl Tr for Prov {
    async fn m1(&self) -> String {
        let __f: String = format!("provider:{}::m1", "Prov");
        let __args: String = String::new();
        ::vt::emit("enter", &format!("\"f\":{},\"deps\":{},\"args\":[{}]", ::vt::js(&__f), ::vt::js(&::vt::addr(self)), __args));
        ::vt::yield_once().await;
        
        let __val = format!("{}({})", __f, __args);
        ::vt::emit("exit", &format!("\"f\":{},\"val\":{}", ::vt::js(&__f), ::vt::js(&__val)));
        __val
    }
    fn consume(self, x: i32) -> String {
        let __f: String = format!("provider:{}::consume", "Prov");
        let __args: String = String::new() + &::vt::js(&format!("{:?}", x));
        ::vt::emit("enter", &format!("\"f\":{},\"deps\":{},\"args\":[{}]", ::vt::js(&__f), ::vt::js(&String::from("by-value")), __args));
        
        
        let __val = format!("{}({})", __f, __args);
        ::vt::emit("exit", &format!("\"f\":{},\"val\":{}", ::vt::js(&__f), ::vt::js(&__val)));
        __val
    }
}

#[::async_trait::async_trait]
impl Tr for ProvNoSend {
    async fn m1(&self) -> String {
        let __f: String = format!("provider:{}::m1", "ProvNoSend");
        let __args: String = String::new();
        ::vt::emit("enter", &format!("\"f\":{},\"deps\":{},\"args\":[{}]", ::vt::js(&__f), ::vt::js(&::vt::addr(self)), __args));
        ::vt::yield_once().await;
        
        let __val = format!("{}({})", __f, __args);
        ::vt::emit("exit", &format!("\"f\":{},\"val\":{}", ::vt::js(&__f), ::vt::js(&__val)));
        __val
    }
    fn consume(self, x: i32) -> String {
        let __f: String = format!("provider:{}::consume", "ProvNoSend");
        let __args: String = String::new() + &::vt::js(&format!("{:?}", x));
        ::vt::emit("enter", &format!("\"f\":{},\"deps\":{},\"args\":[{}]", ::vt::js(&__f), ::vt::js(&String::from("by-value")), __args));
        
        
        let __val = format!("{}({})", __f, __args);
        ::vt::emit("exit", &format!("\"f\":{},\"val\":{}", ::vt::js(&__f), ::vt::js(&__val)));
        __val
    }
}

pub fn run() {
    { ::vt::emit("scenario", "\"case\":\"c000040\",\"sc\":1");
      let app = ::entrait::Impl::new(Prov { inner: Inner { owner: "Prov" } });
      ::vt::emit("call", &format!("\"m\":\"m1\",\"recv\":{},\"args\":[]", ::vt::js(&::vt::addr(&*app))));
      let fut = Tr::m1(&app);
      ::vt::emit("future", "\"m\":\"m1\"");
      let r = ::vt::block_on(fut);
      let r: String = r.to_string();
      ::vt::emit("ret", &format!("\"m\":\"m1\",\"val\":{}", ::vt::js(&r)));
      ::vt::emit("end", &format!("\"panicked\":false,\"result\":{}", ::vt::js(&r))); }
    { ::vt::emit("scenario", "\"case\":\"c000040\",\"sc\":2");
      ::vt::emit("avail", &format!("\"probe\":\"Prov\",\"has\":{}", ::vt::has_impl!(::entrait::Impl<Prov>: Tr)));
      ::vt::emit("avail", &format!("\"probe\":\"NoProv\",\"has\":{}", ::vt::has_impl!(::entrait::Impl<NoProv>: Tr)));
      ::vt::emit("avail", &format!("\"probe\":\"ProvNoSync\",\"has\":{}", ::vt::has_impl!(::entrait::Impl<ProvNoSync>: Tr)));
      ::vt::emit("avail", &format!("\"probe\":\"ProvNoSend\",\"has\":{}", ::vt::has_impl!(::entrait::Impl<ProvNoSend>: Tr)));
      ::vt::emit("end", "\"panicked\":false,\"result\":\"\""); }
}
