#[allow(unused_imports)] use ::core::borrow::Borrow;
#[allow(unused_imports)] use ::core::convert::AsRef;
#[::entrait::entrait()]
pub trait Tr {
    fn m1(&self, a1: i32, a2: String) -> String;
    fn tr(self: &Self, x: i32) -> String;
}
pub struct Inner { pub owner: &'static str }
pub struct Prov { pub inner: Inner }
pub struct NoProv { pub inner: Inner }
pub struct ProvNoSync { pub c: ::core::cell::Cell<u8>, pub inner: Inner }
pub struct ProvNoSend { pub p: ::core::marker::PhantomData<::std::sync::MutexGuard<'static, ()>>, pub inner: Inner }
impl Tr for Prov {
    fn m1(&self, a1: i32, a2: String) -> String {
        let __f: String = format!("provider:{}::m1", "Prov");
        let __args: String = String::new() + &::vt::js(&format!("{:?}", a1)) + "," + &::vt::js(&a2.clone());
        ::vt::emit("enter", &format!("\"f\":{},\"deps\":{},\"args\":[{}]", ::vt::js(&__f), ::vt::js(&::vt::addr(self)), __args));
        
        
        let __val = format!("{}({})", __f, __args);
        ::vt::emit("exit", &format!("\"f\":{},\"val\":{}", ::vt::js(&__f), ::vt::js(&__val)));
        __val
    }
    fn tr(self: &Self, x: i32) -> String {
        let __f: String = format!("provider:{}::tr", "Prov");
        let __args: String = String::new() + &::vt::js(&format!("{:?}", x));
        ::vt::emit("enter", &format!("\"f\":{},\"deps\":{},\"args\":[{}]", ::vt::js(&__f), ::vt::js(&::vt::addr(self)), __args));
        
        
        let __val = format!("{}({})", __f, __args);
        ::vt::emit("exit", &format!("\"f\":{},\"val\":{}", ::vt::js(&__f), ::vt::js(&__val)));
        __val
    }
}

impl Tr for ProvNoSync {
    fn m1(&self, a1: i32, a2: String) -> String {
        let __f: String = format!("provider:{}::m1", "ProvNoSync");
        let __args: String = String::new() + &::vt::js(&format!("{:?}", a1)) + "," + &::vt::js(&a2.clone());
        ::vt::emit("enter", &format!("\"f\":{},\"deps\":{},\"args\":[{}]", ::vt::js(&__f), ::vt::js(&::vt::addr(self)), __args));
        
        
        let __val = format!("{}({})", __f, __args);
        ::vt::emit("exit", &format!("\"f\":{},\"val\":{}", ::vt::js(&__f), ::vt::js(&__val)));
        __val
    }
    fn tr(self: &Self, x: i32) -> String {
        let __f: String = format!("provider:{}::tr", "ProvNoSync");
        let __args: String = String::new() + &::vt::js(&format!("{:?}", x));
        ::vt::emit("enter", &format!("\"f\":{},\"deps\":{},\"args\":[{}]", ::vt::js(&__f), ::vt::js(&::vt::addr(self)), __args));
        
        
        let __val = format!("{}({})", __f, __args);
        ::vt::emit("exit", &format!("\"f\":{},\"val\":{}", ::vt::js(&__f), ::vt::js(&__val)));
        __val
    }
}

impl Tr for ProvNoSend {
    fn m1(&self, a1: i32, a2: String) -> String {
        let __f: String = format!("provider:{}::m1", "ProvNoSend");
        let __args: String = String::new() + &::vt::js(&format!("{:?}", a1)) + "," + &::vt::js(&a2.clone());
        ::vt::emit("enter", &format!("\"f\":{},\"deps\":{},\"args\":[{}]", ::vt::js(&__f), ::vt::js(&::vt::addr(self)), __args));
        
        
        let __val = format!("{}({})", __f, __args);
        ::vt::emit("exit", &format!("\"f\":{},\"val\":{}", ::vt::js(&__f), ::vt::js(&__val)));
        __val
    }
    fn tr(self: &Self, x: i32) -> String {
        let __f: String = format!("provider:{}::tr", "ProvNoSend");
        let __args: String = String::new() + &::vt::js(&format!("{:?}", x));
        ::vt::emit("enter", &format!("\"f\":{},\"deps\":{},\"args\":[{}]", ::vt::js(&__f), ::vt::js(&::vt::addr(self)), __args));
        
        
        let __val = format!("{}({})", __f, __args);
        ::vt::emit("exit", &format!("\"f\":{},\"val\":{}", ::vt::js(&__f), ::vt::js(&__val)));
        __val
    }
}

pub fn run() {
    { ::vt::emit("scenario", "\"case\":\"c000529\",\"sc\":1");
      let app = ::entrait::Impl::new(Prov { inner: Inner { owner: "Prov" } });
      ::vt::emit("call", &format!("\"m\":\"m1\",\"recv\":{},\"args\":[\"801\",\"s-445\"]", ::vt::js(&::vt::addr(&*app))));
      let r = Tr::m1(&app, 801, String::from("s-445"));
      let r: String = r.to_string();
      ::vt::emit("ret", &format!("\"m\":\"m1\",\"val\":{}", ::vt::js(&r)));
      ::vt::emit("end", &format!("\"panicked\":false,\"result\":{}", ::vt::js(&r))); }
    { ::vt::emit("scenario", "\"case\":\"c000529\",\"sc\":2");
      let app = ::entrait::Impl::new(Prov { inner: Inner { owner: "Prov" } });
      ::vt::emit("call", &format!("\"m\":\"tr\",\"recv\":{},\"args\":[\"53\"]", ::vt::js(&::vt::addr(&*app))));
      let r = Tr::tr(&app, 53);
      let r: String = r.to_string();
      ::vt::emit("ret", &format!("\"m\":\"tr\",\"val\":{}", ::vt::js(&r)));
      ::vt::emit("end", &format!("\"panicked\":false,\"result\":{}", ::vt::js(&r))); }
    { ::vt::emit("scenario", "\"case\":\"c000529\",\"sc\":3");
      ::vt::emit("avail", &format!("\"probe\":\"Prov\",\"has\":{}", ::vt::has_impl!(::entrait::Impl<Prov>: Tr)));
      ::vt::emit("avail", &format!("\"probe\":\"NoProv\",\"has\":{}", ::vt::has_impl!(::entrait::Impl<NoProv>: Tr)));
      ::vt::emit("avail", &format!("\"probe\":\"ProvNoSync\",\"has\":{}", ::vt::has_impl!(::entrait::Impl<ProvNoSync>: Tr)));
      ::vt::emit("avail", &format!("\"probe\":\"ProvNoSend\",\"has\":{}", ::vt::has_impl!(::entrait::Impl<ProvNoSend>: Tr)));
      ::vt::emit("end", "\"panicked\":false,\"result\":\"\""); }
}
