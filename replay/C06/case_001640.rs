#[allow(unused_imports)] use ::core::borrow::Borrow;
#[allow(unused_imports)] use ::core::convert::AsRef;
#[::entrait::entrait(delegate_by = ref)]
pub trait Tr<'t>: 'static {
    fn m1(&self, a1: i32) -> String;
    fn m2(&self, a1: i32) -> String;
    fn m3(&self, a1: i32) -> String;
    fn lt(&self, s: &'t str) -> &'t str;
}
pub struct Inner { pub owner: &'static str }
pub struct Prov { pub inner: Inner }
pub struct NoProv { pub inner: Inner }
pub struct ProvNoSync { pub c: ::core::cell::Cell<u8>, pub inner: Inner }
pub struct ProvNoSend { pub p: ::core::marker::PhantomData<::std::sync::MutexGuard<'static, ()>>, pub inner: Inner }
impl Tr<'static> for Inner {
    fn m1(&self, a1: i32) -> String {
        let __f: String = format!("provider:{}::m1", self.owner);
        let __args: String = String::new() + &::vt::js(&format!("{:?}", a1));
        ::vt::emit("enter", &format!("\"f\":{},\"deps\":{},\"args\":[{}]", ::vt::js(&__f), ::vt::js(&::vt::addr(self)), __args));
        
        
        let __val = format!("{}({})", __f, __args);
        ::vt::emit("exit", &format!("\"f\":{},\"val\":{}", ::vt::js(&__f), ::vt::js(&__val)));
        __val
    }
    fn m2(&self, a1: i32) -> String {
        let __f: String = format!("provider:{}::m2", self.owner);
        let __args: String = String::new() + &::vt::js(&format!("{:?}", a1));
        ::vt::emit("enter", &format!("\"f\":{},\"deps\":{},\"args\":[{}]", ::vt::js(&__f), ::vt::js(&::vt::addr(self)), __args));
        
        
        let __val = format!("{}({})", __f, __args);
        ::vt::emit("exit", &format!("\"f\":{},\"val\":{}", ::vt::js(&__f), ::vt::js(&__val)));
        __val
    }
    fn m3(&self, a1: i32) -> String {
        let __f: String = format!("provider:{}::m3", self.owner);
        let __args: String = String::new() + &::vt::js(&format!("{:?}", a1));
        ::vt::emit("enter", &format!("\"f\":{},\"deps\":{},\"args\":[{}]", ::vt::js(&__f), ::vt::js(&::vt::addr(self)), __args));
        
        
        let __val = format!("{}({})", __f, __args);
        ::vt::emit("exit", &format!("\"f\":{},\"val\":{}", ::vt::js(&__f), ::vt::js(&__val)));
        __val
    }
    fn lt(&self, s: &'static str) -> &'static str {
        let __f: String = format!("provider:{}::lt", self.owner);
        ::vt::emit("enter", &format!("\"f\":{},\"deps\":{},\"args\":[{}]", ::vt::js(&__f), ::vt::js(&::vt::addr(self)), ::vt::js(&s.to_string())));
        ::vt::emit("exit", &format!("\"f\":{},\"val\":{}", ::vt::js(&__f), ::vt::js(&s.to_string())));
        s
    }
}

impl AsRef<dyn Tr<'static>> for Prov { fn as_ref(&self) -> &(dyn Tr<'static> + 'static) { &self.inner } }
impl AsRef<dyn Tr<'static>> for ProvNoSync { fn as_ref(&self) -> &(dyn Tr<'static> + 'static) { &self.inner } }
impl AsRef<dyn Tr<'static>> for ProvNoSend { fn as_ref(&self) -> &(dyn Tr<'static> + 'static) { &self.inner } }
pub fn run() {
    { ::vt::emit("scenario", "\"case\":\"c001640\",\"sc\":1");
      let app = ::entrait::Impl::new(Prov { inner: Inner { owner: "Prov" } });
      ::vt::emit("call", &format!("\"m\":\"m1\",\"recv\":{},\"args\":[\"-276\"]", ::vt::js(&::vt::addr(&app.inner))));
      let r = Tr::m1(&app, -276);
      let r: String = r.to_string();
      ::vt::emit("ret", &format!("\"m\":\"m1\",\"val\":{}", ::vt::js(&r)));
      ::vt::emit("end", &format!("\"panicked\":false,\"result\":{}", ::vt::js(&r))); }
    { ::vt::emit("scenario", "\"case\":\"c001640\",\"sc\":2");
      let app = ::entrait::Impl::new(Prov { inner: Inner { owner: "Prov" } });
      ::vt::emit("call", &format!("\"m\":\"m2\",\"recv\":{},\"args\":[\"-790\"]", ::vt::js(&::vt::addr(&app.inner))));
      let r = Tr::m2(&app, -790);
      let r: String = r.to_string();
      ::vt::emit("ret", &format!("\"m\":\"m2\",\"val\":{}", ::vt::js(&r)));
      ::vt::emit("end", &format!("\"panicked\":false,\"result\":{}", ::vt::js(&r))); }
    { ::vt::emit("scenario", "\"case\":\"c001640\",\"sc\":3");
      let app = ::entrait::Impl::new(Prov { inner: Inner { owner: "Prov" } });
      ::vt::emit("call", &format!("\"m\":\"m3\",\"recv\":{},\"args\":[\"-132\"]", ::vt::js(&::vt::addr(&app.inner))));
      let r = Tr::m3(&app, -132);
      let r: String = r.to_string();
      ::vt::emit("ret", &format!("\"m\":\"m3\",\"val\":{}", ::vt::js(&r)));
      ::vt::emit("end", &format!("\"panicked\":false,\"result\":{}", ::vt::js(&r))); }
    { ::vt::emit("scenario", "\"case\":\"c001640\",\"sc\":4");
      let app = ::entrait::Impl::new(Prov { inner: Inner { owner: "Prov" } });
      ::vt::emit("call", &format!("\"m\":\"lt\",\"recv\":{},\"args\":[\"lifetime\"]", ::vt::js(&::vt::addr(&app.inner))));
      let r = Tr::lt(&app, "lifetime");
      let r: String = r.to_string();
      ::vt::emit("ret", &format!("\"m\":\"lt\",\"val\":{}", ::vt::js(&r)));
      ::vt::emit("end", &format!("\"panicked\":false,\"result\":{}", ::vt::js(&r))); }
    { ::vt::emit("scenario", "\"case\":\"c001640\",\"sc\":5");
      ::vt::emit("avail", &format!("\"probe\":\"Prov\",\"has\":{}", ::vt::has_impl!(::entrait::Impl<Prov>: Tr<'static>)));
      ::vt::emit("avail", &format!("\"probe\":\"NoProv\",\"has\":{}", ::vt::has_impl!(::entrait::Impl<NoProv>: Tr<'static>)));
      ::vt::emit("avail", &format!("\"probe\":\"ProvNoSync\",\"has\":{}", ::vt::has_impl!(::entrait::Impl<ProvNoSync>: Tr<'static>)));
      ::vt::emit("avail", &format!("\"probe\":\"ProvNoSend\",\"has\":{}", ::vt::has_impl!(::entrait::Impl<ProvNoSend>: Tr<'static>)));
      ::vt::emit("end", "\"panicked\":false,\"result\":\"\""); }
}
