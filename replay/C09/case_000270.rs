pub trait Sup {}
#[::entrait::entrait()]
pub trait Tr<const N: usize, G: Clone> {
    fn m(&self, a: i32) -> i32;
}
