pub trait Sup {}
#[::entrait::entrait()]
trait Tr {
    fn m(&self, a: i32) -> i32;
    async fn n(&self, b: u8) -> u8;
    async fn unit(&self);
}
