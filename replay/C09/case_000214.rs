pub trait Sup {}
#[::entrait::entrait(TrImpl, delegate_by = DelegateTr)]
#[allow(dead_code, clippy::needless_lifetimes)]
trait Tr<const N: usize, G: Clone> {
    fn m(&self, a: i32) -> i32;
}
