pub trait Sup {}
#[::entrait::entrait(mockall)]
trait Tr<const N: usize, G: Clone> {
    fn m(&self, a: i32) -> i32;
}
