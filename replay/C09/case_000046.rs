pub trait Sup {}
#[::entrait::entrait()]
trait Tr {
    fn m(&self, a: i32) -> i32 { a + 1 }
}
