pub trait Sup {}
#[::entrait::entrait(delegate_by = ref)]
trait Tr {
    /// Method documentation.
    #[must_use]
    fn m(&self, a: i32) -> i32;
}
