pub trait Sup {}
#[::entrait::entrait(mockall)]
trait Tr {
    fn m(&self, a: i32) -> i32 { a + 1 }
}
