pub trait Sup {}
#[::entrait::entrait(delegate_by = Borrow)]
unsafe trait Tr {
    fn m(&self, a: i32) -> i32;
}
