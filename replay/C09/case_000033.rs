pub trait Sup {}
#[::entrait::entrait(TrImpl, delegate_by = DelegateTr)]
unsafe trait Tr {
    fn m(&self, a: i32) -> i32;
}
