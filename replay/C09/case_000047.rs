pub trait Sup {}
#[::entrait::entrait(mock_api = Mk, unimock)]
trait Tr {
    fn m(&self, a: i32) -> i32 { a + 1 }
}
