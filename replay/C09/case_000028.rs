pub trait Sup {}
#[::entrait::entrait()]
unsafe trait Tr {
    fn m(&self, a: i32) -> i32;
}
