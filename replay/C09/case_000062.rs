pub trait Sup {}
#[::entrait::entrait(TrImpl, delegate_by = DelegateTr)]
trait Tr {
    /// Method documentation.
    #[must_use]
    fn m(&self, a: i32) -> i32;
}
