pub trait Sup {}
#[::entrait::entrait(TrImpl, delegate_by = DelegateTr)]
trait Tr {
    /// An associated type.
    type A: Send;
    fn m(&self, a: i32) -> i32;
}
