pub trait Sup {}
#[::entrait::entrait(mock_api = Mk, unimock)]
pub trait Tr<'t, const N: usize, G: Clone = u8> {
    fn m(&self, a: i32) -> i32;
}
