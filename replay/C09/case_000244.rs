pub trait Sup {}
#[::entrait::entrait(mock_api = Mk, unimock)]
pub trait Tr {
    /// Method documentation.
    #[must_use]
    fn m(&self, a: i32) -> i32;
}
