pub trait Sup {}
#[::entrait::entrait()]
trait Tr<'t, const N: usize, G: Clone = u8> {
    fn m(&self, a: i32) -> i32;
}
