pub trait Sup {}
#[::entrait::entrait(TrImpl, delegate_by = ref)]
unsafe trait Tr {
    fn m(&self, a: i32) -> i32;
}
