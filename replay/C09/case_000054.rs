pub trait Sup {}
#[::entrait::entrait(TrImpl, delegate_by = DelegateTr)]
trait Tr<'t, const N: usize, G: Clone = u8> {
    fn m(&self, a: i32) -> i32;
}
