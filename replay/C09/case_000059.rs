pub trait Sup {}
#[::entrait::entrait(mockall)]
trait Tr {
    /// Method documentation.
    #[must_use]
    fn m(&self, a: i32) -> i32;
}
