pub trait Sup {}
#[::entrait::entrait(delegate_by = ref)]
/// The trait's documentation.
/// Second line with `code`.
unsafe trait Tr {
    fn m(&self, a: i32) -> i32;
}
