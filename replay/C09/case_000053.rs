pub trait Sup {}
#[::entrait::entrait()]
trait Tr {
    /// An associated type.
    type A: Send;
    fn m(&self, a: i32) -> i32;
}
