pub trait Sup {}
#[::entrait::entrait(TrImpl, delegate_by = DelegateTr)]
/// The trait's documentation.
/// Second line with `code`.
trait Tr<const N: usize, G: Clone> {
    fn m(&self, a: i32) -> i32;
}
