pub trait Sup {}
#[::entrait::entrait()]
#[allow(dead_code, clippy::needless_lifetimes)]
trait Tr<'t, const N: usize, G: Clone = u8> {
    fn m(&self, a: i32) -> i32;
}
