pub trait Sup {}
#[::entrait::entrait(mockall)]
unsafe trait Tr {
    fn m(&self, a: i32) -> i32;
}
