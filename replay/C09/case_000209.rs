pub trait Sup {}
#[::entrait::entrait(mockall)]
#[allow(dead_code, clippy::needless_lifetimes)]
trait Tr<const N: usize, G: Clone> {
    fn m(&self, a: i32) -> i32;
}
