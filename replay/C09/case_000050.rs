pub trait Sup {}
#[::entrait::entrait(delegate_by = Borrow)]
trait Tr {
    fn m(&self, a: i32) -> i32 { a + 1 }
}
