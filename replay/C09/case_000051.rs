pub trait Sup {}
#[::entrait::entrait(TrImpl, delegate_by = DelegateTr)]
trait Tr<const N: usize, G: Clone> {
    fn m(&self, a: i32) -> i32;
}
