pub trait Sup {}
#[::entrait::entrait(TrImpl, delegate_by = DelegateTr)]
trait Tr {
    fn m(&self, a: i32) -> i32 { a + 1 }
}
