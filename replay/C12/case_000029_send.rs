use crate::*;
#[::entrait::entrait(pub T, ?Send)]
async fn f<G: Send + 'static>(deps: &crate::ConcN, g: G) -> G { ::vt::yield_once().await; g }
pub fn w_send<'a, A: T<u8> + Sync>(app: &'a A, s: &'a str) { let fut = app.f(7u8); is_send(&fut); }
