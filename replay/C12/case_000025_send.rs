use crate::*;
#[::entrait::entrait(pub T, ?Send)]
async fn f<'a>(deps: &'a crate::ConcN) -> &'a str { ::vt::yield_once().await; deps.name() }
pub fn w_send<'a, A: T + Sync>(app: &'a A, s: &'a str) { let fut = app.f(); is_send(&fut); }
