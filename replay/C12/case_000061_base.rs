use crate::*;
#[::entrait::entrait()]
#[::async_trait::async_trait(?Send)]
pub trait T { async fn f<'a>(&self, s: &'a str) -> &'a str; }

#[::async_trait::async_trait(?Send)]
impl T for crate::App { async fn f<'a>(&self, s: &'a str) -> &'a str { ::vt::yield_once().await; s } }
pub fn w_output<'a>(app: &'a ::entrait::Impl<crate::App>, s: &'a str) { let fut = T::f(app, s); assert_output::<&'a str, _>(&fut); let _ = ::vt::block_on(fut); }
