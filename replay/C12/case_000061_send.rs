use crate::*;
#[::entrait::entrait()]
#[::async_trait::async_trait(?Send)]
pub trait T { async fn f<'a>(&self, s: &'a str) -> &'a str; }

#[::async_trait::async_trait(?Send)]
impl T for crate::App { async fn f<'a>(&self, s: &'a str) -> &'a str { ::vt::yield_once().await; s } }
pub fn w_send<'a, A: T + Sync>(app: &'a A, s: &'a str) { let fut = app.f(s); is_send(&fut); }
