use crate::*;
#[::entrait::entrait(TI, delegate_by = Del, ?Send)]
pub trait T { async fn f(&self, g: G) -> G; }

pub struct X;
#[::entrait::entrait]
impl TI for X { pub async fn f<D: Sync>(deps: &D, g: G) -> G { ::vt::yield_once().await; g } }

impl Del<Self> for crate::App { type Target = X; }
pub fn w_send<'a, A: T<u8> + Sync>(app: &'a A, s: &'a str) { let fut = app.f(7u8); is_send(&fut); }
