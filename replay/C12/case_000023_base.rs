use crate::*;
#[::entrait::entrait(pub T, ?Send)]
async fn f(deps: &crate::ConcN) -> String { ::vt::yield_once().await; String::from("x") }
pub fn w_output<'a>(app: &'a crate::ConcN, s: &'a str) { let fut = T::f(app); assert_output::<String, _>(&fut); let _ = ::vt::block_on(fut); }
