use crate::*;
#[::entrait::entrait()]
#[::async_trait::async_trait(?Send)]
pub trait T { async fn f(&self); }

#[::async_trait::async_trait(?Send)]
impl T for crate::App { async fn f(&self) { ::vt::yield_once().await;  } }
pub fn w_send<'a, A: T + Sync>(app: &'a A, s: &'a str) { let fut = app.f(); is_send(&fut); }
