use crate::*;
#[::entrait::entrait(pub T, ?Send)]
async fn f<'a>(deps: &crate::ConcN, s: &'a str) -> &'a str { let rc = ::std::rc::Rc::new(1u8); ::vt::yield_once().await; let _keep = *rc; s }
