use crate::*;
#[::entrait::entrait()]
#[::async_trait::async_trait(?Send)]
pub trait T { async fn f(&self); }

#[::async_trait::async_trait(?Send)]
impl T for crate::App { async fn f(&self) { ::vt::yield_once().await;  } }
pub fn w_output<'a>(app: &'a ::entrait::Impl<crate::App>, s: &'a str) { let fut = T::f(app); assert_output::<(), _>(&fut); let _ = ::vt::block_on(fut); }
