use crate::*;
#[::entrait::entrait(TI, delegate_by = Del)]
#[::async_trait::async_trait(?Send)]
pub trait T { async fn f<'a>(&self, s: &'a str) -> &'a str; }

pub struct X;
#[::entrait::entrait]
#[::async_trait::async_trait(?Send)]
impl TI for X { pub async fn f<'a, D: Sync>(deps: &D, s: &'a str) -> &'a str { let rc = ::std::rc::Rc::new(1u8); ::vt::yield_once().await; let _keep = *rc; s } }

impl Del<Self> for crate::App { type Target = X; }
