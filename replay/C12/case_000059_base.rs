use crate::*;
#[::entrait::entrait()]
#[::async_trait::async_trait(?Send)]
pub trait T { async fn f(&self) -> String; }

#[::async_trait::async_trait(?Send)]
impl T for crate::App { async fn f(&self) -> String { ::vt::yield_once().await; String::from("x") } }
pub fn w_output<'a>(app: &'a ::entrait::Impl<crate::App>, s: &'a str) { let fut = T::f(app); assert_output::<String, _>(&fut); let _ = ::vt::block_on(fut); }
