use crate::*;
#[::entrait::entrait(TI, delegate_by = Del)]
pub trait T { async fn f(&self, g: G) -> G; }

pub struct X;
#[::entrait::entrait]
impl TI for X { pub async fn f<D: Sync>(deps: &D, g: G) -> G { ::vt::yield_once().await; g } }

impl Del<Self> for crate::App { type Target = X; }
pub fn w_output<'a>(app: &'a ::entrait::Impl<crate::App>, s: &'a str) { let fut = T::f(app, 7u8); assert_output::<u8, _>(&fut); let _ = ::vt::block_on(fut); }
