use crate::*;
#[::entrait::entrait(TI, delegate_by = Del)]
#[::async_trait::async_trait(?Send)]
pub trait T { async fn f(&self); }

pub struct X;
#[::entrait::entrait]
#[::async_trait::async_trait(?Send)]
impl TI for X { pub async fn f<D: Sync>(deps: &D) { ::vt::yield_once().await;  } }

impl Del<Self> for crate::App { type Target = X; }
pub fn w_send<'a, A: T + Sync>(app: &'a A, s: &'a str) { let fut = app.f(); is_send(&fut); }
