use crate::*;
#[::entrait::entrait(pub T, ?Send)]
async fn f<'a>(deps: &crate::ConcN, s: &'a str) -> &'a str { ::vt::yield_once().await; s }
pub fn w_send<'a, A: T + Sync>(app: &'a A, s: &'a str) { let fut = app.f(s); is_send(&fut); }
