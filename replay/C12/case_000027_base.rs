use crate::*;
#[::entrait::entrait(pub T, ?Send)]
async fn f<'a>(deps: &crate::ConcN, s: &'a str) -> &'a str { ::vt::yield_once().await; s }
pub fn w_output<'a>(app: &'a crate::ConcN, s: &'a str) { let fut = T::f(app, s); assert_output::<&'a str, _>(&fut); let _ = ::vt::block_on(fut); }
