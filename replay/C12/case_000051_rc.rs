use crate::*;
#[::entrait::entrait(TI, delegate_by = ref)]
#[::async_trait::async_trait(?Send)]
pub trait T { async fn f(&self); }

pub struct X;
#[::entrait::entrait(ref)]
#[::async_trait::async_trait(?Send)]
impl TI for X { pub async fn f<D: Sync>(deps: &D) { let rc = ::std::rc::Rc::new(1u8); ::vt::yield_once().await; let _keep = *rc;  } }

impl AsRef<dyn TI<Self> + Sync> for crate::App { fn as_ref(&self) -> &(dyn TI<Self> + Sync + 'static) { &X } }
