use crate::*;
#[::entrait::entrait(pub T, ?Send)]
async fn f<'a>(deps: &'a crate::ConcN) -> &'a str { ::vt::yield_once().await; deps.name() }
pub fn w_output<'a>(app: &'a crate::ConcN, s: &'a str) { let fut = T::f(app); assert_output::<&'a str, _>(&fut); let _ = ::vt::block_on(fut); }
