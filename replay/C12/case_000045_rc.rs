use crate::*;
#[::entrait::entrait(delegate_by = ref)]
#[::async_trait::async_trait(?Send)]
pub trait T: Sync + 'static { async fn f(&self); }

pub struct Inner;
#[::async_trait::async_trait(?Send)]
impl T for Inner { async fn f(&self) { let rc = ::std::rc::Rc::new(1u8); ::vt::yield_once().await; let _keep = *rc;  } }

impl AsRef<dyn T> for crate::App { fn as_ref(&self) -> &(dyn T + 'static) { &Inner } }
