use crate::*;
#[::entrait::entrait(pub T, ?Send)]
async fn f(deps: &crate::ConcN) -> String { let rc = ::std::rc::Rc::new(1u8); ::vt::yield_once().await; let _keep = *rc; String::from("x") }
