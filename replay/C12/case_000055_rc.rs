use crate::*;
#[::entrait::entrait(TI, delegate_by = ref)]
#[::async_trait::async_trait(?Send)]
pub trait T { async fn f<'a>(&self, s: &'a str) -> &'a str; }

pub struct X;
#[::entrait::entrait(ref)]
#[::async_trait::async_trait(?Send)]
impl TI for X { pub async fn f<'a, D: Sync>(deps: &D, s: &'a str) -> &'a str { let rc = ::std::rc::Rc::new(1u8); ::vt::yield_once().await; let _keep = *rc; s } }

impl AsRef<dyn TI<Self> + Sync> for crate::App { fn as_ref(&self) -> &(dyn TI<Self> + Sync + 'static) { &X } }
