use crate::*;
#[::entrait::entrait(delegate_by = ref)]
#[::async_trait::async_trait(?Send)]
pub trait T: Sync + 'static { async fn f(&self) -> String; }

pub struct Inner;
#[::async_trait::async_trait(?Send)]
impl T for Inner { async fn f(&self) -> String { ::vt::yield_once().await; String::from("x") } }

impl AsRef<dyn T> for crate::App { fn as_ref(&self) -> &(dyn T + 'static) { &Inner } }
pub fn w_send<'a, A: T + Sync>(app: &'a A, s: &'a str) { let fut = app.f(); is_send(&fut); }
