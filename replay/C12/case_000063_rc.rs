use crate::*;
#[::entrait::entrait(TI, delegate_by = Del)]
#[::async_trait::async_trait(?Send)]
pub trait T { async fn f(&self); }

pub struct X;
#[::entrait::entrait]
#[::async_trait::async_trait(?Send)]
impl TI for X { pub async fn f<D: Sync>(deps: &D) { let rc = ::std::rc::Rc::new(1u8); ::vt::yield_once().await; let _keep = *rc;  } }

impl Del<Self> for crate::App { type Target = X; }
