use crate::*;
#[::entrait::entrait(TI, delegate_by = Del)]
#[::async_trait::async_trait(?Send)]
pub trait T { async fn f<'a>(&self, s: &'a str) -> &'a str; }

pub struct X;
#[::entrait::entrait]
#[::async_trait::async_trait(?Send)]
impl TI for X { pub async fn f<'a, D: Sync>(deps: &D, s: &'a str) -> &'a str { ::vt::yield_once().await; s } }

impl Del<Self> for crate::App { type Target = X; }
pub fn w_output<'a>(app: &'a ::entrait::Impl<crate::App>, s: &'a str) { let fut = T::f(app, s); assert_output::<&'a str, _>(&fut); let _ = ::vt::block_on(fut); }
