use crate::*;
#[::entrait::entrait(delegate_by = ref)]
#[::async_trait::async_trait(?Send)]
pub trait T: Sync + 'static { async fn f<'a>(&self, s: &'a str) -> &'a str; }

pub struct Inner;
#[::async_trait::async_trait(?Send)]
impl T for Inner { async fn f<'a>(&self, s: &'a str) -> &'a str { ::vt::yield_once().await; s } }

impl AsRef<dyn T> for crate::App { fn as_ref(&self) -> &(dyn T + 'static) { &Inner } }
pub fn w_output<'a>(app: &'a ::entrait::Impl<crate::App>, s: &'a str) { let fut = T::f(app, s); assert_output::<&'a str, _>(&fut); let _ = ::vt::block_on(fut); }
