use crate::*;
#[::entrait::entrait(pub T, ?Send)]
async fn f<G: Send + 'static>(deps: &crate::ConcN, g: G) -> G { let rc = ::std::rc::Rc::new(1u8); ::vt::yield_once().await; let _keep = *rc; g }
