use crate::*;
#[::entrait::entrait()]
#[::async_trait::async_trait(?Send)]
pub trait T { async fn f(&self) -> String; }

#[::async_trait::async_trait(?Send)]
impl T for crate::App { async fn f(&self) -> String { ::vt::yield_once().await; String::from("x") } }
pub fn w_send<'a, A: T + Sync>(app: &'a A, s: &'a str) { let fut = app.f(); is_send(&fut); }
