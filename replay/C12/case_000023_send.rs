use crate::*;
#[::entrait::entrait(pub T, ?Send)]
async fn f(deps: &crate::ConcN) -> String { ::vt::yield_once().await; String::from("x") }
pub fn w_send<'a, A: T + Sync>(app: &'a A, s: &'a str) { let fut = app.f(); is_send(&fut); }
