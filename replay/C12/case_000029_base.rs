use crate::*;
#[::entrait::entrait(pub T, ?Send)]
async fn f<G: Send + 'static>(deps: &crate::ConcN, g: G) -> G { ::vt::yield_once().await; g }
pub fn w_output<'a>(app: &'a crate::ConcN, s: &'a str) { let fut = T::f(app, 7u8); assert_output::<u8, _>(&fut); let _ = ::vt::block_on(fut); }
