use crate::*;
#[::entrait::entrait()]
#[::async_trait::async_trait(?Send)]
pub trait T { async fn f<'a>(&self, s: &'a str) -> &'a str; }

#[::async_trait::async_trait(?Send)]
impl T for crate::App { async fn f<'a>(&self, s: &'a str) -> &'a str { let rc = ::std::rc::Rc::new(1u8); ::vt::yield_once().await; let _keep = *rc; s } }
