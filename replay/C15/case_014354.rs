#[::entrait::entrait(T)]
fn g<'a, 'b, D, U: IntoIterator>(deps: &'a D, u: U, s: &'b str) where (U,): Sized { let _ = (deps, u, s); }
