pub struct X;
pub trait TI<T>: 'static { }
#[::entrait::entrait]
impl TI for X {
    fn g<'a, 'b, D, U: IntoIterator + 'static>(deps: &'a D, u: U, s: &'b str) where (U,): Sized { let _ = (deps, u, s); }
}
