use crate::{N, N2, S};
#[::entrait::entrait]
trait Tr {
    fn r#match(&self, N(r#match): N);
}
