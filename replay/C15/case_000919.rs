#[::entrait::entrait(delegate_by = ref)]
trait Tr {
    fn m(&self, _: i32) -> i32;
    fn d(&self) -> u8 { 1 }
}
