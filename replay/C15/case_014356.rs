#[::entrait::entrait(T)]
fn g<'a, 'b, D, U: IntoIterator>(deps: &'a D, u: U, s: &'b str) where for<'x> &'x U: IntoIterator { let _ = (deps, u, s); }
