use crate::{N, N2, S};
#[::entrait::entrait(T)]
fn r#match<D>(deps: &D, r#match: i32) { }
