use crate::{N, N2, S};
#[::entrait::entrait(T)]
mod m {
    use crate::{N, N2, S};
    pub fn r#match<D>(deps: &D, N(r#match): N) { }
}
