#[::entrait::entrait(delegate_by = Borrow)]
trait Tr {
    fn m(&self, (a, b): (i32, i32)) -> i32;
    
}
