#[::entrait::entrait(T)]
mod m {
    pub fn g<'a, 'b, D, U: IntoIterator>(deps: &'a D, u: U, s: &'b str) where for<'x> &'x U: IntoIterator { let _ = (deps, u, s); }
}
