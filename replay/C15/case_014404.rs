pub struct X;
pub trait TI<T>: 'static { }
#[::entrait::entrait]
impl TI for X {
    fn g<'a, 'b, D, U: IntoIterator + 'static>(deps: &'a D, u: U, s: &'b str) where for<'x> &'x U: IntoIterator + 'static { let _ = (deps, u, s); }
}
