#[::entrait::entrait(delegate_by = ref)]
trait Tr {
    fn m(&self, (a, b): (i32, i32)) -> i32;
    fn d(&self) -> u8 { 1 }
}
