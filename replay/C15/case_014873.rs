use crate::{N, N2, S};
pub struct X;
pub trait TI<T>: 'static { }
#[::entrait::entrait]
impl TI for X {
    fn r#match<D>(deps: &D, N(r#match): N) { }
}
