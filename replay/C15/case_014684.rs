use crate::{N, N2, S};
#[::entrait::entrait(T)]
fn r#match<D>(deps: &D, N(r#match): N) { }
