#[::entrait::entrait(TImpl, delegate_by = DelegateTr)]
trait Tr {
    fn m(&self, (a, b): (i32, i32)) -> i32;
    type A;
}
