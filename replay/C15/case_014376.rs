#[::entrait::entrait(T)]
mod m {
    pub fn g<'a, 'b, D, U: IntoIterator>(deps: &'a D, u: U, s: &'b str) where U::Item: Clone { let _ = (deps, u, s); }
}
