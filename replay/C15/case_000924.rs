#[::entrait::entrait(delegate_by = Borrow)]
trait Tr {
    fn m(&self, _: i32) -> i32;
    type A;
}
