use crate::{N, N2, S};
#[::entrait::entrait]
trait Tr {
    fn r#match(&self, r#match: i32);
}
