#[allow(unused_imports)] use crate::HasName as _;

#[::entrait::entrait(pub T)]
async unsafe fn f<D: Sync, U1>(deps: &D, p1: U1, p2: &str) -> U1 where U1: ::core::fmt::Debug + Send + 'static { p1 }

pub fn witness1() {
    let recv_a = ::entrait::Impl::new(crate::App);
    let recv_b = ::entrait::Impl::new(crate::App);
    let fa = unsafe { f(&recv_a, 1u8, "x") };
    crate::assert_output::<u8, _>(&fa);
    let fb = unsafe { <::entrait::Impl<crate::App> as T<u8>>::f(&recv_b, 1u8, "x") };
    crate::assert_output::<u8, _>(&fb);
}
