#[allow(unused_imports)] use crate::HasName as _;

#[::entrait::entrait(pub T)]
pub mod m {
    pub fn f1<D: Sync, U1, U2>(deps: D, p1: U1, p2: U2) -> U1 where U1: ::core::fmt::Debug + Send + 'static, U2: ::core::fmt::Debug + Send + 'static { p1 }
    pub fn f2<D: Sync, U1: ::core::fmt::Debug + Send + 'static>(deps: &D, p1: U1) {  }
}

pub fn witness1() {
    let _a: fn(::entrait::Impl<crate::App>, u8, u8) -> u8 = m::f1;
    let _b: fn(::entrait::Impl<crate::App>, u8, u8) -> u8 = <::entrait::Impl<crate::App> as T<u8, u8, u8>>::f1;
}

pub fn witness2() {
    let _a: fn(&::entrait::Impl<crate::App>, u8) = m::f2;
    let _b: fn(&::entrait::Impl<crate::App>, u8) = <::entrait::Impl<crate::App> as T<u8, u8, u8>>::f2;
}
