#[allow(unused_imports)] use crate::HasName as _;

#[::entrait::entrait(pub T)]
fn f<D: Sync, U1>(deps: D, p1: U1) -> String where U1: ::core::fmt::Debug + Send + 'static { String::new() }

pub fn witness1() {
    let _a: fn(::entrait::Impl<crate::App>, u8) -> String = f;
    let _b: fn(::entrait::Impl<crate::App>, u8) -> String = <::entrait::Impl<crate::App> as T<u8>>::f;
}
