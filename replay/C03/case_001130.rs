#[allow(unused_imports)] use crate::HasName as _;

#[::entrait::entrait(pub T)]
extern "C" fn f<'a, 'b: 'a>(deps: crate::Conc, p1: &'a str, p2: &'b str) -> &'a str { p1 }

pub fn witness1<'a, 'b: 'a>() {
    let _a: extern "C" fn(crate::Conc, &'a str, &'b str) -> &'a str = f;
    let _b: extern "C" fn(crate::Conc, &'a str, &'b str) -> &'a str = <crate::Conc as T>::f;
}
