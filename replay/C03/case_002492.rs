#[allow(unused_imports)] use crate::HasName as _;

#[::entrait::entrait(TI, delegate_by = ref)]
pub trait Tr { fn f<'a, 'b: 'a>(&'a self, p1: &'a str, p2: &'b str); }

pub struct X;
#[::entrait::entrait(ref)]
impl TI for X {
    pub fn f<'a, 'b: 'a, D: Sync>(deps: &'a D, p1: &'a str, p2: &'b str) {  }
}

impl AsRef<dyn TI<Self>> for crate::App { fn as_ref(&self) -> &(dyn TI<Self> + 'static) { &X } }

pub fn witness1<'a, 'b: 'a>() {
    let _a: fn(&'a ::entrait::Impl<crate::App>, &'a str, &'b str) = X::f;
    let _b: fn(&'a ::entrait::Impl<crate::App>, &'a str, &'b str) = <::entrait::Impl<crate::App> as Tr>::f;
}
