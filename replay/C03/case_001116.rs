#[allow(unused_imports)] use crate::HasName as _;

#[::entrait::entrait(pub T)]
unsafe fn f<'a, 'b: 'a, D: Sync>(deps: D, p1: &'a str, p2: &'b str) -> &'a str { p1 }

pub fn witness1<'a, 'b: 'a>() {
    let _a: unsafe fn(::entrait::Impl<crate::App>, &'a str, &'b str) -> &'a str = f;
    let _b: unsafe fn(::entrait::Impl<crate::App>, &'a str, &'b str) -> &'a str = <::entrait::Impl<crate::App> as T>::f;
}
