#[allow(unused_imports)] use crate::HasName as _;

#[::entrait::entrait(pub T)]
async fn f<D: Sync, U1>(deps: D, p1: U1) -> String where U1: ::core::fmt::Debug + Send + 'static { String::new() }

pub fn witness1() {
    let recv_a = ::entrait::Impl::new(crate::App);
    let recv_b = ::entrait::Impl::new(crate::App);
    let fa = f(recv_a, 1u8);
    crate::assert_output::<String, _>(&fa);
    let fb = <::entrait::Impl<crate::App> as T<u8>>::f(recv_b, 1u8);
    crate::assert_output::<String, _>(&fb);
}
