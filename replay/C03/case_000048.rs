#[allow(unused_imports)] use crate::HasName as _;

#[::entrait::entrait(pub T)]
extern "C" fn f<'a, D: Sync, U1>(deps: &'a D, p1: U1, p2: String) -> U1 where U1: ::core::fmt::Debug + Send + 'static { p1 }

pub fn witness1<'a>() {
    let _a: extern "C" fn(&'a ::entrait::Impl<crate::App>, u8, String) -> u8 = f;
    let _b: extern "C" fn(&'a ::entrait::Impl<crate::App>, u8, String) -> u8 = <::entrait::Impl<crate::App> as T<u8>>::f;
}
