#[allow(unused_imports)] use crate::HasName as _;

#[::entrait::entrait(pub T)]
unsafe fn f<D: Sync, U2>(deps: D, p1: impl ::core::fmt::Debug + Send, p2: U2) -> String where U2: ::core::fmt::Debug + Send + 'static { String::new() }

pub fn witness1() {
    let _a: unsafe fn(::entrait::Impl<crate::App>, u8, u8) -> String = f;
    let _b: unsafe fn(::entrait::Impl<crate::App>, u8, u8) -> String = <::entrait::Impl<crate::App> as T<u8>>::f;
}
