#[allow(unused_imports)] use crate::HasName as _;

#[::entrait::entrait(pub T)]
pub mod m {
    pub fn f1<'a, D: Sync, U1>(deps: &'a D, p1: U1, p2: impl ::core::fmt::Debug + Send) -> U1 where U1: ::core::fmt::Debug + Send + 'static { p1 }
    pub fn f2<D: Sync, U1: ::core::fmt::Debug + Send + 'static>(deps: &D, p1: U1) {  }
}

pub fn witness1<'a>() {
    let _a: fn(&'a ::entrait::Impl<crate::App>, u8, u8) -> u8 = m::f1;
    let _b: fn(&'a ::entrait::Impl<crate::App>, u8, u8) -> u8 = <::entrait::Impl<crate::App> as T<u8, u8>>::f1;
}

pub fn witness2() {
    let _a: fn(&::entrait::Impl<crate::App>, u8) = m::f2;
    let _b: fn(&::entrait::Impl<crate::App>, u8) = <::entrait::Impl<crate::App> as T<u8, u8>>::f2;
}
