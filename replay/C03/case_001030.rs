#[allow(unused_imports)] use crate::HasName as _;

#[::entrait::entrait(pub T)]
async unsafe fn f<'a, 'b: 'a, D: crate::HasName + Sync>(deps: &'a D, p1: &'a str, p2: &'b str) -> &'a str { deps.name() }

pub fn witness1() {
    let recv_a = ::entrait::Impl::new(crate::App);
    let recv_b = ::entrait::Impl::new(crate::App);
    let fa = unsafe { f(&recv_a, "x", "x") };
    crate::assert_output::<&str, _>(&fa);
    let fb = unsafe { <::entrait::Impl<crate::App> as T>::f(&recv_b, "x", "x") };
    crate::assert_output::<&str, _>(&fb);
}
