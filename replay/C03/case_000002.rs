#[allow(unused_imports)] use crate::HasName as _;

#[::entrait::entrait(pub T)]
fn f<D: Sync, U1, const N: usize>(deps: D, p1: U1, p2: [u8; N]) -> U1 where U1: ::core::fmt::Debug + Send + 'static { p1 }

pub fn witness1() {
    let _a: fn(::entrait::Impl<crate::App>, u8, [u8; 3]) -> u8 = f;
    let _b: fn(::entrait::Impl<crate::App>, u8, [u8; 3]) -> u8 = <::entrait::Impl<crate::App> as T<u8, 3>>::f;
}
