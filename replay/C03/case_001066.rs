#[allow(unused_imports)] use crate::HasName as _;

#[::entrait::entrait(pub T)]
extern "C" fn f<'a, 'b: 'a>(deps: &'a (impl crate::HasName + Sync), p1: &'a str, p2: &'b str) -> &'a str { deps.name() }

pub fn witness1<'a, 'b: 'a>() {
    let _a: extern "C" fn(&'a ::entrait::Impl<crate::App>, &'a str, &'b str) -> &'a str = f;
    let _b: extern "C" fn(&'a ::entrait::Impl<crate::App>, &'a str, &'b str) -> &'a str = <::entrait::Impl<crate::App> as T>::f;
}
