#[allow(unused_imports)] use crate::HasName as _;

#[::entrait::entrait(pub T)]
async unsafe fn f<'a, 'b: 'a>(deps: &crate::Conc, p1: &'a str, p2: &'b str) -> &'a str { p1 }

pub fn witness1() {
    let recv_a = crate::Conc { name: "c" };
    let recv_b = crate::Conc { name: "c" };
    let fa = unsafe { f(&recv_a, "x", "x") };
    crate::assert_output::<&str, _>(&fa);
    let fb = unsafe { <crate::Conc as T>::f(&recv_b, "x", "x") };
    crate::assert_output::<&str, _>(&fb);
}
