#[allow(unused_imports)] use crate::HasName as _;

#[::entrait::entrait(pub T)]
fn f<'a, D: Sync, U1>(deps: D, p1: U1, p2: &'a str) -> U1 where U1: ::core::fmt::Debug + Send + 'static { p1 }

pub fn witness1<'a>() {
    let _a: fn(::entrait::Impl<crate::App>, u8, &'a str) -> u8 = f;
    let _b: fn(::entrait::Impl<crate::App>, u8, &'a str) -> u8 = <::entrait::Impl<crate::App> as T<u8>>::f;
}
