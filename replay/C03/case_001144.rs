#[allow(unused_imports)] use crate::HasName as _;

#[::entrait::entrait(pub T)]
async fn f<'a, 'b: 'a, D: Sync>(deps: &D, p1: &'a str, p2: &'b str) -> &'a str { p1 }

pub fn witness1() {
    let recv_a = ::entrait::Impl::new(crate::App);
    let recv_b = ::entrait::Impl::new(crate::App);
    let fa = f(&recv_a, "x", "x");
    crate::assert_output::<&str, _>(&fa);
    let fb = <::entrait::Impl<crate::App> as T>::f(&recv_b, "x", "x");
    crate::assert_output::<&str, _>(&fb);
}
