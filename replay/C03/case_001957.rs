#[allow(unused_imports)] use crate::HasName as _;

#[::entrait::entrait(pub T)]
pub mod m {
    pub extern "C" fn f1<'a, 'b: 'a, D: Sync>(deps: D, p1: &'a str, p2: &'b str) -> &'a str { p1 }
}

pub fn witness1<'a, 'b: 'a>() {
    let _a: extern "C" fn(::entrait::Impl<crate::App>, &'a str, &'b str) -> &'a str = m::f1;
    let _b: extern "C" fn(::entrait::Impl<crate::App>, &'a str, &'b str) -> &'a str = <::entrait::Impl<crate::App> as T>::f1;
}
