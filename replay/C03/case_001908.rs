#[allow(unused_imports)] use crate::HasName as _;

#[::entrait::entrait(pub T)]
pub mod m {
    pub async fn f1<'a, 'b: 'a, D: crate::HasName + Sync>(deps: &'a D, p1: &'a str, p2: &'b str) -> &'a str { deps.name() }
}

pub fn witness1() {
    let recv_a = ::entrait::Impl::new(crate::App);
    let recv_b = ::entrait::Impl::new(crate::App);
    let fa = m::f1(&recv_a, "x", "x");
    crate::assert_output::<&str, _>(&fa);
    let fb = <::entrait::Impl<crate::App> as T>::f1(&recv_b, "x", "x");
    crate::assert_output::<&str, _>(&fb);
}
