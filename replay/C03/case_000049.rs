#[allow(unused_imports)] use crate::HasName as _;

#[::entrait::entrait(pub T)]
async fn f<'a, D: Sync, U1, const N: usize>(deps: &'a D, p1: U1, p2: [u8; N]) -> U1 where U1: ::core::fmt::Debug + Send + 'static { p1 }

pub fn witness1() {
    let recv_a = ::entrait::Impl::new(crate::App);
    let recv_b = ::entrait::Impl::new(crate::App);
    let fa = f(&recv_a, 1u8, [0u8; 3]);
    crate::assert_output::<u8, _>(&fa);
    let fb = <::entrait::Impl<crate::App> as T<u8, 3>>::f(&recv_b, 1u8, [0u8; 3]);
    crate::assert_output::<u8, _>(&fb);
}
