#[allow(unused_imports)] use crate::HasName as _;

#[::entrait::entrait(pub T)]
async unsafe fn f<D: Sync, U2>(deps: D, p1: String, p2: U2) -> String where U2: ::core::fmt::Debug + Send + 'static { String::new() }

pub fn witness1() {
    let recv_a = ::entrait::Impl::new(crate::App);
    let recv_b = ::entrait::Impl::new(crate::App);
    let fa = unsafe { f(recv_a, String::new(), 1u8) };
    crate::assert_output::<String, _>(&fa);
    let fb = unsafe { <::entrait::Impl<crate::App> as T<u8>>::f(recv_b, String::new(), 1u8) };
    crate::assert_output::<String, _>(&fb);
}
