#[allow(unused_imports)] use crate::HasName as _;

#[::entrait::entrait(pub T)]
pub mod m {
    pub fn f1<'a, 'b: 'a>(deps: &'a (impl crate::HasName + Sync), p1: &'a str, p2: &'b str) -> &'a str { deps.name() }
    pub fn f2<D: Sync, U1: ::core::fmt::Debug + Send + 'static>(deps: &D, p1: U1) {  }
}

pub fn witness1<'a, 'b: 'a>() {
    let _a: fn(&'a ::entrait::Impl<crate::App>, &'a str, &'b str) -> &'a str = m::f1;
    let _b: fn(&'a ::entrait::Impl<crate::App>, &'a str, &'b str) -> &'a str = <::entrait::Impl<crate::App> as T<u8>>::f1;
}

pub fn witness2() {
    let _a: fn(&::entrait::Impl<crate::App>, u8) = m::f2;
    let _b: fn(&::entrait::Impl<crate::App>, u8) = <::entrait::Impl<crate::App> as T<u8>>::f2;
}
