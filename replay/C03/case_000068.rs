#[allow(unused_imports)] use crate::HasName as _;

#[::entrait::entrait(pub T)]
extern "C" fn f<D: Sync, U1>(deps: D, p1: U1, p2: &str) -> String where U1: ::core::fmt::Debug + Send + 'static { String::new() }

pub fn witness1() {
    let _a: extern "C" fn(::entrait::Impl<crate::App>, u8, &str) -> String = f;
    let _b: extern "C" fn(::entrait::Impl<crate::App>, u8, &str) -> String = <::entrait::Impl<crate::App> as T<u8>>::f;
}
