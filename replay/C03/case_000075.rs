#[allow(unused_imports)] use crate::HasName as _;

#[::entrait::entrait(pub T)]
fn f<D: Sync, U2, const N: usize>(deps: D, p1: [u8; N], p2: U2) -> String where U2: ::core::fmt::Debug + Send + 'static { String::new() }

pub fn witness1() {
    let _a: fn(::entrait::Impl<crate::App>, [u8; 3], u8) -> String = f;
    let _b: fn(::entrait::Impl<crate::App>, [u8; 3], u8) -> String = <::entrait::Impl<crate::App> as T<u8, 3>>::f;
}
