#[allow(unused_imports)] use crate::HasName as _;

#[::entrait::entrait(pub T)]
fn f<'a, 'b: 'a>(deps: &crate::Conc, p1: &'a str, p2: &'b str) -> &'a str { p1 }

pub fn witness1<'a, 'b: 'a>() {
    let _a: fn(&crate::Conc, &'a str, &'b str) -> &'a str = f;
    let _b: fn(&crate::Conc, &'a str, &'b str) -> &'a str = <crate::Conc as T>::f;
}
