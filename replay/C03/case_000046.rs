#[allow(unused_imports)] use crate::HasName as _;

#[::entrait::entrait(pub T)]
unsafe fn f<'a, D: Sync, U1, U2>(deps: &'a D, p1: U1, p2: U2) -> U1 where U1: ::core::fmt::Debug + Send + 'static, U2: ::core::fmt::Debug + Send + 'static { p1 }

pub fn witness1<'a>() {
    let _a: unsafe fn(&'a ::entrait::Impl<crate::App>, u8, u8) -> u8 = f;
    let _b: unsafe fn(&'a ::entrait::Impl<crate::App>, u8, u8) -> u8 = <::entrait::Impl<crate::App> as T<u8, u8>>::f;
}
