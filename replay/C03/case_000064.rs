#[allow(unused_imports)] use crate::HasName as _;

#[::entrait::entrait(pub T)]
extern "C" fn f<D: Sync, U1, U2>(deps: D, p1: U1, p2: U2) -> String where U1: ::core::fmt::Debug + Send + 'static, U2: ::core::fmt::Debug + Send + 'static { String::new() }

pub fn witness1() {
    let _a: extern "C" fn(::entrait::Impl<crate::App>, u8, u8) -> String = f;
    let _b: extern "C" fn(::entrait::Impl<crate::App>, u8, u8) -> String = <::entrait::Impl<crate::App> as T<u8, u8>>::f;
}
