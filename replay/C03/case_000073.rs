#[allow(unused_imports)] use crate::HasName as _;

#[::entrait::entrait(pub T)]
extern "C" fn f<D: Sync, U2>(deps: D, p1: String, p2: U2) -> String where U2: ::core::fmt::Debug + Send + 'static { String::new() }

pub fn witness1() {
    let _a: extern "C" fn(::entrait::Impl<crate::App>, String, u8) -> String = f;
    let _b: extern "C" fn(::entrait::Impl<crate::App>, String, u8) -> String = <::entrait::Impl<crate::App> as T<u8>>::f;
}
