#[allow(unused_imports)] use crate::HasName as _;

#[::entrait::entrait(pub T)]
extern "C" fn f<D: Sync, U1>(deps: &D, p1: U1) -> U1 where U1: ::core::fmt::Debug + Send + 'static { p1 }

pub fn witness1() {
    let _a: extern "C" fn(&::entrait::Impl<crate::App>, u8) -> u8 = f;
    let _b: extern "C" fn(&::entrait::Impl<crate::App>, u8) -> u8 = <::entrait::Impl<crate::App> as T<u8>>::f;
}
