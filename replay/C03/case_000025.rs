#[allow(unused_imports)] use crate::HasName as _;

#[::entrait::entrait(pub T)]
unsafe fn f<D: Sync, U1>(deps: &D, p1: U1, p2: String) -> U1 where U1: ::core::fmt::Debug + Send + 'static { p1 }

pub fn witness1() {
    let _a: unsafe fn(&::entrait::Impl<crate::App>, u8, String) -> u8 = f;
    let _b: unsafe fn(&::entrait::Impl<crate::App>, u8, String) -> u8 = <::entrait::Impl<crate::App> as T<u8>>::f;
}
