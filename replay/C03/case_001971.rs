#[allow(unused_imports)] use crate::HasName as _;

#[::entrait::entrait(pub T, no_deps)]
pub mod m {
    pub async fn f1<'a, 'b: 'a>(p1: &'a str, p2: &'b str) -> &'a str { p1 }
}

pub fn witness1() {
    let recv_a = ::entrait::Impl::new(crate::App);
    let recv_b = ::entrait::Impl::new(crate::App);
    let fa = m::f1("x", "x");
    crate::assert_output::<&str, _>(&fa);
    let fb = <::entrait::Impl<crate::App> as T>::f1(&recv_b, "x", "x");
    crate::assert_output::<&str, _>(&fb);
}
