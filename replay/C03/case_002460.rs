#[allow(unused_imports)] use crate::HasName as _;

#[::entrait::entrait(TI, delegate_by = Del)]
pub trait Tr { async fn f<'a, 'b: 'a>(&self, p1: &'a str, p2: &'b str); }

pub struct X;
#[::entrait::entrait]
impl TI for X {
    pub async fn f<'a, 'b: 'a>(deps: &(impl crate::HasName + Sync), p1: &'a str, p2: &'b str) {  }
}

impl Del<Self> for crate::App { type Target = X; }

pub fn witness1() {
    let recv_a = ::entrait::Impl::new(crate::App);
    let recv_b = ::entrait::Impl::new(crate::App);
    let fa = X::f(&recv_a, "x", "x");
    crate::assert_output::<(), _>(&fa);
    let fb = <::entrait::Impl<crate::App> as Tr>::f(&recv_b, "x", "x");
    crate::assert_output::<(), _>(&fb);
}
