#[allow(unused_imports)] use crate::HasName as _;

#[::entrait::entrait(TI, delegate_by = Del)]
pub trait Tr { fn f<'a, 'b: 'a>(&'a self, p1: &'a str, p2: &'b str) -> String; }

pub struct X;
#[::entrait::entrait]
impl TI for X {
    pub fn f<'a, 'b: 'a, D: Sync>(deps: &'a D, p1: &'a str, p2: &'b str) -> String { String::new() }
}

impl Del<Self> for crate::App { type Target = X; }

pub fn witness1<'a, 'b: 'a>() {
    let _a: fn(&'a ::entrait::Impl<crate::App>, &'a str, &'b str) -> String = X::f;
    let _b: fn(&'a ::entrait::Impl<crate::App>, &'a str, &'b str) -> String = <::entrait::Impl<crate::App> as Tr>::f;
}
