use crate::nothing;
#[::entrait::entrait(dyn)]
/// a doc comment with `code` and "quotes"
#[cfg_attr(all(), inline)]
#[async_trait::async_trait]
impl TI345 for crate::cases::Y {
    nothing!( [ && ] != .. );
    #[must_use]
pub fn f1<D>(deps: &D, (x, y): (u8, u8), a: u8, r#type: u8) -> Result<(), ()> { nothing!( => await ... [ . % => x > ] ( | { r#"raw "quoted" string"# crate fn } '\'' == [  ] ) x "str\n" ); nothing![ > y1 move __impl trait 1.0e-3f32 await 'a .. ]; nothing![ loop b'y' self [ { "str\n" } unsafe ] [ r#"raw "quoted" string"# y1 ] [ % 1.0e-3f32 crate super ] r#match ]; }
}
