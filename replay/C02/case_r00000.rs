use crate::nothing;
#[::entrait::entrait(T0, export)]
/// a doc comment with `code` and "quotes"
#[rustfmt::skip]
#[cold]
unsafe extern "C" fn f0<D: Sync>(deps: &D, #[allow(unused)] c: char, arr: [u8; 3], f: impl Fn() -> u8) -> u32 { let x = 1u8; let r#type = 5; unsafe { } if true { } else { } }
