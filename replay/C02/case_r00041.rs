use crate::nothing;
#[::entrait::entrait(pub T41)]
/** block doc */
#[allow(clippy::needless_lifetimes)]
pub(crate) const unsafe fn f41<D: Sync>(deps: &D, r#type: u8, a: u8) -> u32 {  }
