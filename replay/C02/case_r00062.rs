use crate::nothing;
#[::entrait::entrait(T62)]
#[allow(clippy::needless_lifetimes)]
#[allow(unused, dead_code)]
#[inline]
pub(super) const unsafe fn f62(deps: &impl Sized) -> ! { nothing! { move async <- ... b"by\"tes" } let _r = &&1; if true { } else { } }
