use crate::nothing;
#[::entrait::entrait(T51, mock_api=Mk)]
#[deny(unsafe_code)]
#[cfg(all())]
pub(crate) const unsafe extern "C" fn f51<D: Sync>(deps: &D, (x, y): (u8, u8), z: ::core::option::Option<u8>) -> u32 { let _cl = move || { }; let _cl = move || { }; let _v = [0u8; 4]; #[allow(unused)] let q = (); }
