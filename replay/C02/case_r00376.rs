use crate::nothing;
#[::entrait::entrait(pub T376)]
#[track_caller]
pub(in crate::cases) unsafe extern "C" fn f376<D>(deps: &D) -> Option<Vec<u8>> { nothing! { > br"bytes" 0xFFu8 } let _s = r#"raw"#; }
