use crate::nothing;
#[::entrait::entrait(pub(crate) T187, mockall=false)]
/// a doc comment with `code` and "quotes"
async unsafe fn f187<D>(deps: &D) -> &'static str { let _r = &&1; loop { break; } nothing!( = async ( { mod impl where += ( br"bytes" ; || trait super ) :: } ) mod * r#type ); }
