use crate::nothing;
#[::entrait::entrait(pub(crate) T357, no_deps)]
#[inline]
#[deny(unsafe_code)]
#[cfg(all())]
pub(self) unsafe fn f357(r#type: u8) -> Result<(), ()> {  }
