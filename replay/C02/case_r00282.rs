use crate::nothing;
#[::entrait::entrait(T282, unimock=false)]
/** block doc */
#[doc(hidden)]
#[deny(unsafe_code)]
pub(super) const unsafe fn f282<'a, D>(deps: &'a D, r#type: u8, (x, y): (u8, u8)) where D: Sized {  }
