use crate::nothing;
#[::entrait::entrait(pub T274, export)]
#[allow(clippy::needless_lifetimes)]
#[allow(unused, dead_code)]
#[deny(unsafe_code)]
const unsafe extern "C" fn f274<D: Sync>(deps: &D, r#type: u8, b: &str) {  }
