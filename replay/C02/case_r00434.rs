use crate::nothing;
#[::entrait::entrait(dyn)]
impl TI434 for Gen<u8> {
    nothing![ . % ];
    #[allow(clippy::needless_lifetimes)]
#[track_caller]
unsafe fn f1(deps: &impl Sized) {  }
    #[doc(hidden)]
#[track_caller]
#[must_use]
pub async fn f2<D: Sync>(deps: &D) -> u32 { 'outer: for _ in 0..=3 { continue 'outer; } let _ = async { 1 }; }
    #[doc = "explicit doc"]
#[rustfmt::skip]
/// a doc comment with `code` and "quotes"
async fn f3<D: Sync>(deps: &D, arr: [u8; 3], a: u8) { nothing! { impl loop -> }; nothing!(  ); ; }
}
