use crate::nothing;
#[::entrait::entrait(T280, ?Send)]
pub(super) const unsafe fn f280<D: Sync>(deps: &D, b: &str) -> &'static str { unimplemented!("x {}", 1) if true { } else { } }
