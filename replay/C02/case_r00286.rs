use crate::nothing;
#[::entrait::entrait(pub T286, unimock=false)]
pub(crate) const unsafe extern "C" fn f286(deps: &impl Sized, s: &'static [u8], f: impl Fn() -> u8, a: u8) -> ! {  }
