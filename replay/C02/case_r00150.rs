use crate::nothing;
#[::entrait::entrait(pub T150, mockall=false)]
pub(in crate::cases) unsafe fn f150<D>(deps: &D, _: i32, mut m: u32, s: &'static [u8]) -> u32 { nothing![ - 'label r#type [ crate ..= 'a 'static 0b1010 ] _ 0b1010 - <<= ]; #[allow(unused)] let q = (); unimplemented!("x {}", 1) }
