use crate::nothing;
#[::entrait::entrait(pub T55)]
#[deny(unsafe_code)]
#[allow(unused, dead_code)]
async unsafe fn f55<'a, D>(deps: &'a D, r#type: u8, _: i32, mut m: u32) -> Result<(), ()> where D: Sized { nothing![ [ || y1 # ^= ] { (  ) } EntraitT impl <<= ]; }
