use crate::nothing;
#[::entrait::entrait(pub(crate) T103, export)]
#[inline]
pub(self) unsafe fn f103<'a, D>(deps: &'a D, f: impl Fn() -> u8, a: u8, (x, y): (u8, u8)) -> ! where D: Sized { nothing![ ? $ '\'' Self 'label loop where [ [ 'x' ( 3.14 ) ] where ... { $ [ Zed impl ? 1_000i64 b"by\"tes" ] <- } ] ]; unimplemented!("x {}", 1) nothing!( ( (  ) crate unsafe crate EntraitT ) impl / => # |= = "str\n" ); }
