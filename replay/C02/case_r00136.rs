use crate::nothing;
#[::entrait::entrait(pub T136, mockall=false)]
#[must_use]
#[cfg(all())]
/// a doc comment with `code` and "quotes"
async unsafe fn f136<D>(deps: &D, _: i32, o: Option<&mut u8>, (x, y): (u8, u8)) -> &D { return Default::default(); let _t = (1, 2.0, 'c', b'b', b"bs"); fn nested() -> u8 { 0 } let _ = 1..2; }
