use crate::nothing;
#[::entrait::entrait(pub(crate) T29)]
#[rustfmt::skip]
#[cfg_attr(all(), inline)]
pub(self) unsafe fn f29<D: Sync>(deps: &D) -> impl core::fmt::Debug {  }
