use crate::nothing;
#[::entrait::entrait(dyn)]
#[allow(clippy::needless_lifetimes)]
#[track_caller]
#[inline]
#[async_trait::async_trait]
impl self::TI91 for crate::cases::Y {
    const C91_0: u8 = { 1 };
    #[cold]
pub unsafe fn f1<D: Sync>(deps: &D, b: &str, arr: [u8; 3]) { nothing!( ( ^= | ) %= ( => mod { #[attr] => mut { || , 'a b'y' r#type } ... br"bytes" } [ ref .. unsafe mod EntraitT ] r#type ( ? (  ) __impl { ref } . ) ) == / != fn ); nothing![ fn ^ 0b1010 trait <<= 'label && ? ]; nothing!( 0xFFu8 { async _ } ; || mod ? 'static ); }
}
