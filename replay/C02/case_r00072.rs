use crate::nothing;
#[::entrait::entrait(pub(crate) T72, mockall=false)]
#[rustfmt::skip]
#[cfg_attr(all(), inline)]
pub(super) const unsafe extern "C" fn f72<D: Sync>(deps: &D, f: impl Fn() -> u8, r#type: u8) -> Result<(), ()> { return Default::default(); nothing! { && ; mod [ Zed < += ~ ] [ { fn ( x ! 'x' ) |= [  ] } impl /// doc inside
 Self <<= ] mut y1 $crate /// doc inside
 } todo!() }
