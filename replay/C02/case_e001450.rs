pub trait TI<T>: 'static {
    fn f2(__impl: &::entrait::Impl<T>) -> u32;
}
pub struct X;
#[::entrait::entrait]
impl TI for X {
    const P1: fn() -> u32 = crate::forty_two;
    pub fn f2<D>(d: &D) -> u32 { 2 }
}
