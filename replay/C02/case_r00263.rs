use crate::nothing;
#[::entrait::entrait()]
#[::async_trait::async_trait]
impl crate::cases::TJ for X263 {
    const P263_0: fn() = || ();
    #[deny(unsafe_code)]
/** block doc */
#[cfg(all())]
pub unsafe fn f1(deps: &impl Sized, b: &str) -> Result<(), ()> { #[allow(unused)] let q = (); let _cl = move || { }; nothing! { EntraitT __impl EntraitT fn } let _cl = move || { }; }
}
