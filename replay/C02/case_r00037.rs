use crate::nothing;
#[::entrait::entrait(pub T37, mock_api=Mk)]
/// a doc comment with `code` and "quotes"
#[deny(unsafe_code)]
#[inline]
pub const unsafe fn f37<'a, D>(deps: &'a D) where D: Sized { let _s = r#"raw"#; }
