use crate::nothing;
#[::entrait::entrait(T273, export)]
/// a doc comment with `code` and "quotes"
#[doc(hidden)]
#[cfg(all())]
pub unsafe fn f273<D>(deps: &D, (x, y): (u8, u8)) -> ! { nothing![ % ! <- ]; let _ = 1 << 2 >> 1; }
