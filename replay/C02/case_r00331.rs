use crate::nothing;
#[::entrait::entrait(T331, mock_api=Mk)]
#[track_caller]
#[inline]
pub(super) unsafe fn f331<D>(deps: &D, a: u8, o: Option<&mut u8>) -> Result<(), ()> { struct Inner; impl Inner { pub fn f(&self) {} } nothing!( <<= ); }
