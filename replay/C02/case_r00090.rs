use crate::nothing;
#[::entrait::entrait(pub(crate) T90)]
#[must_use]
/// a doc comment with `code` and "quotes"
unsafe extern "C" fn f90<D: Sync>(deps: &D, mut m: u32, (x, y): (u8, u8), z: ::core::option::Option<u8>) -> Option<Vec<u8>> {  }
