use crate::nothing;
#[::entrait::entrait(T373, export)]
pub(super) unsafe fn f373<'a, D>(deps: &'a D, _: i32, mut m: u32) -> &D where D: Sized { return Default::default(); ; let _r = &&1; }
