use crate::nothing;
#[::entrait::entrait(ref)]
#[allow(clippy::needless_lifetimes)]
/// a doc comment with `code` and "quotes"
#[allow(unused, dead_code)]
impl TI371 for X371 {
    pub async fn f0<'a, D>(deps: &'a D, r#type: u8, o: Option<&mut u8>) -> &'static str where D: Sized {  }
    fn f1(deps: &impl Sized, r#type: u8, f: impl Fn() -> u8, #[allow(unused)] c: char) -> &'static str { unsafe { } nothing!( b"by\"tes" != 'label - != {  } ); let r#type = 5; }
}
