use crate::nothing;
#[::entrait::entrait(T221, mockall=false)]
#[cold]
#[doc = "explicit doc"]
#[cfg_attr(all(), inline)]
pub(crate) unsafe fn f221(deps: &impl Sized, r#type: u8) { let r#type = 5; match 1 { 0..=5 => {}, _ => {} } unsafe { } match 1 { 0..=5 => {}, _ => {} } }
