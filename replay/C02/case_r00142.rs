use crate::nothing;
#[::entrait::entrait(pub T142, unimock=false)]
pub(self) async unsafe fn f142<D: Sync>(deps: &D) -> Option<Vec<u8>> { match 1 { 0..=5 => {}, _ => {} } nothing! { += 0b1010 { ( & $ { 3.14 } ..= ! += ) async * _ ^= } > ^ : & [ ..= & b"by\"tes" ^ ] }; match 1 { 0..=5 => {}, _ => {} } }
