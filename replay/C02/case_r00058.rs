use crate::nothing;
#[::entrait::entrait(pub T58, mockall=false)]
#[inline]
/** block doc */
pub(in crate::cases) unsafe extern "C" fn f58(deps: &impl Sized, z: ::core::option::Option<u8>, mut m: u32) -> Option<Vec<u8>> { nothing![ ^ [ ? - ] ]; nothing!( : impl ref != ^ ; "str\n" / fn ); struct Inner; impl Inner { pub fn f(&self) {} } }
