use crate::nothing;
#[::entrait::entrait(pub T292, mockall=false)]
#[allow(unused, dead_code)]
pub(self) async unsafe fn f292<D: Sync>(deps: &D, z: ::core::option::Option<u8>, _: i32) -> &'static str { nothing![ <<= < r#type self r#type += { => [ self ? for b'y' ] } ]; let _y = "str"; }
