use crate::nothing;
#[::entrait::entrait(pub(crate) T87, ?Send)]
#[allow(clippy::needless_lifetimes)]
#[doc(hidden)]
pub unsafe extern "C" fn f87<D: Sync>(deps: &D, (x, y): (u8, u8)) -> impl core::fmt::Debug { let _r = &&1; let _ = async { 1 }; }
