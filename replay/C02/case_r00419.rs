use crate::nothing;
#[::entrait::entrait()]
#[rustfmt::skip]
#[doc(hidden)]
#[::async_trait::async_trait]
impl self::TI419 for X419 {
    unsafe fn f0<'a, D>(deps: &'a D, a: u8) -> Result<(), ()> where D: Sized { let x = 1u8; if true { } else { } }
    const P419_1: fn() = || ();
    #[allow(clippy::needless_lifetimes)]
#[doc(hidden)]
pub async fn f2<'a, D>(deps: &'a D) -> Result<(), ()> where D: Sized { nothing![ where ... pub br"bytes" ]; todo!() match 1 { 0..=5 => {}, _ => {} } nothing!( { { /** block doc */ await dyn { _ <<= 7usize move } } 'a 'label } ); }
    #[cold]
unsafe fn f3(deps: &impl Sized, arr: [u8; 3], b: &str) -> impl core::fmt::Debug { let _y = "str"; }
}
