use crate::nothing;
#[::entrait::entrait(T169, unimock=false)]
#[must_use]
#[cfg(all())]
pub unsafe extern "C" fn f169<D>(deps: &D) -> impl core::fmt::Debug { nothing!( async .. 3.14 & __impl /// doc inside
 & br"bytes" = ); }
