use crate::nothing;
#[::entrait::entrait(pub(crate) T5)]
#[deny(unsafe_code)]
#[cfg(all())]
unsafe fn f5<D: Sync>(deps: &D, (x, y): (u8, u8)) -> (u8, [u16; 2]) { nothing! { ( ! { ( ... pub : ) await { r#type } Self 'a r#match } ( . 7usize '\'' : 'a $x:tt ) 'label await & ) Self # <- '\'' }; let _s = r#"raw"#; }
