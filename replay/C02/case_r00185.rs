use crate::nothing;
#[::entrait::entrait(pub T185, mock_api=Mk)]
pub(super) unsafe extern "C" fn f185<D>(deps: &D, z: ::core::option::Option<u8>, (x, y): (u8, u8)) {  }
