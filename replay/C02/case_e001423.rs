pub trait TI<T>: 'static {
    fn f1(__impl: &::entrait::Impl<T>) -> u32;
    async fn f2(__impl: &::entrait::Impl<T>) -> u32;
}
pub struct X;
#[::entrait::entrait]
impl TI for X {
    pub fn f1<D>(d: &D) -> u32 { 1 }
    async fn f2<D>(d: &D) -> u32 { 2 }
}
