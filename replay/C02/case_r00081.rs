use crate::nothing;
#[::entrait::entrait(pub(crate) T81, mock_api=Mk)]
#[cfg(all())]
#[cold]
pub(super) async unsafe fn f81(deps: &impl Sized, b: &str, f: impl Fn() -> u8, (x, y): (u8, u8)) -> impl core::fmt::Debug {  }
