use crate::nothing;
#[::entrait::entrait(pub T181, export)]
#[track_caller]
#[deny(unsafe_code)]
pub(super) async unsafe fn f181(deps: &impl Sized, (x, y): (u8, u8)) -> Option<Vec<u8>> { let _y = "str"; nothing![ != ]; }
