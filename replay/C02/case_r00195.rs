use crate::nothing;
#[::entrait::entrait(pub T195, mockall=false)]
#[inline]
#[cold]
#[track_caller]
unsafe fn f195<D: Sync>(deps: &D, arr: [u8; 3], o: Option<&mut u8>) -> Result<(), ()> { let _ = async { 1 }; let _t = (1, 2.0, 'c', b'b', b"bs"); ; unimplemented!("x {}", 1) }
