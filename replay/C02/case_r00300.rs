use crate::nothing;
#[::entrait::entrait(pub T300, mock_api=Mk)]
#[cfg_attr(all(), inline)]
#[track_caller]
/** block doc */
unsafe fn f300<D>(deps: &D, z: ::core::option::Option<u8>, r#type: u8) -> u32 { nothing!( >>= ); }
