use crate::nothing;
#[::entrait::entrait(pub(crate) T301, unimock=false)]
#[must_use]
#[inline]
#[rustfmt::skip]
pub(super) unsafe fn f301(deps: &impl Sized, z: ::core::option::Option<u8>) -> u32 { nothing![ & r#"raw "quoted" string"# ]; nothing![ ..= ]; nothing![ y1 '\'' % mut @ * %= /// doc inside
 ]; }
