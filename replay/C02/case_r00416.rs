use crate::nothing;
#[::entrait::entrait(dyn)]
#[::async_trait::async_trait]
impl TI416 for &'static str {
    #[doc(hidden)]
async fn f0<D: Sync>(deps: &D, arr: [u8; 3]) -> Option<Vec<u8>> { nothing!( move '\'' ( async . ) br"bytes" ..= b"by\"tes" await ); }
    #[allow(clippy::needless_lifetimes)]
pub unsafe fn f1<D>(deps: &D) -> &'static str { nothing! { crate [ 'a = ] <<= > $x:tt [  ] } nothing![ ? unsafe ~ crate { |= impl mut & } '\'' await -= & ]; let _cl = move || { }; nothing!( await "str\n" ! 'a ); }
}
