use crate::nothing;
#[::entrait::entrait()]
#[::async_trait::async_trait]
impl TI176 for &'static str {
    pub fn f0<D>(deps: &D) -> ! { let _v = [0u8; 4]; #[allow(unused)] let q = (); nothing![ # ( await :: ) => { 3.14 r#type [ 'label ( > fn ) ] await . } ]; let _v = [0u8; 4]; }
    pub async fn f1<D>(deps: &D, arr: [u8; 3], o: Option<&mut u8>) -> ! { nothing! {  }; }
    const P176_2: fn() = || ();
}
