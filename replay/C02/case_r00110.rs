use crate::nothing;
#[::entrait::entrait(pub(crate) T110)]
#[deny(unsafe_code)]
#[track_caller]
pub(crate) unsafe fn f110(deps: &impl Sized, _: i32, #[allow(unused)] c: char) -> Result<(), ()> {  }
