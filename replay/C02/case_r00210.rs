use crate::nothing;
#[::entrait::entrait(pub(crate) T210, ?Send)]
pub const unsafe fn f210(deps: &impl Sized, b: &str) -> ! { let _ = 1 << 2 >> 1; }
