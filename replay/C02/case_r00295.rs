use crate::nothing;
#[::entrait::entrait(T295, unimock=false)]
#[must_use]
pub(in crate::cases) unsafe extern "C" fn f295(deps: &impl Sized, o: Option<&mut u8>, #[allow(unused)] c: char) -> Option<Vec<u8>> { let _cl = move || { }; let _t = (1, 2.0, 'c', b'b', b"bs"); let x = 1u8; }
