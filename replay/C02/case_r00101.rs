use crate::nothing;
#[::entrait::entrait(pub T101, no_deps)]
#[cold]
#[deny(unsafe_code)]
#[cfg_attr(all(), inline)]
pub(in crate::cases) async unsafe fn f101(r#type: u8, s: &'static [u8], b: &str) { ; struct Inner; impl Inner { pub fn f(&self) {} } }
