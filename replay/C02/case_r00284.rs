use crate::nothing;
#[::entrait::entrait(pub T284)]
pub unsafe fn f284<'a, D>(deps: &'a D, s: &'static [u8]) -> &'static str where D: Sized { let _ = 1..2; nothing!( .. ( impl : 0b1010 ^= 1_000i64 $x:tt ) crate += 1.0e-3f32 #[attr] ); nothing![  ]; let _r = &&1; }
