use crate::nothing;
#[::entrait::entrait(pub T132, unimock=false)]
#[must_use]
#[rustfmt::skip]
#[deny(unsafe_code)]
pub(super) async unsafe fn f132(deps: &impl Sized) { let r#type = 5; 'outer: for _ in 0..=3 { continue 'outer; } nothing![ b"by\"tes" "str\n" r#"raw "quoted" string"# y1 && <- ]; match 1 { 0..=5 => {}, _ => {} } }
