use crate::nothing;
#[::entrait::entrait(pub T256, no_deps)]
#[doc = "explicit doc"]
#[must_use]
/// a doc comment with `code` and "quotes"
pub(crate) unsafe fn f256(z: ::core::option::Option<u8>) -> u32 { nothing![ @ = super async 'x' # <<= ref ]; let r#type = 5; todo!() }
