use crate::nothing;
#[::entrait::entrait()]
#[rustfmt::skip]
#[cold]
#[::async_trait::async_trait]
unsafe impl TI192 for (u8, u16) {
    #[allow(unused, dead_code)]
#[doc = "explicit doc"]
pub unsafe fn f0(deps: &impl Sized, arr: [u8; 3], o: Option<&mut u8>, mut m: u32) {  }
    async fn f1<'a, D>(deps: &'a D) where D: Sized { nothing![ ( r#"raw "quoted" string"# %= super ! __impl b"by\"tes" ) Zed loop ]; match 1 { 0..=5 => {}, _ => {} } let _ = 1..2; }
    unsafe fn f2<D>(deps: &D, o: Option<&mut u8>, s: &'static [u8], r#type: u8) -> impl core::fmt::Debug { let _ = 1..2; loop { break; } }
    #[cfg_attr(all(), inline)]
fn f3<'a, D>(deps: &'a D, _: i32, b: &str) -> &'static str where D: Sized { nothing!( b'y' { ! r#match } ( ^ %= ) await + #![inner] 0xFFu8 x ); }
}
