use crate::nothing;
#[::entrait::entrait(ref)]
unsafe impl TI268 for [u8; 4] {
    #[allow(clippy::needless_lifetimes)]
/// a doc comment with `code` and "quotes"
pub fn f0<D>(deps: &D, b: &str, mut m: u32) -> impl core::fmt::Debug {  }
    #[deny(unsafe_code)]
fn f1(deps: &impl Sized) -> Result<(), ()> { ; 'outer: for _ in 0..=3 { continue 'outer; } let _ = async { 1 }; }
    #[track_caller]
unsafe fn f2<D: Sync>(deps: &D, b: &str) -> (u8, [u16; 2]) {  }
}
