use crate::nothing;
#[::entrait::entrait(T350, mockall=false)]
#[track_caller]
#[allow(unused, dead_code)]
#[inline]
pub(super) unsafe extern "C" fn f350<D>(deps: &D, f: impl Fn() -> u8, #[allow(unused)] c: char) -> Result<(), ()> { ; let _r = &&1; }
