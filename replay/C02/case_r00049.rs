use crate::nothing;
#[::entrait::entrait(pub T49, unimock=false)]
pub(self) const unsafe fn f49<D: Sync>(deps: &D, arr: [u8; 3], b: &str) -> &D { unimplemented!("x {}", 1) match 1 { 0..=5 => {}, _ => {} } }
