use crate::nothing;
#[::entrait::entrait(pub T333, no_deps)]
#[must_use]
/** block doc */
#[doc(hidden)]
pub(crate) unsafe extern "C" fn f333(f: impl Fn() -> u8, (x, y): (u8, u8), s: &'static [u8]) -> Result<(), ()> {  }
