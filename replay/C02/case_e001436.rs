pub trait TI<T>: 'static {
    fn f1(__impl: &::entrait::Impl<T>) -> u32;
    fn f2(__impl: &::entrait::Impl<T>) -> u32;
}
pub struct X;
#[::entrait::entrait]
impl TI for X {
    /// doc
    fn f1<D>(d: &D) -> u32 { 1 }
    pub fn f2<D>(d: &D) -> u32 { 2 }
}
