use crate::nothing;
#[::entrait::entrait(dyn)]
/** block doc */
#[track_caller]
#[doc(hidden)]
#[::async_trait::async_trait]
impl crate::cases::TJ for [u8; 4] {
    pub unsafe fn f0(deps: &impl Sized, a: u8, #[allow(unused)] c: char, _: i32) { let _r = &&1; nothing![ ( / r#type 1_000i64 ~ ) ; { unsafe != ( , mod ) - <<= } r#"raw "quoted" string"# => #[attr] where ; ]; nothing! { 3.14 'static ; ( , '\'' 'label '\'' ^= r#type ) } }
    #[doc(hidden)]
#[cold]
#[allow(clippy::needless_lifetimes)]
async fn f1<'a, D>(deps: &'a D, mut m: u32) -> &'static str where D: Sized { loop { break; } }
    #[allow(unused, dead_code)]
pub async fn f2<D>(deps: &D, z: ::core::option::Option<u8>, r#type: u8, o: Option<&mut u8>) -> Result<(), ()> { let _cl = move || { }; }
    #[cfg(all())]
#[allow(clippy::needless_lifetimes)]
async fn f3<D: Sync>(deps: &D, s: &'static [u8], a: u8, mut m: u32) { unimplemented!("x {}", 1) }
}
