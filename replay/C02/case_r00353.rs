use crate::nothing;
#[::entrait::entrait(pub(crate) T353, no_deps)]
#[doc(hidden)]
/// a doc comment with `code` and "quotes"
#[must_use]
unsafe extern "C" fn f353() -> &'static str { if true { } else { } }
