use crate::nothing;
#[::entrait::entrait(T236, mock_api=Mk)]
#[allow(unused, dead_code)]
/// a doc comment with `code` and "quotes"
pub(crate) unsafe extern "C" fn f236<D: Sync>(deps: &D, #[allow(unused)] c: char) -> &D { nothing![ # super ]; let _c = |a: u8| -> u8 { a + 1 }; nothing![ ( unsafe ) & ]; }
