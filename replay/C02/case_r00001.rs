use crate::nothing;
#[::entrait::entrait()]
#[doc(hidden)]
#[cfg_attr(all(), inline)]
#[doc = "explicit doc"]
#[async_trait::async_trait]
unsafe impl self::TI1 for &'static str {
    #[cold]
unsafe fn f0<D>(deps: &D, f: impl Fn() -> u8) -> ! { let _cl = move || { }; nothing![ Zed b"by\"tes" - ]; nothing![ Self [ @ loop /** block doc */ self ? ] @ b'y' mut >>= $crate 7usize ~ ( async 'x' crate . ) ]; }
    #[cfg(all())]
pub fn f1<D: Sync>(deps: &D, o: Option<&mut u8>) { nothing!( = r#type , r#"raw "quoted" string"# ~ $ <- 1.0e-3f32 ); return Default::default(); let _ = async { 1 }; struct Inner; impl Inner { pub fn f(&self) {} } }
    #[cfg(all())]
unsafe fn f2<D>(deps: &D, #[allow(unused)] c: char, r#type: u8) -> impl core::fmt::Debug { nothing! { |= } loop { break; } let _v = [0u8; 4]; nothing![ 'a && 0xFFu8 |= ]; }
    const P1_3: fn() = || ();
}
