use crate::nothing;
#[::entrait::entrait(ref)]
#[track_caller]
/** block doc */
#[inline]
unsafe impl self::TI219 for (u8, u16) {
    pub fn f0<'a, D>(deps: &'a D, _: i32) -> u32 where D: Sized { nothing![ => move 0xFFu8 => EntraitT pub 1.0e-3f32 { => } /// doc inside
 ]; 'outer: for _ in 0..=3 { continue 'outer; } }
    nothing!(  );
    fn f2(deps: &impl Sized, b: &str) -> (u8, [u16; 2]) {  }
    pub fn f3(deps: &impl Sized, mut m: u32, #[allow(unused)] c: char) -> (u8, [u16; 2]) { let _s = r#"raw"#; nothing! { Self where 'a } nothing![ br"bytes" [ [ 1_000i64 ( crate + "str\n" ) && y1 #[attr] ] $ ] #[attr] 1.0e-3f32 loop $x:tt ]; }
}
