use crate::nothing;
#[::entrait::entrait(pub T223, mockall=false)]
/// a doc comment with `code` and "quotes"
#[cold]
#[track_caller]
pub(in crate::cases) const unsafe extern "C" fn f223<D>(deps: &D, r#type: u8, b: &str, #[allow(unused)] c: char) -> ! { let _ = 1..2; let _t = (1, 2.0, 'c', b'b', b"bs"); nothing![ %= loop ! <<= | [ [ ^= ] super async $crate @ ] 'a < < ]; }
