use crate::nothing;
#[::entrait::entrait(ref)]
#[track_caller]
#[async_trait::async_trait]
unsafe impl self::TI19 for crate::cases::Y {
    nothing![ => %= __impl r#type : trait [  ] -> mut r#match ];
    pub fn f1<'a, D>(deps: &'a D, s: &'static [u8]) -> u32 where D: Sized { let _v = [0u8; 4]; ; nothing!( - . ref >>= ); let _r = &&1; }
}
