use crate::nothing;
#[::entrait::entrait(T226, mock_api=Mk)]
#[cfg(all())]
#[doc(hidden)]
pub(in crate::cases) unsafe fn f226<'a, D>(deps: &'a D, b: &str, (x, y): (u8, u8), #[allow(unused)] c: char) -> Result<(), ()> where D: Sized { nothing! {  } nothing!( impl $ ); nothing![ trait / 'static ]; nothing!( $ x r#type '\'' ~ / /** block doc */ > unsafe ); }
