use crate::nothing;
#[::entrait::entrait()]
#[rustfmt::skip]
#[doc = "explicit doc"]
#[async_trait::async_trait]
unsafe impl self::TI25 for &'static str {
    #[doc = "explicit doc"]
#[allow(clippy::needless_lifetimes)]
#[cfg_attr(all(), inline)]
unsafe fn f0(deps: &impl Sized, _: i32, z: ::core::option::Option<u8>) -> impl core::fmt::Debug { match 1 { 0..=5 => {}, _ => {} } ; nothing!( br"bytes" await ! { | trait Zed [ r#"raw "quoted" string"# super dyn & * ] } ); let _cl = move || { }; }
    const P25_1: fn() = || ();
    #[deny(unsafe_code)]
#[inline]
#[cfg(all())]
pub unsafe fn f2<D: Sync>(deps: &D, #[allow(unused)] c: char, mut m: u32) -> ! { nothing!(  ); }
    nothing!( self /** block doc */ (  ) move r#type );
}
