pub trait TI<T>: 'static {
    fn f2(__impl: &::entrait::Impl<T>) -> u32;
}
pub struct X;
#[::entrait::entrait]
impl TI for X {
    const C1: u8 = { 1 };
    pub fn f2<D>(d: &D) -> u32 { 2 }
}
