use crate::nothing;
#[::entrait::entrait(dyn)]
#[allow(clippy::needless_lifetimes)]
#[async_trait::async_trait]
unsafe impl TI406 for crate::cases::Y {
    type F406_0 = fn();
    #[doc = "explicit doc"]
pub fn f1<D: Sync>(deps: &D, (x, y): (u8, u8)) -> Option<Vec<u8>> { ; let x = 1u8; unsafe { } }
    const P406_2: fn() = || ();
    #[cold]
#[doc(hidden)]
#[rustfmt::skip]
pub unsafe fn f3<D: Sync>(deps: &D, mut m: u32, o: Option<&mut u8>, (x, y): (u8, u8)) -> Option<Vec<u8>> { let r#type = 5; let _ = 1 << 2 >> 1; }
}
