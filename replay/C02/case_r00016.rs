use crate::nothing;
#[::entrait::entrait(pub T16, export)]
#[track_caller]
/** block doc */
#[must_use]
pub(in crate::cases) unsafe extern "C" fn f16<'a, D>(deps: &'a D, o: Option<&mut u8>) -> Result<(), ()> where D: Sized { match 1 { 0..=5 => {}, _ => {} } nothing! { 'x' } nothing!( #![inner] { crate $crate } % 'static ); struct Inner; impl Inner { pub fn f(&self) {} } }
