use crate::nothing;
#[::entrait::entrait(ref)]
#[allow(unused, dead_code)]
#[cfg(all())]
/** block doc */
#[::async_trait::async_trait]
unsafe impl TI289 for crate::cases::Y {
    type F289_0 = fn();
    #[doc = "explicit doc"]
#[doc(hidden)]
#[must_use]
fn f1<D>(deps: &D) -> impl core::fmt::Debug { struct Inner; impl Inner { pub fn f(&self) {} } nothing! { ^ || : / @ / [ 'static ] => } return Default::default(); }
    pub unsafe fn f2<D>(deps: &D, f: impl Fn() -> u8, #[allow(unused)] c: char, r#type: u8) -> &D { nothing!( $x:tt { += 1_000i64 ^ , { , ^ await . 7usize $crate } } 0xFFu8 % { && | $crate += ..= _ } r#"raw "quoted" string"# ); let _cl = move || { }; nothing!( <<= EntraitT loop where 'a ); let _cl = move || { }; }
    #[inline]
async fn f3(deps: &impl Sized, #[allow(unused)] c: char, r#type: u8) -> impl core::fmt::Debug { #[allow(unused)] let q = (); }
}
