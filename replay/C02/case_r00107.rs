use crate::nothing;
#[::entrait::entrait(pub T107)]
unsafe extern "C" fn f107<D>(deps: &D, _: i32, b: &str) -> Option<Vec<u8>> { if true { } else { } }
