use crate::nothing;
#[::entrait::entrait(T309, no_deps)]
#[track_caller]
unsafe fn f309(r#type: u8) -> u32 { match 1 { 0..=5 => {}, _ => {} } nothing!( $x:tt %= mut async b'y' && r#match /** block doc */ { [ mod < < |= dyn ] . } ); }
