use crate::nothing;
#[::entrait::entrait(ref)]
#[deny(unsafe_code)]
#[allow(unused, dead_code)]
impl TI381 for Gen<u8> {
    nothing!( #![inner] ; );
    fn f1<D>(deps: &D, s: &'static [u8], _: i32) -> (u8, [u16; 2]) { nothing![ % ]; todo!() }
    #[doc = "explicit doc"]
pub fn f2<D>(deps: &D, o: Option<&mut u8>, f: impl Fn() -> u8, a: u8) -> &'static str { let _ = 1 << 2 >> 1; let _cl = move || { }; nothing![ 0xFFu8 |= pub ( b"by\"tes" ( _ -> 0xFFu8 /** block doc */ += ( /// doc inside
 ) ) pub => move ) $crate |= ]; }
}
