use crate::nothing;
#[::entrait::entrait(pub T246, export)]
#[cfg_attr(all(), inline)]
/** block doc */
#[doc(hidden)]
pub async unsafe fn f246(deps: &impl Sized, s: &'static [u8], f: impl Fn() -> u8, mut m: u32) -> impl core::fmt::Debug { let _s = r#"raw"#; nothing!( /// doc inside
 (  ) -= ^= $x:tt ); nothing![ '\'' <<= % mut 1.0e-3f32 == pub pub , ]; let x = 1u8; }
