use crate::nothing;
#[::entrait::entrait(pub T8)]
/** block doc */
#[doc(hidden)]
pub(self) unsafe fn f8<D: Sync>(deps: &D, (x, y): (u8, u8)) -> Option<Vec<u8>> { let _r = &&1; nothing![ {  } / * ]; match 1 { 0..=5 => {}, _ => {} } nothing![ "str\n" /** block doc */ 0xFFu8 y1 * x ]; }
