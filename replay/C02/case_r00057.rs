use crate::nothing;
#[::entrait::entrait(pub T57, export)]
#[deny(unsafe_code)]
#[doc(hidden)]
#[doc = "explicit doc"]
pub(super) unsafe extern "C" fn f57<D: Sync>(deps: &D, o: Option<&mut u8>, b: &str) -> &D { nothing! { .. == } 'outer: for _ in 0..=3 { continue 'outer; } nothing! { Zed } let r#type = 5; }
