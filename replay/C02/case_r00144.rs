use crate::nothing;
#[::entrait::entrait(ref)]
#[doc(hidden)]
#[cold]
impl self::TI144 for (u8, u16) {
    #[deny(unsafe_code)]
#[doc = "explicit doc"]
/// a doc comment with `code` and "quotes"
async fn f0<D: Sync>(deps: &D, b: &str) -> ! {  }
    #[cfg(all())]
#[track_caller]
/** block doc */
async fn f1(deps: &impl Sized, arr: [u8; 3]) -> Option<Vec<u8>> { nothing![ . 0b1010 3.14 != && Self += ]; let _ = 1 << 2 >> 1; nothing! { .. * }; match 1 { 0..=5 => {}, _ => {} } }
    #[must_use]
pub fn f2<'a, D>(deps: &'a D, (x, y): (u8, u8)) -> ! where D: Sized { nothing!( r#type > @ & 0xFFu8 .. r#type -> || ); let _v = [0u8; 4]; let _cl = move || { }; }
}
