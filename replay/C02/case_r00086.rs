use crate::nothing;
#[::entrait::entrait()]
#[track_caller]
#[doc = "explicit doc"]
#[cfg_attr(all(), inline)]
unsafe impl TI86 for X86 {
    #[cfg_attr(all(), inline)]
#[must_use]
#[doc = "explicit doc"]
pub unsafe fn f0<D>(deps: &D, (x, y): (u8, u8)) -> &D { let _t = (1, 2.0, 'c', b'b', b"bs"); let _c = |a: u8| -> u8 { a + 1 }; nothing!(  ); let _v = [0u8; 4]; }
    #[cfg(all())]
#[allow(unused, dead_code)]
#[deny(unsafe_code)]
pub async fn f1(deps: &impl Sized, s: &'static [u8], (x, y): (u8, u8)) -> impl core::fmt::Debug { nothing!( /** block doc */ ( != super 1.0e-3f32 > crate / ) br"bytes" ); }
    unsafe fn f2<D: Sync>(deps: &D) -> ! { let x = 1u8; #[allow(unused)] let q = (); nothing!( { move $ - #![inner] } #[attr] b'y' .. >>= ... ); }
    type F86_3 = fn();
}
