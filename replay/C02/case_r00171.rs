use crate::nothing;
#[::entrait::entrait(pub(crate) T171, ?Send)]
#[doc(hidden)]
pub(crate) const unsafe fn f171<D: Sync>(deps: &D) -> &D { let _y = "str"; let _cl = move || { }; let _ = 1..2; }
