use crate::nothing;
#[::entrait::entrait(T114, ?Send)]
pub async unsafe fn f114<D>(deps: &D, o: Option<&mut u8>) -> &D { nothing!( $ ... 7usize $x:tt :: ); unimplemented!("x {}", 1) nothing! { br"bytes" % %= [ ... %= ( "str\n" + [ /// doc inside
 pub /** block doc */ ] |= where ) ( / '\'' + [ <- ] ~ ) ^ ] unsafe _ mod await }; }
