use crate::nothing;
#[::entrait::entrait(pub T54)]
#[allow(clippy::needless_lifetimes)]
#[doc(hidden)]
const unsafe fn f54(deps: &impl Sized, o: Option<&mut u8>, s: &'static [u8], (x, y): (u8, u8)) -> u32 { let _s = r#"raw"#; return Default::default(); nothing!( 1_000i64 /// doc inside
 impl ( %= |= ) ! ); let _s = r#"raw"#; }
