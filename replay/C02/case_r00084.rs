use crate::nothing;
#[::entrait::entrait(pub T84, ?Send)]
#[deny(unsafe_code)]
#[must_use]
/** block doc */
pub(in crate::cases) async unsafe fn f84(deps: &impl Sized) { #[allow(unused)] let q = (); }
