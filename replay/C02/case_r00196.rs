use crate::nothing;
#[::entrait::entrait(ref)]
#[cfg(all())]
impl self::TI196 for Gen<u8> {
    #[deny(unsafe_code)]
#[rustfmt::skip]
fn f0<'a, D>(deps: &'a D, s: &'static [u8]) -> (u8, [u16; 2]) where D: Sized { nothing!( [ async ] /** block doc */ & 0b1010 # unsafe ^ == ... ); nothing!( <<= <<= || <- + || where 'x' ); }
    const C196_1: u8 = { 1 };
    unsafe fn f2<D>(deps: &D, (x, y): (u8, u8), o: Option<&mut u8>, b: &str) -> u32 { loop { break; } 'outer: for _ in 0..=3 { continue 'outer; } let _ = 1 << 2 >> 1; let r#type = 5; }
    pub async fn f3(deps: &impl Sized, #[allow(unused)] c: char, r#type: u8, z: ::core::option::Option<u8>) -> (u8, [u16; 2]) { nothing!( move fn ( b"by\"tes" ( 'static mut Self % ) ) ( += ( 0b1010 [ .. <<= ] __impl % |= ) ref br"bytes" ) (  ) dyn 'label ); let _ = 1..2; }
}
