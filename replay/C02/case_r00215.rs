use crate::nothing;
#[::entrait::entrait(T215, mock_api=Mk)]
pub(self) async unsafe fn f215<'a, D>(deps: &'a D, s: &'static [u8], #[allow(unused)] c: char) where D: Sized {  }
