use crate::nothing;
#[::entrait::entrait(T238)]
#[deny(unsafe_code)]
#[doc(hidden)]
#[allow(unused, dead_code)]
async unsafe fn f238(deps: &impl Sized, f: impl Fn() -> u8, r#type: u8, o: Option<&mut u8>) -> &'static str {  }
