use crate::nothing;
#[::entrait::entrait(T170)]
unsafe extern "C" fn f170<D>(deps: &D, (x, y): (u8, u8), arr: [u8; 3]) -> &D { todo!() 'outer: for _ in 0..=3 { continue 'outer; } nothing!( EntraitT + ( b'y' move ^ ) | ); let x = 1u8; }
