use crate::nothing;
#[::entrait::entrait(dyn)]
#[allow(unused, dead_code)]
/** block doc */
impl self::TI395 for (u8, u16) {
    #[cfg_attr(all(), inline)]
#[allow(unused, dead_code)]
#[cold]
async fn f0<D: Sync>(deps: &D, b: &str) -> impl core::fmt::Debug {  }
    pub unsafe fn f1<D>(deps: &D, (x, y): (u8, u8), b: &str) {  }
}
