use crate::nothing;
#[::entrait::entrait(pub(crate) T167, mockall=false)]
pub async unsafe fn f167<'a, D>(deps: &'a D, (x, y): (u8, u8)) -> &'static str where D: Sized { nothing![  ]; nothing!( ; "str\n" ); }
