pub trait TI<T>: 'static {
    fn f2(__impl: &::entrait::Impl<T>) -> u32;
}
pub struct X;
#[::entrait::entrait]
impl TI for X {
    type F1 = fn();
    pub fn f2<D>(d: &D) -> u32 { 2 }
}
