use crate::nothing;
#[::entrait::entrait(pub T123, unimock=false)]
#[doc = "explicit doc"]
pub(crate) async unsafe fn f123(deps: &impl Sized) -> u32 { nothing! { # mod / & } }
