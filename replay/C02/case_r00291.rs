use crate::nothing;
#[::entrait::entrait(pub(crate) T291, ?Send)]
#[doc(hidden)]
pub(super) const unsafe fn f291<'a, D>(deps: &'a D, b: &str, r#type: u8, f: impl Fn() -> u8) -> &'static str where D: Sized {  }
