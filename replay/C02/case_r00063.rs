use crate::nothing;
#[::entrait::entrait(pub(crate) T63)]
#[cold]
#[cfg_attr(all(), inline)]
#[deny(unsafe_code)]
async unsafe fn f63<D: Sync>(deps: &D, f: impl Fn() -> u8, (x, y): (u8, u8)) -> Option<Vec<u8>> {  }
