use crate::nothing;
#[::entrait::entrait(dyn)]
#[async_trait::async_trait]
impl TI267 for &'static str {
    unsafe fn f0<D: Sync>(deps: &D, (x, y): (u8, u8)) -> Result<(), ()> { let _ = 1..2; nothing!( unsafe 7usize mod _ |= { ! ~ } , #[attr] += ); let _s = r#"raw"#; nothing![ 1.0e-3f32 [ 'x' ] /** block doc */ .. > { async $x:tt } for . ]; }
    #[track_caller]
pub fn f1(deps: &impl Sized, r#type: u8) { nothing![ != ~ ! {  } 'label [ [ r#"raw "quoted" string"# br"bytes" dyn ref ] ? ] fn "str\n" ]; let _ = async { 1 }; }
    pub fn f2<D>(deps: &D, r#type: u8) -> Option<Vec<u8>> { unsafe { } }
}
