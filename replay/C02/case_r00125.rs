use crate::nothing;
#[::entrait::entrait()]
#[track_caller]
#[inline]
#[deny(unsafe_code)]
impl crate::cases::TJ for X125 {
    #[doc = "explicit doc"]
#[track_caller]
#[rustfmt::skip]
pub unsafe fn f0<D>(deps: &D) { if true { } else { } }
    #[allow(clippy::needless_lifetimes)]
#[allow(unused, dead_code)]
#[doc = "explicit doc"]
fn f1<D>(deps: &D) -> impl core::fmt::Debug { let _s = r#"raw"#; nothing!( [ : pub ( % r#"raw "quoted" string"# ) Zed [ .. #![inner] ] async ] mut "str\n" impl += -> & ); }
}
