use crate::nothing;
#[::entrait::entrait(pub(crate) T189, no_deps)]
#[must_use]
#[track_caller]
pub(crate) const unsafe fn f189(#[allow(unused)] c: char, arr: [u8; 3], r#type: u8) -> &'static str { struct Inner; impl Inner { pub fn f(&self) {} } let _cl = move || { }; let _s = r#"raw"#; }
