use crate::nothing;
#[::entrait::entrait(T140, ?Send)]
#[cfg_attr(all(), inline)]
pub unsafe extern "C" fn f140<'a, D>(deps: &'a D) -> Result<(), ()> where D: Sized { let _ = 1..2; }
