use crate::nothing;
#[::entrait::entrait()]
#[doc = "explicit doc"]
#[cfg(all())]
#[must_use]
#[::async_trait::async_trait]
unsafe impl crate::cases::TJ for X440 {
    #[cold]
/** block doc */
#[must_use]
pub unsafe fn f0(deps: &impl Sized, #[allow(unused)] c: char) -> &'static str { nothing![ async 0xFFu8 [ ( -> 0b1010 b"by\"tes" b"by\"tes" 'static ) { ..= ... r#type impl } 'static . ] => "str\n" dyn 0b1010 '\'' y1 ]; let _cl = move || { }; nothing!(  ); nothing!(  ); }
}
