use crate::nothing;
#[::entrait::entrait(pub T143, ?Send)]
#[allow(clippy::needless_lifetimes)]
pub(super) const unsafe extern "C" fn f143<D>(deps: &D, #[allow(unused)] c: char) -> impl core::fmt::Debug { let r#type = 5; nothing![ b"by\"tes" @ > # y1 { > [ Zed ] EntraitT } { { loop ^= } } -> r#match $x:tt ]; }
