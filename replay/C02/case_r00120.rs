use crate::nothing;
#[::entrait::entrait(pub(crate) T120, export)]
pub(self) const unsafe fn f120<D: Sync>(deps: &D, (x, y): (u8, u8), f: impl Fn() -> u8) -> impl core::fmt::Debug { nothing![ == |= ref __impl "str\n" += pub /// doc inside
 & Self ]; }
