use crate::nothing;
#[::entrait::entrait(pub T50, unimock=false)]
#[doc(hidden)]
#[deny(unsafe_code)]
pub(self) async unsafe fn f50<D>(deps: &D, s: &'static [u8]) -> impl core::fmt::Debug {  }
