use crate::nothing;
#[::entrait::entrait(pub T119, ?Send)]
#[rustfmt::skip]
pub(self) async unsafe fn f119(deps: &impl Sized, b: &str, _: i32, a: u8) -> impl core::fmt::Debug { let _ = async { 1 }; let _ = async { 1 }; struct Inner; impl Inner { pub fn f(&self) {} } if true { } else { } }
