use crate::nothing;
#[::entrait::entrait(pub T46, no_deps)]
#[cfg_attr(all(), inline)]
/// a doc comment with `code` and "quotes"
unsafe extern "C" fn f46(_: i32) { nothing! { /** block doc */ 1.0e-3f32 'a } unsafe { } unimplemented!("x {}", 1) nothing! { b'y' || trait /// doc inside
 await move } }
