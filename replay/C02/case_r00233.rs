use crate::nothing;
#[::entrait::entrait(T233, unimock=false)]
/// a doc comment with `code` and "quotes"
#[inline]
#[allow(clippy::needless_lifetimes)]
pub(self) async unsafe fn f233(deps: &impl Sized, f: impl Fn() -> u8, arr: [u8; 3]) { nothing! { [ where $ /** block doc */ || 1_000i64 { Self $x:tt %= 0b1010 } ] ( , ) '\'' $ } nothing! { |= for mut <- ? :: == #![inner] <- } todo!() let _c = |a: u8| -> u8 { a + 1 }; }
