use crate::nothing;
#[::entrait::entrait(pub T134, mockall=false)]
/// a doc comment with `code` and "quotes"
#[doc(hidden)]
#[allow(clippy::needless_lifetimes)]
pub(super) unsafe fn f134(deps: &impl Sized, a: u8, mut m: u32, f: impl Fn() -> u8) { loop { break; } }
