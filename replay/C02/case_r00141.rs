use crate::nothing;
#[::entrait::entrait(pub(crate) T141, ?Send)]
/// a doc comment with `code` and "quotes"
pub unsafe fn f141<D>(deps: &D, mut m: u32) { let x = 1u8; let _ = 1..2; match 1 { 0..=5 => {}, _ => {} } let _s = r#"raw"#; }
