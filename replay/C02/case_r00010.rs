use crate::nothing;
#[::entrait::entrait(pub T10, mockall=false)]
pub async unsafe fn f10<'a, D>(deps: &'a D, o: Option<&mut u8>, r#type: u8) -> impl core::fmt::Debug where D: Sized {  }
