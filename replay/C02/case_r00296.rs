use crate::nothing;
#[::entrait::entrait(pub T296)]
#[rustfmt::skip]
pub(in crate::cases) const unsafe fn f296<D>(deps: &D, z: ::core::option::Option<u8>, (x, y): (u8, u8)) -> (u8, [u16; 2]) { let _s = r#"raw"#; }
