use crate::nothing;
#[::entrait::entrait(ref)]
#[async_trait::async_trait]
impl TI209 for X209 {
    #[deny(unsafe_code)]
#[allow(clippy::needless_lifetimes)]
pub fn f0(deps: &impl Sized, #[allow(unused)] c: char, r#type: u8) -> u32 {  }
    #[must_use]
fn f1(deps: &impl Sized, mut m: u32, arr: [u8; 3], #[allow(unused)] c: char) -> Result<(), ()> { match 1 { 0..=5 => {}, _ => {} } nothing!( <<= 1_000i64 <- [ for fn b'y' 0b1010 ( == dyn 3.14 [ - mut dyn impl crate ] [  ] ) ; ] .. 3.14 ^ %= ); }
    async fn f2<'a, D>(deps: &'a D, f: impl Fn() -> u8, z: ::core::option::Option<u8>, a: u8) where D: Sized { nothing!( $x:tt x 0b1010 Self ); }
}
