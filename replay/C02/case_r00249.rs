use crate::nothing;
#[::entrait::entrait(T249, unimock=false)]
/// a doc comment with `code` and "quotes"
pub(super) unsafe fn f249<'a, D>(deps: &'a D, _: i32) -> impl core::fmt::Debug where D: Sized { nothing!( ..= #![inner] 3.14 self mut ; { : ref __impl 0xFFu8 ! } 'a ); let _c = |a: u8| -> u8 { a + 1 }; nothing!( >>= , ); }
