use crate::nothing;
#[::entrait::entrait(pub T217, mockall=false)]
#[track_caller]
pub(self) unsafe extern "C" fn f217<D: Sync>(deps: &D, a: u8, z: ::core::option::Option<u8>, mut m: u32) -> (u8, [u16; 2]) { nothing![ + mod { -> } ... ]; nothing!(  ); }
