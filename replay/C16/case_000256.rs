use crate::{N, N2, S};
#[::entrait::entrait(T)]
fn arg1<D>(deps: &D, p1: i32, N2(x2, y2): N2) -> Vec<i32> { vec![p1, x2, y2] }
pub fn run() -> (Vec<i32>, Vec<i32>) {
    let app = ::entrait::Impl::new(());
    let via_trait = T::arg1(&app, 1, N2(2, 3));
    let direct = arg1(&app, 1, N2(2, 3));
    (via_trait, direct)
}
