use crate::{N, N2, S};
#[::entrait::entrait(T)]
fn arg1<D>(deps: &D, N(mut q1): N) -> Vec<i32> { vec![q1] }
pub fn run() -> (Vec<i32>, Vec<i32>) {
    let app = ::entrait::Impl::new(());
    let via_trait = T::arg1(&app, N(1));
    let direct = arg1(&app, N(1));
    (via_trait, direct)
}
