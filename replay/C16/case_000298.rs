use crate::{N, N2, S};
#[::entrait::entrait(T)]
fn r#match<D>(deps: &D, mut p1: i32, r#match: i32) -> Vec<i32> { vec![p1, r#match] }
pub fn run() -> (Vec<i32>, Vec<i32>) {
    let app = ::entrait::Impl::new(());
    let via_trait = T::r#match(&app, 1, 2);
    let direct = r#match(&app, 1, 2);
    (via_trait, direct)
}
