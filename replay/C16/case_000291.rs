use crate::{N, N2, S};
#[::entrait::entrait(T, no_deps)]
fn arg1(p1: i32, N(mut q2): N) -> Vec<i32> { vec![p1, q2] }
pub fn run() -> (Vec<i32>, Vec<i32>) {
    let app = ::entrait::Impl::new(());
    let via_trait = T::arg1(&app, 1, N(2));
    let direct = arg1(1, N(2));
    (via_trait, direct)
}
