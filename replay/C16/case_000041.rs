use crate::{N, N2, S};
#[::entrait::entrait(T, no_deps)]
fn r#match(r#match: i32) -> Vec<i32> { vec![r#match] }
pub fn run() -> (Vec<i32>, Vec<i32>) {
    let app = ::entrait::Impl::new(());
    let via_trait = T::r#match(&app, 1);
    let direct = r#match(1);
    (via_trait, direct)
}
