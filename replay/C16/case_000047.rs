use crate::{N, N2, S};
#[::entrait::entrait(T, no_deps)]
fn foo(r#foo: i32) -> Vec<i32> { vec![r#foo] }
pub fn run() -> (Vec<i32>, Vec<i32>) {
    let app = ::entrait::Impl::new(());
    let via_trait = T::foo(&app, 1);
    let direct = foo(1);
    (via_trait, direct)
}
