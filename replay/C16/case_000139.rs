use crate::{N, N2, S};
#[::entrait::entrait(T, no_deps)]
fn foo(S { v: ref q1 }: S) -> Vec<i32> { vec![*q1] }
pub fn run() -> (Vec<i32>, Vec<i32>) {
    let app = ::entrait::Impl::new(());
    let via_trait = T::foo(&app, S { v: 1 });
    let direct = foo(S { v: 1 });
    (via_trait, direct)
}
