use crate::{N, N2, S};
#[::entrait::entrait(T)]
fn r#match<D>(deps: &D, r#match: i32) -> Vec<i32> { vec![r#match] }
pub fn run() -> (Vec<i32>, Vec<i32>) {
    let app = ::entrait::Impl::new(());
    let via_trait = T::r#match(&app, 1);
    let direct = r#match(&app, 1);
    (via_trait, direct)
}
