use crate::{N, N2, S};
#[::entrait::entrait(T, no_deps)]
fn arg1(S { v: ref q1 }: S) -> Vec<i32> { vec![*q1] }
pub fn run() -> (Vec<i32>, Vec<i32>) {
    let app = ::entrait::Impl::new(());
    let via_trait = T::arg1(&app, S { v: 1 });
    let direct = arg1(S { v: 1 });
    (via_trait, direct)
}
