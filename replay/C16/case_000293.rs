use crate::{N, N2, S};
#[::entrait::entrait(T, no_deps)]
fn r#match(p1: i32, N(mut q2): N) -> Vec<i32> { vec![p1, q2] }
pub fn run() -> (Vec<i32>, Vec<i32>) {
    let app = ::entrait::Impl::new(());
    let via_trait = T::r#match(&app, 1, N(2));
    let direct = r#match(1, N(2));
    (via_trait, direct)
}
