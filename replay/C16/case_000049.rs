use crate::{N, N2, S};
#[::entrait::entrait(T, no_deps)]
fn arg1(r#arg1: i32) -> Vec<i32> { vec![r#arg1] }
pub fn run() -> (Vec<i32>, Vec<i32>) {
    let app = ::entrait::Impl::new(());
    let via_trait = T::arg1(&app, 1);
    let direct = arg1(1);
    (via_trait, direct)
}
