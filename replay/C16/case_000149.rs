use crate::{N, N2, S};
#[::entrait::entrait(T, no_deps)]
fn r#match(N(q1 @ _): N) -> Vec<i32> { vec![q1] }
pub fn run() -> (Vec<i32>, Vec<i32>) {
    let app = ::entrait::Impl::new(());
    let via_trait = T::r#match(&app, N(1));
    let direct = r#match(N(1));
    (via_trait, direct)
}
