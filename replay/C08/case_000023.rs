#[::entrait::entrait(pub(in crate::cases) T)]
pub mod m {
    pub const K1: crate::Wr = crate::Wr { a: 1 };
}
pub fn run() -> Vec<u32> {
    let app = ::entrait::Impl::new(());
    let r = vec![];
    r
}
