#[::entrait::entrait(pub(in crate::cases) T)]
pub mod m {
    pub async unsafe fn f1<D>(d: &D) -> u32 { 1 }
}
pub fn run() -> Vec<u32> {
    let app = ::entrait::Impl::new(());
    let r = vec![unsafe { ::vt::block_on(T::f1(&app)) }];
    r
}
