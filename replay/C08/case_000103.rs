#[::entrait::entrait(pub(in crate::cases) T)]
pub mod m {
    fn f1<D>(d: &D) -> u32 { 1 }
    extern "C" { pub fn e103_2(); }
}
pub fn run() -> Vec<u32> {
    let app = ::entrait::Impl::new(());
    let r = vec![];
    r
}
