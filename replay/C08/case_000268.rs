#[::entrait::entrait(pub T)]
pub mod m {
    pub unsafe fn f1<D>(d: &D) -> u32 { 1 }
    pub extern fn f2<D>(d: &D) -> u32 { 2 }
}
pub fn run() -> Vec<u32> {
    let app = ::entrait::Impl::new(());
    let r = vec![unsafe { T::f1(&app) }, T::f2(&app)];
    r
}
