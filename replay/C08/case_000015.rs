#[::entrait::entrait(pub(in crate::cases) T)]
pub mod m {
    pub fn f1<D>(d: &D) -> u32 where D: Sized { 1 }
}
pub fn run() -> Vec<u32> {
    let app = ::entrait::Impl::new(());
    let r = vec![T::f1(&app)];
    r
}
