#[::entrait::entrait(pub(in crate::cases) T)]
pub mod m {
    pub(crate) fn f1<D>(d: &D) -> u32 { 1 }
    pub use core::fmt as fmt2;
}
pub fn run() -> Vec<u32> {
    let app = ::entrait::Impl::new(());
    let r = vec![T::f1(&app)];
    r
}
