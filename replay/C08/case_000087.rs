#[::entrait::entrait(pub(in crate::cases) T)]
pub mod m {
    fn f1<D>(d: &D) -> u32 { 1 }
    /// doc 2
    #[inline] pub fn f2<D>(d: &D) -> u32 { 2 }
}
pub fn run() -> Vec<u32> {
    let app = ::entrait::Impl::new(());
    let r = vec![T::f2(&app)];
    r
}
