#[::entrait::entrait(pub(crate) T)]
pub mod m {
    pub fn f1<D>(d: &D) -> impl Fn() -> u32 { || 1 }
    impl crate::Wr { pub fn g545_2<D>(&self, d: &D) -> u32 { 0 } }
}
pub fn run() -> Vec<u32> {
    let app = ::entrait::Impl::new(());
    vec![(T::f1(&app))()]
}
