#[::entrait::entrait(pub(in crate::cases) T)]
pub mod m {
    fn f1<D>(d: &D) -> u32 { 1 }
    const fn k2() -> u32 { 2 }
}
pub fn run() -> Vec<u32> {
    let app = ::entrait::Impl::new(());
    let r = vec![];
    r
}
