#[::entrait::entrait(pub(in crate::cases) T)]
pub mod m {
    pub unsafe fn f1<D>(d: &D) -> u32 { 1 }
}
pub fn run() -> Vec<u32> {
    let app = ::entrait::Impl::new(());
    let r = vec![unsafe { T::f1(&app) }];
    r
}
