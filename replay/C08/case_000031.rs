#[::entrait::entrait(pub(in crate::cases) T)]
pub mod m {
    crate::nothing!(pub fn y() {});
}
pub fn run() -> Vec<u32> {
    let app = ::entrait::Impl::new(());
    let r = vec![];
    r
}
