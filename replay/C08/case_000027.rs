#[::entrait::entrait(pub(in crate::cases) T)]
pub mod m {
    impl crate::Wr { pub fn g27_1<D>(&self, d: &D) -> u32 { 0 } }
}
pub fn run() -> Vec<u32> {
    let app = ::entrait::Impl::new(());
    let r = vec![];
    r
}
