#[::entrait::entrait(T)]
pub mod m {
    pub extern fn f1<D>(d: &D) -> u32 { 1 }
}
pub fn run() -> Vec<u32> {
    let app = ::entrait::Impl::new(());
    let r = vec![T::f1(&app)];
    r
}
