#[::entrait::entrait(pub(in crate::cases) T)]
pub mod m {
    pub struct S1(pub u8);
}
pub fn run() -> Vec<u32> {
    let app = ::entrait::Impl::new(());
    let r = vec![];
    r
}
