#[::entrait::entrait(pub(crate) T)]
pub mod m {
    pub fn f1<D>(d: &D) -> impl Fn() -> u32 { || 1 }
    use core::fmt::{Debug as D2, Display as P2};
}
pub fn run() -> Vec<u32> {
    let app = ::entrait::Impl::new(());
    vec![(T::f1(&app))()]
}
