#[::entrait::entrait(pub(in crate::cases) T)]
pub mod m {
    pub(super) async fn f1<D>(d: &D) -> u32 { 1 }
    pub trait Tr2 { fn t(&self); }
}
pub fn run() -> Vec<u32> {
    let app = ::entrait::Impl::new(());
    let r = vec![::vt::block_on(T::f1(&app))];
    r
}
