#[::entrait::entrait(pub(in crate::cases) T)]
pub mod m {
    pub trait Tr1 { fn t(&self); }
}
pub fn run() -> Vec<u32> {
    let app = ::entrait::Impl::new(());
    let r = vec![];
    r
}
