#[::entrait::entrait(pub(in crate::cases) T)]
pub mod m {
    fn f1<D>(d: &D) -> u32 { 1 }
    use core::fmt::{Debug as D2, Display as P2};
}
pub fn run() -> Vec<u32> {
    let app = ::entrait::Impl::new(());
    let r = vec![];
    r
}
