#[::entrait::entrait(pub(in crate::cases) T)]
pub mod m {
    fn f1<D>(d: &D) -> u32 { 1 }
    pub enum E2 { A, B(fn()) }
}
pub fn run() -> Vec<u32> {
    let app = ::entrait::Impl::new(());
    let r = vec![];
    r
}
