// feature unimock: True
#[::entrait::entrait(delegate_by = Self, mockall)]
trait Tr {
    fn m(&self, a: i32) -> i32;
    async fn n(&self, b: u8) -> u8;
}
