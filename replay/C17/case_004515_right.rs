// feature unimock: False
#[::entrait::entrait_export(delegate_by = Self, unimock = true)]
trait Tr {
    fn m(&self, a: i32) -> i32;
    async fn n(&self, b: u8) -> u8;
}
