// feature unimock: False
#[::entrait::entrait_export(pub T, export = false, mockall)]
fn f<D>(deps: &D, a: i32) -> i32 { a }
