// feature unimock: True
#[::entrait::entrait(pub T, mockall, export = false)]
fn f<D>(deps: &D, a: i32) -> i32 { a }
