// feature unimock: True
#[::entrait::entrait_export(pub T, export = false, mockall)]
mod m {
    pub fn f<D>(deps: &D) -> i32 { 1 }
    pub async fn g<D>(deps: &D, a: u8) -> u8 { a }
}
