// feature unimock: True
#[::entrait::entrait(pub T, export = false, mockall)]
fn f<D>(deps: &D, a: i32) -> i32 { a }
