// feature unimock: False
#[::entrait::entrait_export(pub T, mock_api = Mk, export = true, unimock)]
fn f<D>(deps: &D, a: i32) -> i32 { a }
