// feature unimock: False
#[::entrait::entrait_export(pub T, export = true, mock_api = Mk, unimock)]
fn f<D>(deps: &D, a: i32) -> i32 { a }
