// feature unimock: True
#[::entrait::entrait_export(pub T, mock_api = Mk, export = false)]
fn f<D>(deps: &D, a: i32) -> i32 { a }
