// feature unimock: False
#[::entrait::entrait_export(unimock = true, delegate_by = Self)]
trait Tr {
    fn m(&self, a: i32) -> i32;
    async fn n(&self, b: u8) -> u8;
}
