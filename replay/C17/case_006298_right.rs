// feature unimock: True
#[::entrait::entrait(pub T, mockall, export = false)]
mod m {
    pub fn f<D>(deps: &D) -> i32 { 1 }
    pub async fn g<D>(deps: &D, a: u8) -> u8 { a }
}
