// feature unimock: True
#[::entrait::entrait_export(pub T, export = false, mock_api = Mk)]
fn f<D>(deps: &D, a: i32) -> i32 { a }
