// feature unimock: False
#[::entrait::entrait(unimock, delegate_by = Self)]
trait Tr {
    fn m(&self, a: i32) -> i32;
    async fn n(&self, b: u8) -> u8;
}
