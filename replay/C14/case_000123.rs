use crate::*;
#[::entrait::entrait]
pub trait Leaf { async fn m(&self, x: u64) -> &'static str; }

pub struct App;
impl Leaf for App { async fn m(&self, x: u64) -> &'static str { if x > 2 { "a" } else { "b" } } }

#[::entrait::entrait(pub T1)]
async fn f1(deps: &(impl Leaf + crate::Marker), x: u64) -> &'static str { deps.m(x + 1).await }

pub fn run() {
    { ::vt::emit("scenario", "\"case\":\"c000123\",\"sc\":1");
      let app = ::entrait::Impl::new(App);
      let _warm = ::vt::block_on(f1(&app, 3));
      let (r, n) = ::vt::count_allocs(|| ::vt::block_on(f1(&app, 3)));
      ::vt::emit("alloc", &format!("\"allocs\":{}", n));
      ::vt::emit("end", &format!("\"panicked\":false,\"result\":\"{}\"", r)); }
    { ::vt::emit("scenario", "\"case\":\"c000123\",\"sc\":2");
      let app = ::entrait::Impl::new(App);
      let _warm = ::vt::block_on(T1::f1(&app, 3));
      let (r, n) = ::vt::count_allocs(|| ::vt::block_on(T1::f1(&app, 3)));
      ::vt::emit("alloc", &format!("\"allocs\":{}", n));
      ::vt::emit("end", &format!("\"panicked\":false,\"result\":\"{}\"", r)); }
}
