use crate::*;
#[::entrait::entrait]
pub trait Leaf { async fn m(&self, x: u64) -> &'static str; }

pub struct App;
impl Leaf for App { async fn m(&self, x: u64) -> &'static str { if x > 2 { "a" } else { "b" } } }

pub fn run() {
    { ::vt::emit("scenario", "\"case\":\"c000105\",\"sc\":1");
      let app = ::entrait::Impl::new(App);
      let _warm = ::vt::block_on(Leaf::m(&*app, 3));
      let (r, n) = ::vt::count_allocs(|| ::vt::block_on(Leaf::m(&*app, 3)));
      ::vt::emit("alloc", &format!("\"allocs\":{}", n));
      ::vt::emit("end", &format!("\"panicked\":false,\"result\":\"{}\"", r)); }
    { ::vt::emit("scenario", "\"case\":\"c000105\",\"sc\":2");
      let app = ::entrait::Impl::new(App);
      let _warm = ::vt::block_on(Leaf::m(&app, 3));
      let (r, n) = ::vt::count_allocs(|| ::vt::block_on(Leaf::m(&app, 3)));
      ::vt::emit("alloc", &format!("\"allocs\":{}", n));
      ::vt::emit("end", &format!("\"panicked\":false,\"result\":\"{}\"", r)); }
}
