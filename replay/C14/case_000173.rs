use crate::*;
#[::entrait::entrait(TrImpl, delegate_by = DelegateTr)]
pub trait Tr { async fn m(&self, x: u64) -> &'static str; }

pub struct X;
#[::entrait::entrait]
impl TrImpl for X { pub async fn m(deps: &(impl Sync), x: u64) -> &'static str { let v: Vec<u64> = Vec::with_capacity(x as usize + 1); if v.capacity() > x as usize { "w" } else { "z" } } }

pub struct App;
impl DelegateTr<Self> for App { type Target = X; }

#[::entrait::entrait(pub T1)]
async fn f1(deps: &(impl Tr), x: u64) -> &'static str { deps.m(x + 1).await }

pub fn run() {
    { ::vt::emit("scenario", "\"case\":\"c000173\",\"sc\":1");
      let app = ::entrait::Impl::new(App);
      let _warm = ::vt::block_on(f1(&app, 3));
      let (r, n) = ::vt::count_allocs(|| ::vt::block_on(f1(&app, 3)));
      ::vt::emit("alloc", &format!("\"allocs\":{}", n));
      ::vt::emit("end", &format!("\"panicked\":false,\"result\":\"{}\"", r)); }
    { ::vt::emit("scenario", "\"case\":\"c000173\",\"sc\":2");
      let app = ::entrait::Impl::new(App);
      let _warm = ::vt::block_on(T1::f1(&app, 3));
      let (r, n) = ::vt::count_allocs(|| ::vt::block_on(T1::f1(&app, 3)));
      ::vt::emit("alloc", &format!("\"allocs\":{}", n));
      ::vt::emit("end", &format!("\"panicked\":false,\"result\":\"{}\"", r)); }
}
