use crate::*;
#[::entrait::entrait(pub T1)]
async fn f1(deps: &(impl T2 + crate::Marker), x: u64) -> u64 { deps.f2(x + 1).await }

#[::entrait::entrait(pub T2)]
async fn f2(deps: &(impl T3 + crate::Marker), x: u64) -> u64 { deps.f3(x + 1).await }

#[::entrait::entrait(pub T3)]
async fn f3(deps: &(impl Sync + crate::Marker), x: u64) -> u64 { x + 1 }

pub fn run() {
    { ::vt::emit("scenario", "\"case\":\"c000021\",\"sc\":1");
      let app = ::entrait::Impl::new(());
      let _warm = ::vt::block_on(f1(&app, 3));
      let (r, n) = ::vt::count_allocs(|| ::vt::block_on(f1(&app, 3)));
      ::vt::emit("alloc", &format!("\"allocs\":{}", n));
      ::vt::emit("end", &format!("\"panicked\":false,\"result\":\"{}\"", r)); }
    { ::vt::emit("scenario", "\"case\":\"c000021\",\"sc\":2");
      let app = ::entrait::Impl::new(());
      let _warm = ::vt::block_on(T1::f1(&app, 3));
      let (r, n) = ::vt::count_allocs(|| ::vt::block_on(T1::f1(&app, 3)));
      ::vt::emit("alloc", &format!("\"allocs\":{}", n));
      ::vt::emit("end", &format!("\"panicked\":false,\"result\":\"{}\"", r)); }
}
