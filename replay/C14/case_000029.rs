use crate::*;
#[::entrait::entrait(pub T1)]
pub mod m1 {
    use super::*;
    pub async fn f1(deps: &(impl Sync + crate::Marker), x: u64) -> u64 { x + 1 }
    pub async fn other1(deps: &impl Sync) -> u64 { 0 }
}

pub fn run() {
    { ::vt::emit("scenario", "\"case\":\"c000029\",\"sc\":1");
      let app = ::entrait::Impl::new(());
      let _warm = ::vt::block_on(m1::f1(&app, 3));
      let (r, n) = ::vt::count_allocs(|| ::vt::block_on(m1::f1(&app, 3)));
      ::vt::emit("alloc", &format!("\"allocs\":{}", n));
      ::vt::emit("end", &format!("\"panicked\":false,\"result\":\"{}\"", r)); }
    { ::vt::emit("scenario", "\"case\":\"c000029\",\"sc\":2");
      let app = ::entrait::Impl::new(());
      let _warm = ::vt::block_on(T1::f1(&app, 3));
      let (r, n) = ::vt::count_allocs(|| ::vt::block_on(T1::f1(&app, 3)));
      ::vt::emit("alloc", &format!("\"allocs\":{}", n));
      ::vt::emit("end", &format!("\"panicked\":false,\"result\":\"{}\"", r)); }
}
