#[::entrait::entrait(pub Other1)]
fn other1<D>(deps: &D, x: i32) -> String {
        let __f: String = String::from("c001403::other1");
        let __args: String = String::new() + &::vt::js(&format!("{:?}", x));
        ::vt::emit("enter", &format!("\"f\":{},\"deps\":{},\"args\":[{}]", ::vt::js(&__f), ::vt::js(&::vt::addr(deps)), __args));
        
        
        let __val = format!("{}({})", __f, __args);
        ::vt::emit("exit", &format!("\"f\":{},\"val\":{}", ::vt::js(&__f), ::vt::js(&__val)));
        __val
    }
#[::entrait::entrait(pub Other2)]
fn other2<D>(deps: &D, x: i32) -> String {
        let __f: String = String::from("c001403::other2");
        let __args: String = String::new() + &::vt::js(&format!("{:?}", x));
        ::vt::emit("enter", &format!("\"f\":{},\"deps\":{},\"args\":[{}]", ::vt::js(&__f), ::vt::js(&::vt::addr(deps)), __args));
        
        
        let __val = format!("{}({})", __f, __args);
        ::vt::emit("exit", &format!("\"f\":{},\"val\":{}", ::vt::js(&__f), ::vt::js(&__val)));
        __val
    }
#[::entrait::entrait(TrImpl, delegate_by = DelegateTr)]
pub trait Tr {
    async fn m1(&self, a1: i32) -> String;
}
#[::entrait::entrait]
impl TrImpl for X<P1> {
    pub async fn m1(deps: &(impl Other1 + Other2), a1: i32) -> String {
        let __f: String = String::from("target:X1::m1");
        let __args: String = String::new() + &::vt::js(&format!("{:?}", a1));
        ::vt::emit("enter", &format!("\"f\":{},\"deps\":{},\"args\":[{}]", ::vt::js(&__f), ::vt::js(&::vt::addr(deps)), __args));
        ::vt::yield_once().await;
        ::vt::emit("call", &format!("\"m\":\"other1\",\"recv\":{},\"args\":[\"101\"]", ::vt::js(&::vt::addr(deps))));
        let __n1 = deps.other1(101);
        ::vt::emit("ret", &format!("\"m\":\"other1\",\"val\":{}", ::vt::js(&__n1)));
        ::vt::emit("call", &format!("\"m\":\"other2\",\"recv\":{},\"args\":[\"102\"]", ::vt::js(&::vt::addr(deps))));
        let __n2 = deps.other2(102);
        ::vt::emit("ret", &format!("\"m\":\"other2\",\"val\":{}", ::vt::js(&__n2)));
        
        let __val = format!("{}({})", __f, __args);
        ::vt::emit("exit", &format!("\"f\":{},\"val\":{}", ::vt::js(&__f), ::vt::js(&__val)));
        __val
    }
}
#[::entrait::entrait]
impl TrImpl for X<P2> {
    pub async fn m1(deps: &(impl Other1 + Other2), a1: i32) -> String {
        let __f: String = String::from("target:X2::m1");
        let __args: String = String::new() + &::vt::js(&format!("{:?}", a1));
        ::vt::emit("enter", &format!("\"f\":{},\"deps\":{},\"args\":[{}]", ::vt::js(&__f), ::vt::js(&::vt::addr(deps)), __args));
        ::vt::yield_once().await;
        ::vt::emit("call", &format!("\"m\":\"other1\",\"recv\":{},\"args\":[\"101\"]", ::vt::js(&::vt::addr(deps))));
        let __n1 = deps.other1(101);
        ::vt::emit("ret", &format!("\"m\":\"other1\",\"val\":{}", ::vt::js(&__n1)));
        ::vt::emit("call", &format!("\"m\":\"other2\",\"recv\":{},\"args\":[\"102\"]", ::vt::js(&::vt::addr(deps))));
        let __n2 = deps.other2(102);
        ::vt::emit("ret", &format!("\"m\":\"other2\",\"val\":{}", ::vt::js(&__n2)));
        
        let __val = format!("{}({})", __f, __args);
        ::vt::emit("exit", &format!("\"f\":{},\"val\":{}", ::vt::js(&__f), ::vt::js(&__val)));
        __val
    }
}
pub struct A; pub struct B; pub struct NoSel;
pub struct P1; pub struct P2; pub struct X<P>(pub ::core::marker::PhantomData<P>);
unsafe impl<P> Sync for X<P> {}
static XP1: X<P1> = X(::core::marker::PhantomData);
static XP2: X<P2> = X(::core::marker::PhantomData);
impl DelegateTr<Self> for A { type Target = X<P1>; }
impl DelegateTr<Self> for B { type Target = X<P2>; }
pub fn run() {
    { ::vt::emit("scenario", "\"case\":\"c001403\",\"sc\":1");
      let app = ::entrait::Impl::new(A);
      ::vt::emit("call", &format!("\"m\":\"m1\",\"recv\":{},\"args\":[\"330\"]", ::vt::js(&::vt::addr(&app))));
      let fut = Tr::m1(&app, 330);
      ::vt::emit("future", "\"m\":\"m1\"");
      let r = ::vt::block_on(fut);
      let r: String = r.to_string();
      ::vt::emit("ret", &format!("\"m\":\"m1\",\"val\":{}", ::vt::js(&r)));
      ::vt::emit("end", &format!("\"panicked\":false,\"result\":{}", ::vt::js(&r))); }
    { ::vt::emit("scenario", "\"case\":\"c001403\",\"sc\":2");
      let app = ::entrait::Impl::new(B);
      ::vt::emit("call", &format!("\"m\":\"m1\",\"recv\":{},\"args\":[\"771\"]", ::vt::js(&::vt::addr(&app))));
      let fut = Tr::m1(&app, 771);
      ::vt::emit("future", "\"m\":\"m1\"");
      let r = ::vt::block_on(fut);
      let r: String = r.to_string();
      ::vt::emit("ret", &format!("\"m\":\"m1\",\"val\":{}", ::vt::js(&r)));
      ::vt::emit("end", &format!("\"panicked\":false,\"result\":{}", ::vt::js(&r))); }
    { ::vt::emit("scenario", "\"case\":\"c001403\",\"sc\":3");
      ::vt::emit("avail", &format!("\"probe\":\"A\",\"has\":{}", ::vt::has_impl!(::entrait::Impl<A>: Tr)));
      ::vt::emit("avail", &format!("\"probe\":\"B\",\"has\":{}", ::vt::has_impl!(::entrait::Impl<B>: Tr)));
      ::vt::emit("avail", &format!("\"probe\":\"NoSel\",\"has\":{}", ::vt::has_impl!(::entrait::Impl<NoSel>: Tr)));
      ::vt::emit("end", "\"panicked\":false,\"result\":\"\""); }
}
