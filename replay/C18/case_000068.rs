#[::entrait::entrait]
pub trait Tr {
    fn keep(&self, x: i32) -> i32;
    #[must_use]
    fn f(&self, x: i32) -> i32;
}
