#[::entrait::entrait(pub T, no_deps)]
fn f(#[cfg(all())] (x, _y): (i32, i32)) -> i32 { 1 }
