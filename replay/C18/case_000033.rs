#[::entrait::entrait(pub T, no_deps)]
fn f(#[allow(unused_variables)] (x, _y): (i32, i32)) -> i32 { 1 }
