#[::entrait::entrait(TI, delegate_by = Del)]
pub trait Tr {
    fn keep(&self, x: i32) -> i32;
    #[cfg(any())]
    fn f(&self, x: i32) -> i32;
}
pub struct X;
#[::entrait::entrait]
impl TI for X {
    pub fn keep<D>(deps: &D, x: i32) -> i32 { x }
    #[cfg(any())]
    pub fn f<D>(deps: &D, x: i32) -> i32 { x }
}
