#[::entrait::entrait(pub T, no_deps)]
async fn f(#[allow(unused_variables)] (x, _y): (i32, i32)) -> i32 { 1 }
