#[::entrait::entrait(pub T, no_deps)]
pub mod m {
    pub fn keep(x: i32) -> i32 { x }
    #[cfg(any())]
    pub fn f(x: i32) -> i32 { x }
}
