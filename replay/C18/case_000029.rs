#[::entrait::entrait(pub T)]
fn f<D>(deps: &D, #[allow(unused_variables)] _: i32) -> i32 { 1 }
