#[::entrait::entrait(TI, delegate_by = Del)]
pub trait Tr {
    async fn keep(&self, x: i32) -> i32;
    #[cfg(any())]
    async fn f(&self, x: i32) -> i32;
}
pub struct X;
#[::entrait::entrait]
impl TI for X {
    pub async fn keep<D>(deps: &D, x: i32) -> i32 { x }
    #[cfg(any())]
    pub async fn f<D>(deps: &D, x: i32) -> i32 { x }
}
