#[::entrait::entrait(pub T, no_deps)]
fn f(#[allow(unused_variables)] _: i32) -> i32 { 1 }
