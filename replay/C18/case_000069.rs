#[::entrait::entrait]
pub trait Tr {
    async fn keep(&self, x: i32) -> i32;
    #[must_use]
    async fn f(&self, x: i32) -> i32;
}
