#[::entrait::entrait(pub T, no_deps)]
fn f(#[cfg(all())] _: i32) -> i32 { 1 }
