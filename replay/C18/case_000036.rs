#[::entrait::entrait(pub T)]
async fn f<D>(deps: &D, #[allow(unused_variables)] (x, _y): (i32, i32)) -> i32 { 1 }
