#[::entrait::entrait(pub T)]
fn f<D>(deps: &D, #[cfg(all())] _: i32) -> i32 { 1 }
