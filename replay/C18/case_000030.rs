#[::entrait::entrait(pub T)]
fn f<D>(deps: &D, #[allow(unused_variables)] (x, _y): (i32, i32)) -> i32 { 1 }
