#[::entrait::entrait(pub T)]
pub mod m {
    pub async fn keep<D>(deps: &D, x: i32) -> i32 { x }
    #[cfg(any())]
    pub async fn f<D>(deps: &D, x: i32) -> i32 { x }
}
