#[::entrait::entrait(pub T, no_deps)]
async fn f(#[allow(unused_variables)] _: i32) -> i32 { 1 }
