#[::entrait::entrait(pub T)]
pub mod m {
    pub fn keep<D>(deps: &D, x: i32) -> i32 { x }
    #[cfg(any())]
    pub fn f<D>(deps: &D, x: i32) -> i32 { x }
}
