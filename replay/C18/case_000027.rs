#[::entrait::entrait(pub T, no_deps)]
async fn f(#[cfg(all())] (x, _y): (i32, i32)) -> i32 { 1 }
