#[::entrait::entrait(pub T, no_deps)]
async fn f(#[cfg(all())] _: i32) -> i32 { 1 }
