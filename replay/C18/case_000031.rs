#[::entrait::entrait(pub T, no_deps)]
pub mod m {
    pub async fn keep(x: i32) -> i32 { x }
    #[cfg(any())]
    pub async fn f(x: i32) -> i32 { x }
}
