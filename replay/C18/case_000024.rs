#[::entrait::entrait(pub T)]
async fn f<D>(deps: &D, #[cfg(all())] (x, _y): (i32, i32)) -> i32 { 1 }
