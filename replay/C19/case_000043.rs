pub mod core {}
#[::entrait::entrait(NImpl, delegate_by = ref)]
#[::async_trait::async_trait]
pub trait T { async fn m(&self, a: i32) -> i32; }
pub struct X;
#[::entrait::entrait(ref)]
#[::async_trait::async_trait]
impl NImpl for X { pub async fn m<D: ::core::marker::Sync>(deps: &D, a: i32) -> i32 { a + 5 } }
pub struct App;
impl ::core::convert::AsRef<dyn NImpl<Self> + ::core::marker::Sync> for App { fn as_ref(&self) -> &(dyn NImpl<Self> + ::core::marker::Sync + 'static) { &X } }

pub fn run() {
    ::vt::emit("scenario", "\"case\":\"c000043\",\"sc\":1");
    let app = ::entrait::Impl::new(App); let r = ::std::format!("{}", ::vt::block_on(<::entrait::Impl<App> as T>::m(&app, 1)));
    ::vt::emit("avail", &::std::format!("\"probe\":\"impl\",\"has\":{}", ::vt::has_impl!(::entrait::Impl<App>: T)));
    ::vt::emit("avail", &::std::format!("\"probe\":\"implOther\",\"has\":{}", ::vt::has_impl!(::entrait::Impl<()>: T)));
    ::vt::emit("end", &::std::format!("\"panicked\":false,\"result\":{}", ::vt::js(&r)));
}
