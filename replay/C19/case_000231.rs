
#[::entrait::entrait(NImpl, delegate_by = Borrow)]
pub trait T { fn m(&self, a: i32) -> i32; }
pub struct X;
#[::entrait::entrait(ref)]
impl NImpl for X { pub fn m<D>(deps: &D, a: i32) -> i32 { a + 6 } }
pub struct App;
impl ::core::borrow::Borrow<dyn NImpl<Self>> for App { fn borrow(&self) -> &(dyn NImpl<Self> + 'static) { &X } }

