// module crate::cases::c<id>
pub mod d {
    #[::entrait::entrait(pub(in crate::cases) T)]
    fn f<D>(deps: &D) {}
    
}

