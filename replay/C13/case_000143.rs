// module crate::cases::c<id>
pub mod d {
    #[::entrait::entrait(pub(crate) T)]
    pub mod m { pub fn f<D>(deps: &D) {} }
    
}

