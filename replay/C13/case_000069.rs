// module crate::cases::c<id>
pub mod d {
    #[::entrait::entrait(pub(in crate::cases) T)]
    pub fn f<D>(deps: &D) {}
    
}

