// module crate::cases::c<id>
pub mod d {
    #[::entrait::entrait(pub(crate) TI, delegate_by = DelegateTr)]
    pub trait Tr { fn m(&self); }
    
}

