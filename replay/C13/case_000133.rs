// module crate::cases::c<id>
pub mod d {
    #[::entrait::entrait(pub(crate) TI, delegate_by = DelegateTr)]
    trait Tr { fn m(&self); }
    
}
#[allow(unused_imports)] use self::d::TI as _Probe;
