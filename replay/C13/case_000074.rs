// module crate::cases::c<id>
pub mod d {
    #[::entrait::entrait(pub(in crate::cases) T)]
    pub(crate) fn f<D>(deps: &D) {}
    
}

