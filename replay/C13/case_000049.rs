// module crate::cases::c<id>
pub mod d {
    #[::entrait::entrait(pub(super) T)]
    fn f<D>(deps: &D) {}
    
}

