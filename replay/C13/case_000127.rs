// module crate::cases::c<id>
pub mod d {
    #[::entrait::entrait(pub TI, delegate_by = DelegateTr)]
    trait Tr { fn m(&self); }
    
}
pub mod sibling { #[allow(unused_imports)] use super::d::TI as _Probe; }
