// module crate::cases::c<id>
pub mod d {
    #[::entrait::entrait(pub(crate) T)]
    fn f<D>(deps: &D) {}
    
}

