// module crate::cases::c<id>
pub mod d {
    #[::entrait::entrait(pub TI, delegate_by = DelegateTr)]
    trait Tr { fn m(&self); }
    
}

