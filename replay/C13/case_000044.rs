// module crate::cases::c<id>
pub mod d {
    #[::entrait::entrait(pub(crate) T)]
    pub(crate) fn f<D>(deps: &D) {}
    
}

