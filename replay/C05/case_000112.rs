pub struct Conc { pub name: &'static str }
pub struct Gen<T>(pub T);
pub struct AppT { pub c: Conc }
pub struct XT;
pub struct NoSyncT { pub c: Conc, pub cell: ::core::cell::Cell<u8> }
#[::entrait::entrait(pub Tr)]
async fn f<'a>(deps: &'a Conc, a1: String) -> &'a str {
        let __f: String = String::from("c000112::f");
        let __args: String = String::new() + &::vt::js(&a1.clone());
        ::vt::emit("enter", &format!("\"f\":{},\"deps\":{},\"args\":[{}]", ::vt::js(&__f), ::vt::js(&::vt::addr(deps)), __args));
        ::vt::yield_once().await;
        
        let __val = deps.name;
        ::vt::emit("exit", &format!("\"f\":{},\"val\":{}", ::vt::js(&__f), ::vt::js(&__val.to_string())));
        __val
    }
impl Tr for AppT {
    async fn f<'a>(&'a self, a1: String) -> &'a str {
        let __f: String = String::from("provider:App::f");
        let __args: String = String::new() + &::vt::js(&a1.clone());
        ::vt::emit("enter", &format!("\"f\":{},\"deps\":{},\"args\":[{}]", ::vt::js(&__f), ::vt::js(&::vt::addr(self)), __args));
        let __cargs: String = String::new() + &::vt::js(&a1.clone());
        ::vt::emit("call", &format!("\"m\":\"fnf\",\"recv\":{},\"args\":[{}]", ::vt::js(&::vt::addr(&self.c)), __cargs));
        let __r = f(&self.c, a1).await;
        ::vt::emit("ret", &format!("\"m\":\"fnf\",\"val\":{}", ::vt::js(&__r.to_string())));
        ::vt::emit("exit", &format!("\"f\":{},\"val\":{}", ::vt::js(&__f), ::vt::js(&__r.to_string())));
        __r
    }
}
pub fn run() {
    { ::vt::emit("scenario", "\"case\":\"c000112\",\"sc\":1");
      let c: Conc = Conc { name: "conc" };
      ::vt::emit("call", &format!("\"m\":\"f\",\"recv\":{},\"args\":[\"s91\"]", ::vt::js(&::vt::addr(&c))));
      let fut = f(&c, String::from("s91"));
      ::vt::emit("future", "\"m\":\"f\"");
      let r = ::vt::block_on(fut);
      let r: String = r.to_string();
      ::vt::emit("ret", &format!("\"m\":\"f\",\"val\":{}", ::vt::js(&r)));
      ::vt::emit("end", &format!("\"panicked\":false,\"result\":{}", ::vt::js(&r))); }
    { ::vt::emit("scenario", "\"case\":\"c000112\",\"sc\":2");
      let c: Conc = Conc { name: "conc" };
      ::vt::emit("call", &format!("\"m\":\"f\",\"recv\":{},\"args\":[\"s91\"]", ::vt::js(&::vt::addr(&c))));
      let fut = Tr::f(&c, String::from("s91"));
      ::vt::emit("future", "\"m\":\"f\"");
      let r = ::vt::block_on(fut);
      let r: String = r.to_string();
      ::vt::emit("ret", &format!("\"m\":\"f\",\"val\":{}", ::vt::js(&r)));
      ::vt::emit("end", &format!("\"panicked\":false,\"result\":{}", ::vt::js(&r))); }
    { ::vt::emit("scenario", "\"case\":\"c000112\",\"sc\":3");
      let app = ::entrait::Impl::new(Conc { name: "conc" });
      ::vt::emit("call", &format!("\"m\":\"f\",\"recv\":{},\"args\":[\"s91\"]", ::vt::js(&::vt::addr(&*app))));
      let fut = Tr::f(&app, String::from("s91"));
      ::vt::emit("future", "\"m\":\"f\"");
      let r = ::vt::block_on(fut);
      let r: String = r.to_string();
      ::vt::emit("ret", &format!("\"m\":\"f\",\"val\":{}", ::vt::js(&r)));
      ::vt::emit("end", &format!("\"panicked\":false,\"result\":{}", ::vt::js(&r))); }
    { ::vt::emit("scenario", "\"case\":\"c000112\",\"sc\":4");
      let app = ::entrait::Impl::new(AppT { c: Conc { name: "conc" } });
      ::vt::emit("call", &format!("\"m\":\"f\",\"recv\":{},\"args\":[\"s91\"]", ::vt::js(&::vt::addr(&*app))));
      let fut = Tr::f(&app, String::from("s91"));
      ::vt::emit("future", "\"m\":\"f\"");
      let r = ::vt::block_on(fut);
      let r: String = r.to_string();
      ::vt::emit("ret", &format!("\"m\":\"f\",\"val\":{}", ::vt::js(&r)));
      ::vt::emit("end", &format!("\"panicked\":false,\"result\":{}", ::vt::js(&r))); }
    { ::vt::emit("scenario", "\"case\":\"c000112\",\"sc\":5");
      ::vt::emit("avail", &format!("\"probe\":\"C\",\"has\":{}", ::vt::has_impl!(Conc: Tr)));
      ::vt::emit("avail", &format!("\"probe\":\"ImplC\",\"has\":{}", ::vt::has_impl!(::entrait::Impl<Conc>: Tr)));
      ::vt::emit("avail", &format!("\"probe\":\"App\",\"has\":{}", ::vt::has_impl!(AppT: Tr)));
      ::vt::emit("avail", &format!("\"probe\":\"ImplApp\",\"has\":{}", ::vt::has_impl!(::entrait::Impl<AppT>: Tr)));
      ::vt::emit("avail", &format!("\"probe\":\"X\",\"has\":{}", ::vt::has_impl!(XT: Tr)));
      ::vt::emit("avail", &format!("\"probe\":\"ImplX\",\"has\":{}", ::vt::has_impl!(::entrait::Impl<XT>: Tr)));
      ::vt::emit("end", "\"panicked\":false,\"result\":\"\""); }
}
