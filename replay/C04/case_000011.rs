// feature unimock: False
use crate::{B1, B2, B3};
#[::entrait::entrait(pub T, mockall)]
fn f<D>(deps: D) {}
pub fn run() {
    ::vt::emit("scenario", "\"case\":\"c000011\",\"sc\":1");
    ::vt::emit("avail", &format!("\"probe\":\"All:bare\",\"has\":{}", ::vt::has_impl!(crate::PAll: T)));
    ::vt::emit("avail", &format!("\"probe\":\"No1:bare\",\"has\":{}", ::vt::has_impl!(crate::PNo1: T)));
    ::vt::emit("avail", &format!("\"probe\":\"No2:bare\",\"has\":{}", ::vt::has_impl!(crate::PNo2: T)));
    ::vt::emit("avail", &format!("\"probe\":\"No3:bare\",\"has\":{}", ::vt::has_impl!(crate::PNo3: T)));
    ::vt::emit("avail", &format!("\"probe\":\"NoSync:bare\",\"has\":{}", ::vt::has_impl!(crate::PNoSync: T)));
    ::vt::emit("avail", &format!("\"probe\":\"NoSend:bare\",\"has\":{}", ::vt::has_impl!(crate::PNoSend: T)));
    ::vt::emit("avail", &format!("\"probe\":\"None:bare\",\"has\":{}", ::vt::has_impl!(crate::PNone: T)));
    ::vt::emit("avail", &format!("\"probe\":\"All:implT\",\"has\":{}", ::vt::has_impl!(::entrait::Impl<crate::PAll>: T)));
    ::vt::emit("avail", &format!("\"probe\":\"No1:implT\",\"has\":{}", ::vt::has_impl!(::entrait::Impl<crate::PNo1>: T)));
    ::vt::emit("avail", &format!("\"probe\":\"No2:implT\",\"has\":{}", ::vt::has_impl!(::entrait::Impl<crate::PNo2>: T)));
    ::vt::emit("avail", &format!("\"probe\":\"No3:implT\",\"has\":{}", ::vt::has_impl!(::entrait::Impl<crate::PNo3>: T)));
    ::vt::emit("avail", &format!("\"probe\":\"NoSync:implT\",\"has\":{}", ::vt::has_impl!(::entrait::Impl<crate::PNoSync>: T)));
    ::vt::emit("avail", &format!("\"probe\":\"NoSend:implT\",\"has\":{}", ::vt::has_impl!(::entrait::Impl<crate::PNoSend>: T)));
    ::vt::emit("avail", &format!("\"probe\":\"None:implT\",\"has\":{}", ::vt::has_impl!(::entrait::Impl<crate::PNone>: T)));
    ::vt::emit("end", "\"panicked\":false,\"result\":\"\"");
}
