// entrait feature unimock: False
#[allow(non_camel_case_types, non_snake_case)]
pub mod fb { pub struct MockT; pub mod Mk { pub struct f; } }
#[allow(unused_imports)] use fb::*;
#[::entrait::entrait_export(pub T, unimock, mock_api = Mk, export = false)]
pub mod m {
    #[allow(unused_imports)] pub use super::fb::*;
    pub fn f<D>(deps: &D, a: i32) -> i32 { a }
    pub fn g<D>(deps: &D) -> u8 { 7 }
}
pub fn probe() -> (bool, bool) {
    (!::core::any::type_name::<m::Mk::f>().contains("::fb::"), !::core::any::type_name::<m::MockT>().contains("::fb::"))
}
