// entrait feature unimock: True
#[allow(non_camel_case_types, non_snake_case)]
pub mod fb { pub struct MockT; pub mod Mk { pub struct m; } pub mod TMock { pub struct m; } }
#[allow(unused_imports)] use fb::*;
#[::entrait::entrait_export()]
pub trait T {
    fn m(&self, a: i32) -> i32;
    fn n(&self) -> u8;
}
pub fn probe() -> (bool, bool) {
    (::vt::has_impl!(::unimock::Unimock: T), !::core::any::type_name::<MockT>().contains("::fb::"))
}
