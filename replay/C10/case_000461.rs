// entrait feature unimock: False
#[allow(non_camel_case_types, non_snake_case)]
pub mod fb { pub struct MockT; pub struct Mk; }
#[allow(unused_imports)] use fb::*;
#[::entrait::entrait_export(pub T, unimock, mock_api = Mk, export = false)]
fn f<D>(deps: &D, a: i32) -> i32 { a }
pub fn probe() -> (bool, bool) {
    (!::core::any::type_name::<Mk>().contains("::fb::"), !::core::any::type_name::<MockT>().contains("::fb::"))
}
