// entrait feature unimock: False
#[allow(non_camel_case_types, non_snake_case)]
pub mod fb { pub struct MockT; pub struct Mk; }
#[allow(unused_imports)] use fb::*;
#[::entrait::entrait_export(pub T, unimock = false, mock_api = Mk, mockall, export = false)]
fn f(deps: &crate::Conc, a: i32) -> i32 { a }
pub fn probe() -> (bool, bool) {
    ((!::core::any::type_name::<Mk>().contains("::fb::") || ::vt::has_impl!(::unimock::Unimock: T)), !::core::any::type_name::<MockT>().contains("::fb::"))
}
