use ::unimock::MockFn as _;
macro_rules! stamp { ($($item:tt)*) => { #[::entrait::entrait(pub T, mock_api = Mk, unimock, export, no_deps)] $($item)* } }
stamp! {
pub mod m {
    pub async fn f1(a1: i32) -> String {
        let __args: String = String::new() + &::vt::js(&format!("{:?}", a1));
        ::vt::emit("enter", &format!("\"f\":\"c000503::f1\",\"deps\":{},\"args\":[{}]", ::vt::js(&String::from("-")), __args));
        ::vt::yield_once().await;
        let __val = format!("c000503::f1({})", __args);
        ::vt::emit("exit", &format!("\"f\":\"c000503::f1\",\"val\":{}", ::vt::js(&__val)));
        __val
    }
    pub async fn f2(a1: i32) -> String {
        let __args: String = String::new() + &::vt::js(&format!("{:?}", a1));
        ::vt::emit("enter", &format!("\"f\":\"c000503::f2\",\"deps\":{},\"args\":[{}]", ::vt::js(&String::from("-")), __args));
        ::vt::yield_once().await;
        let __val = format!("c000503::f2({})", __args);
        ::vt::emit("exit", &format!("\"f\":\"c000503::f2\",\"val\":{}", ::vt::js(&__val)));
        __val
    }
    pub async fn f3(a1: i32) -> String {
        let __args: String = String::new() + &::vt::js(&format!("{:?}", a1));
        ::vt::emit("enter", &format!("\"f\":\"c000503::f3\",\"deps\":{},\"args\":[{}]", ::vt::js(&String::from("-")), __args));
        ::vt::yield_once().await;
        let __val = format!("c000503::f3({})", __args);
        ::vt::emit("exit", &format!("\"f\":\"c000503::f3\",\"val\":{}", ::vt::js(&__val)));
        __val
    }
}
}

pub fn run() {
    { ::vt::emit("scenario", "\"case\":\"c000503\",\"sc\":1");
      let u = ::unimock::Unimock::new(m::Mk::f1.each_call(::unimock::matching!(_)).answers(&|_, q1| { let __a: String = String::new() + &::vt::js(&format!("{:?}", q1)); ::vt::emit("answer", &format!("\"m\":\"f1\",\"args\":[{}]", __a)); String::from("ANSWER-f1") }));
      ::vt::emit("call", &format!("\"m\":\"f1\",\"recv\":{},\"args\":[\"-39\"]", ::vt::js(&::vt::addr(&u))));
      let r: String = ::vt::block_on(T::f1(&u, -39));
      ::vt::emit("ret", &format!("\"m\":\"f1\",\"val\":{}", ::vt::js(&r)));
      ::vt::emit("end", &format!("\"panicked\":false,\"result\":{}", ::vt::js(&r))); }
    { ::vt::emit("scenario", "\"case\":\"c000503\",\"sc\":2");
      let u = ::unimock::Unimock::new_partial(());
      ::vt::emit("call", &format!("\"m\":\"f1\",\"recv\":{},\"args\":[\"-39\"]", ::vt::js(&::vt::addr(&u))));
      let r: String = ::vt::block_on(T::f1(&u, -39));
      ::vt::emit("ret", &format!("\"m\":\"f1\",\"val\":{}", ::vt::js(&r)));
      ::vt::emit("end", &format!("\"panicked\":false,\"result\":{}", ::vt::js(&r))); }
    { ::vt::emit("scenario", "\"case\":\"c000503\",\"sc\":3");
      let app = ::entrait::Impl::new(crate::App { id: 3 });
      ::vt::emit("call", &format!("\"m\":\"f1\",\"recv\":{},\"args\":[\"-39\"]", ::vt::js(&::vt::addr(&app))));
      let fut = T::f1(&app, -39);
      ::vt::emit("future", "\"m\":\"f1\"");
      let r: String = ::vt::block_on(fut);
      ::vt::emit("ret", &format!("\"m\":\"f1\",\"val\":{}", ::vt::js(&r)));
      let __res = ::vt::js(&r);
      ::vt::emit("end", &format!("\"panicked\":false,\"result\":{}", __res)); }
    { ::vt::emit("scenario", "\"case\":\"c000503\",\"sc\":4");
      let u = ::unimock::Unimock::new(m::Mk::f2.each_call(::unimock::matching!(_)).answers(&|_, q1| { let __a: String = String::new() + &::vt::js(&format!("{:?}", q1)); ::vt::emit("answer", &format!("\"m\":\"f2\",\"args\":[{}]", __a)); String::from("ANSWER-f2") }));
      ::vt::emit("call", &format!("\"m\":\"f2\",\"recv\":{},\"args\":[\"-39\"]", ::vt::js(&::vt::addr(&u))));
      let r: String = ::vt::block_on(T::f2(&u, -39));
      ::vt::emit("ret", &format!("\"m\":\"f2\",\"val\":{}", ::vt::js(&r)));
      ::vt::emit("end", &format!("\"panicked\":false,\"result\":{}", ::vt::js(&r))); }
    { ::vt::emit("scenario", "\"case\":\"c000503\",\"sc\":5");
      let u = ::unimock::Unimock::new_partial(());
      ::vt::emit("call", &format!("\"m\":\"f2\",\"recv\":{},\"args\":[\"-39\"]", ::vt::js(&::vt::addr(&u))));
      let r: String = ::vt::block_on(T::f2(&u, -39));
      ::vt::emit("ret", &format!("\"m\":\"f2\",\"val\":{}", ::vt::js(&r)));
      ::vt::emit("end", &format!("\"panicked\":false,\"result\":{}", ::vt::js(&r))); }
    { ::vt::emit("scenario", "\"case\":\"c000503\",\"sc\":6");
      let app = ::entrait::Impl::new(crate::App { id: 6 });
      ::vt::emit("call", &format!("\"m\":\"f2\",\"recv\":{},\"args\":[\"-39\"]", ::vt::js(&::vt::addr(&app))));
      let fut = T::f2(&app, -39);
      ::vt::emit("future", "\"m\":\"f2\"");
      let r: String = ::vt::block_on(fut);
      ::vt::emit("ret", &format!("\"m\":\"f2\",\"val\":{}", ::vt::js(&r)));
      let __res = ::vt::js(&r);
      ::vt::emit("end", &format!("\"panicked\":false,\"result\":{}", __res)); }
    { ::vt::emit("scenario", "\"case\":\"c000503\",\"sc\":7");
      let u = ::unimock::Unimock::new(m::Mk::f3.each_call(::unimock::matching!(_)).answers(&|_, q1| { let __a: String = String::new() + &::vt::js(&format!("{:?}", q1)); ::vt::emit("answer", &format!("\"m\":\"f3\",\"args\":[{}]", __a)); String::from("ANSWER-f3") }));
      ::vt::emit("call", &format!("\"m\":\"f3\",\"recv\":{},\"args\":[\"-39\"]", ::vt::js(&::vt::addr(&u))));
      let r: String = ::vt::block_on(T::f3(&u, -39));
      ::vt::emit("ret", &format!("\"m\":\"f3\",\"val\":{}", ::vt::js(&r)));
      ::vt::emit("end", &format!("\"panicked\":false,\"result\":{}", ::vt::js(&r))); }
    { ::vt::emit("scenario", "\"case\":\"c000503\",\"sc\":8");
      let u = ::unimock::Unimock::new_partial(());
      ::vt::emit("call", &format!("\"m\":\"f3\",\"recv\":{},\"args\":[\"-39\"]", ::vt::js(&::vt::addr(&u))));
      let r: String = ::vt::block_on(T::f3(&u, -39));
      ::vt::emit("ret", &format!("\"m\":\"f3\",\"val\":{}", ::vt::js(&r)));
      ::vt::emit("end", &format!("\"panicked\":false,\"result\":{}", ::vt::js(&r))); }
    { ::vt::emit("scenario", "\"case\":\"c000503\",\"sc\":9");
      let app = ::entrait::Impl::new(crate::App { id: 9 });
      ::vt::emit("call", &format!("\"m\":\"f3\",\"recv\":{},\"args\":[\"-39\"]", ::vt::js(&::vt::addr(&app))));
      let fut = T::f3(&app, -39);
      ::vt::emit("future", "\"m\":\"f3\"");
      let r: String = ::vt::block_on(fut);
      ::vt::emit("ret", &format!("\"m\":\"f3\",\"val\":{}", ::vt::js(&r)));
      let __res = ::vt::js(&r);
      ::vt::emit("end", &format!("\"panicked\":false,\"result\":{}", __res)); }
}
