use ::unimock::MockFn as _;
macro_rules! stamp { ([$($params:tt)*] $body:block) => { #[::entrait::entrait(pub T, mock_api = Mk, unimock, export, no_deps)] fn f1($($params)*) -> String $body } }
stamp! { [r1: &str] {
    let __args: String = String::new() + &::vt::js(&r1.to_string());
    ::vt::emit("enter", &format!("\"f\":\"c000128::f1\",\"deps\":{},\"args\":[{}]", ::vt::js(&String::from("-")), __args));
    
    let __val = format!("c000128::f1({})", __args);
    ::vt::emit("exit", &format!("\"f\":\"c000128::f1\",\"val\":{}", ::vt::js(&__val)));
    __val
} }

pub fn run() {
    { ::vt::emit("scenario", "\"case\":\"c000128\",\"sc\":1");
      let u = ::unimock::Unimock::new(Mk.each_call(::unimock::matching!(_)).answers(&|_, q1| { let __a: String = String::new() + &::vt::js(&q1.to_string()); ::vt::emit("answer", &format!("\"m\":\"f1\",\"args\":[{}]", __a)); String::from("ANSWER-f1") }));
      ::vt::emit("call", &format!("\"m\":\"f1\",\"recv\":{},\"args\":[\"r-216\"]", ::vt::js(&::vt::addr(&u))));
      let r: String = T::f1(&u, "r-216");
      ::vt::emit("ret", &format!("\"m\":\"f1\",\"val\":{}", ::vt::js(&r)));
      ::vt::emit("end", &format!("\"panicked\":false,\"result\":{}", ::vt::js(&r))); }
    { ::vt::emit("scenario", "\"case\":\"c000128\",\"sc\":2");
      let u = ::unimock::Unimock::new_partial(());
      ::vt::emit("call", &format!("\"m\":\"f1\",\"recv\":{},\"args\":[\"r-216\"]", ::vt::js(&::vt::addr(&u))));
      let r: String = T::f1(&u, "r-216");
      ::vt::emit("ret", &format!("\"m\":\"f1\",\"val\":{}", ::vt::js(&r)));
      ::vt::emit("end", &format!("\"panicked\":false,\"result\":{}", ::vt::js(&r))); }
    { ::vt::emit("scenario", "\"case\":\"c000128\",\"sc\":3");
      let app = ::entrait::Impl::new(crate::App { id: 3 });
      ::vt::emit("call", &format!("\"m\":\"f1\",\"recv\":{},\"args\":[\"r-216\"]", ::vt::js(&::vt::addr(&app))));
      let r: String = T::f1(&app, "r-216");
      ::vt::emit("ret", &format!("\"m\":\"f1\",\"val\":{}", ::vt::js(&r)));
      let __res = ::vt::js(&r);
      ::vt::emit("end", &format!("\"panicked\":false,\"result\":{}", __res)); }
}
