use ::unimock::MockFn as _;
macro_rules! stamp { ($($item:tt)*) => { #[::entrait::entrait(pub T, mock_api = Mk, unimock, export, no_deps)] $($item)* } }
stamp! {
pub mod m {
    pub fn f1(s1: String) -> String {
        let __args: String = String::new() + &::vt::js(&s1.clone());
        ::vt::emit("enter", &format!("\"f\":\"c000464::f1\",\"deps\":{},\"args\":[{}]", ::vt::js(&String::from("-")), __args));
        
        let __val = format!("c000464::f1({})", __args);
        ::vt::emit("exit", &format!("\"f\":\"c000464::f1\",\"val\":{}", ::vt::js(&__val)));
        __val
    }
    pub fn f2(s1: String) -> String {
        let __args: String = String::new() + &::vt::js(&s1.clone());
        ::vt::emit("enter", &format!("\"f\":\"c000464::f2\",\"deps\":{},\"args\":[{}]", ::vt::js(&String::from("-")), __args));
        
        let __val = format!("c000464::f2({})", __args);
        ::vt::emit("exit", &format!("\"f\":\"c000464::f2\",\"val\":{}", ::vt::js(&__val)));
        __val
    }
    pub fn f3(s1: String) -> String {
        let __args: String = String::new() + &::vt::js(&s1.clone());
        ::vt::emit("enter", &format!("\"f\":\"c000464::f3\",\"deps\":{},\"args\":[{}]", ::vt::js(&String::from("-")), __args));
        
        let __val = format!("c000464::f3({})", __args);
        ::vt::emit("exit", &format!("\"f\":\"c000464::f3\",\"val\":{}", ::vt::js(&__val)));
        __val
    }
}
}

pub fn run() {
    { ::vt::emit("scenario", "\"case\":\"c000464\",\"sc\":1");
      let u = ::unimock::Unimock::new(m::Mk::f1.each_call(::unimock::matching!(_)).answers(&|_, q1| { let __a: String = String::new() + &::vt::js(&q1.to_string()); ::vt::emit("answer", &format!("\"m\":\"f1\",\"args\":[{}]", __a)); String::from("ANSWER-f1") }));
      ::vt::emit("call", &format!("\"m\":\"f1\",\"recv\":{},\"args\":[\"s108\"]", ::vt::js(&::vt::addr(&u))));
      let r: String = T::f1(&u, String::from("s108"));
      ::vt::emit("ret", &format!("\"m\":\"f1\",\"val\":{}", ::vt::js(&r)));
      ::vt::emit("end", &format!("\"panicked\":false,\"result\":{}", ::vt::js(&r))); }
    { ::vt::emit("scenario", "\"case\":\"c000464\",\"sc\":2");
      let u = ::unimock::Unimock::new_partial(());
      ::vt::emit("call", &format!("\"m\":\"f1\",\"recv\":{},\"args\":[\"s108\"]", ::vt::js(&::vt::addr(&u))));
      let r: String = T::f1(&u, String::from("s108"));
      ::vt::emit("ret", &format!("\"m\":\"f1\",\"val\":{}", ::vt::js(&r)));
      ::vt::emit("end", &format!("\"panicked\":false,\"result\":{}", ::vt::js(&r))); }
    { ::vt::emit("scenario", "\"case\":\"c000464\",\"sc\":3");
      let app = ::entrait::Impl::new(crate::App { id: 3 });
      ::vt::emit("call", &format!("\"m\":\"f1\",\"recv\":{},\"args\":[\"s108\"]", ::vt::js(&::vt::addr(&app))));
      let r: String = T::f1(&app, String::from("s108"));
      ::vt::emit("ret", &format!("\"m\":\"f1\",\"val\":{}", ::vt::js(&r)));
      let __res = ::vt::js(&r);
      ::vt::emit("end", &format!("\"panicked\":false,\"result\":{}", __res)); }
    { ::vt::emit("scenario", "\"case\":\"c000464\",\"sc\":4");
      let u = ::unimock::Unimock::new(m::Mk::f2.each_call(::unimock::matching!(_)).answers(&|_, q1| { let __a: String = String::new() + &::vt::js(&q1.to_string()); ::vt::emit("answer", &format!("\"m\":\"f2\",\"args\":[{}]", __a)); String::from("ANSWER-f2") }));
      ::vt::emit("call", &format!("\"m\":\"f2\",\"recv\":{},\"args\":[\"s108\"]", ::vt::js(&::vt::addr(&u))));
      let r: String = T::f2(&u, String::from("s108"));
      ::vt::emit("ret", &format!("\"m\":\"f2\",\"val\":{}", ::vt::js(&r)));
      ::vt::emit("end", &format!("\"panicked\":false,\"result\":{}", ::vt::js(&r))); }
    { ::vt::emit("scenario", "\"case\":\"c000464\",\"sc\":5");
      let u = ::unimock::Unimock::new_partial(());
      ::vt::emit("call", &format!("\"m\":\"f2\",\"recv\":{},\"args\":[\"s108\"]", ::vt::js(&::vt::addr(&u))));
      let r: String = T::f2(&u, String::from("s108"));
      ::vt::emit("ret", &format!("\"m\":\"f2\",\"val\":{}", ::vt::js(&r)));
      ::vt::emit("end", &format!("\"panicked\":false,\"result\":{}", ::vt::js(&r))); }
    { ::vt::emit("scenario", "\"case\":\"c000464\",\"sc\":6");
      let app = ::entrait::Impl::new(crate::App { id: 6 });
      ::vt::emit("call", &format!("\"m\":\"f2\",\"recv\":{},\"args\":[\"s108\"]", ::vt::js(&::vt::addr(&app))));
      let r: String = T::f2(&app, String::from("s108"));
      ::vt::emit("ret", &format!("\"m\":\"f2\",\"val\":{}", ::vt::js(&r)));
      let __res = ::vt::js(&r);
      ::vt::emit("end", &format!("\"panicked\":false,\"result\":{}", __res)); }
    { ::vt::emit("scenario", "\"case\":\"c000464\",\"sc\":7");
      let u = ::unimock::Unimock::new(m::Mk::f3.each_call(::unimock::matching!(_)).answers(&|_, q1| { let __a: String = String::new() + &::vt::js(&q1.to_string()); ::vt::emit("answer", &format!("\"m\":\"f3\",\"args\":[{}]", __a)); String::from("ANSWER-f3") }));
      ::vt::emit("call", &format!("\"m\":\"f3\",\"recv\":{},\"args\":[\"s108\"]", ::vt::js(&::vt::addr(&u))));
      let r: String = T::f3(&u, String::from("s108"));
      ::vt::emit("ret", &format!("\"m\":\"f3\",\"val\":{}", ::vt::js(&r)));
      ::vt::emit("end", &format!("\"panicked\":false,\"result\":{}", ::vt::js(&r))); }
    { ::vt::emit("scenario", "\"case\":\"c000464\",\"sc\":8");
      let u = ::unimock::Unimock::new_partial(());
      ::vt::emit("call", &format!("\"m\":\"f3\",\"recv\":{},\"args\":[\"s108\"]", ::vt::js(&::vt::addr(&u))));
      let r: String = T::f3(&u, String::from("s108"));
      ::vt::emit("ret", &format!("\"m\":\"f3\",\"val\":{}", ::vt::js(&r)));
      ::vt::emit("end", &format!("\"panicked\":false,\"result\":{}", ::vt::js(&r))); }
    { ::vt::emit("scenario", "\"case\":\"c000464\",\"sc\":9");
      let app = ::entrait::Impl::new(crate::App { id: 9 });
      ::vt::emit("call", &format!("\"m\":\"f3\",\"recv\":{},\"args\":[\"s108\"]", ::vt::js(&::vt::addr(&app))));
      let r: String = T::f3(&app, String::from("s108"));
      ::vt::emit("ret", &format!("\"m\":\"f3\",\"val\":{}", ::vt::js(&r)));
      let __res = ::vt::js(&r);
      ::vt::emit("end", &format!("\"panicked\":false,\"result\":{}", __res)); }
}
