use ::unimock::MockFn as _;
#[::entrait::entrait(pub T, mock_api = Mk, unimock, export)]
pub mod m {
    pub fn f1<D>(deps: &D, r1: &str, s2: String) -> String {
        let __args: String = String::new() + &::vt::js(&r1.to_string()) + "," + &::vt::js(&s2.clone());
        ::vt::emit("enter", &format!("\"f\":\"c000175::f1\",\"deps\":{},\"args\":[{}]", ::vt::js(&::vt::addr(deps)), __args));
        
        let __val = format!("c000175::f1({})", __args);
        ::vt::emit("exit", &format!("\"f\":\"c000175::f1\",\"val\":{}", ::vt::js(&__val)));
        __val
    }
    pub fn f2<D>(deps: &D, r1: &str, s2: String) -> String {
        let __args: String = String::new() + &::vt::js(&r1.to_string()) + "," + &::vt::js(&s2.clone());
        ::vt::emit("enter", &format!("\"f\":\"c000175::f2\",\"deps\":{},\"args\":[{}]", ::vt::js(&::vt::addr(deps)), __args));
        
        let __val = format!("c000175::f2({})", __args);
        ::vt::emit("exit", &format!("\"f\":\"c000175::f2\",\"val\":{}", ::vt::js(&__val)));
        __val
    }
}

pub fn run() {
    { ::vt::emit("scenario", "\"case\":\"c000175\",\"sc\":1");
      let u = ::unimock::Unimock::new(m::Mk::f1.each_call(::unimock::matching!(_, _)).answers(&|_, q1, q2| { let __a: String = String::new() + &::vt::js(&q1.to_string()) + "," + &::vt::js(&q2.to_string()); ::vt::emit("answer", &format!("\"m\":\"f1\",\"args\":[{}]", __a)); String::from("ANSWER-f1") }));
      ::vt::emit("call", &format!("\"m\":\"f1\",\"recv\":{},\"args\":[\"r-189\",\"s440\"]", ::vt::js(&::vt::addr(&u))));
      let r: String = T::f1(&u, "r-189", String::from("s440"));
      ::vt::emit("ret", &format!("\"m\":\"f1\",\"val\":{}", ::vt::js(&r)));
      ::vt::emit("end", &format!("\"panicked\":false,\"result\":{}", ::vt::js(&r))); }
    { ::vt::emit("scenario", "\"case\":\"c000175\",\"sc\":2");
      let u = ::unimock::Unimock::new_partial(());
      ::vt::emit("call", &format!("\"m\":\"f1\",\"recv\":{},\"args\":[\"r-189\",\"s440\"]", ::vt::js(&::vt::addr(&u))));
      let r: String = T::f1(&u, "r-189", String::from("s440"));
      ::vt::emit("ret", &format!("\"m\":\"f1\",\"val\":{}", ::vt::js(&r)));
      ::vt::emit("end", &format!("\"panicked\":false,\"result\":{}", ::vt::js(&r))); }
    { ::vt::emit("scenario", "\"case\":\"c000175\",\"sc\":3");
      let app = ::entrait::Impl::new(crate::App { id: 3 });
      ::vt::emit("call", &format!("\"m\":\"f1\",\"recv\":{},\"args\":[\"r-189\",\"s440\"]", ::vt::js(&::vt::addr(&app))));
      let r: String = T::f1(&app, "r-189", String::from("s440"));
      ::vt::emit("ret", &format!("\"m\":\"f1\",\"val\":{}", ::vt::js(&r)));
      let __res = ::vt::js(&r);
      ::vt::emit("end", &format!("\"panicked\":false,\"result\":{}", __res)); }
    { ::vt::emit("scenario", "\"case\":\"c000175\",\"sc\":4");
      let u = ::unimock::Unimock::new(m::Mk::f2.each_call(::unimock::matching!(_, _)).answers(&|_, q1, q2| { let __a: String = String::new() + &::vt::js(&q1.to_string()) + "," + &::vt::js(&q2.to_string()); ::vt::emit("answer", &format!("\"m\":\"f2\",\"args\":[{}]", __a)); String::from("ANSWER-f2") }));
      ::vt::emit("call", &format!("\"m\":\"f2\",\"recv\":{},\"args\":[\"r-189\",\"s440\"]", ::vt::js(&::vt::addr(&u))));
      let r: String = T::f2(&u, "r-189", String::from("s440"));
      ::vt::emit("ret", &format!("\"m\":\"f2\",\"val\":{}", ::vt::js(&r)));
      ::vt::emit("end", &format!("\"panicked\":false,\"result\":{}", ::vt::js(&r))); }
    { ::vt::emit("scenario", "\"case\":\"c000175\",\"sc\":5");
      let u = ::unimock::Unimock::new_partial(());
      ::vt::emit("call", &format!("\"m\":\"f2\",\"recv\":{},\"args\":[\"r-189\",\"s440\"]", ::vt::js(&::vt::addr(&u))));
      let r: String = T::f2(&u, "r-189", String::from("s440"));
      ::vt::emit("ret", &format!("\"m\":\"f2\",\"val\":{}", ::vt::js(&r)));
      ::vt::emit("end", &format!("\"panicked\":false,\"result\":{}", ::vt::js(&r))); }
    { ::vt::emit("scenario", "\"case\":\"c000175\",\"sc\":6");
      let app = ::entrait::Impl::new(crate::App { id: 6 });
      ::vt::emit("call", &format!("\"m\":\"f2\",\"recv\":{},\"args\":[\"r-189\",\"s440\"]", ::vt::js(&::vt::addr(&app))));
      let r: String = T::f2(&app, "r-189", String::from("s440"));
      ::vt::emit("ret", &format!("\"m\":\"f2\",\"val\":{}", ::vt::js(&r)));
      let __res = ::vt::js(&r);
      ::vt::emit("end", &format!("\"panicked\":false,\"result\":{}", __res)); }
}
