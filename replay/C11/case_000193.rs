use ::unimock::MockFn as _;
macro_rules! stamp { ([$($params:tt)*] $body:block) => { #[::entrait::entrait(pub T, mock_api = Mk, unimock, export, no_deps)] async fn f1($($params)*) -> String $body } }
stamp! { [s1: String, r2: &str] {
    let __args: String = String::new() + &::vt::js(&s1.clone()) + "," + &::vt::js(&r2.to_string());
    ::vt::emit("enter", &format!("\"f\":\"c000193::f1\",\"deps\":{},\"args\":[{}]", ::vt::js(&String::from("-")), __args));
    ::vt::yield_once().await;
    let __val = format!("c000193::f1({})", __args);
    ::vt::emit("exit", &format!("\"f\":\"c000193::f1\",\"val\":{}", ::vt::js(&__val)));
    __val
} }

pub fn run() {
    { ::vt::emit("scenario", "\"case\":\"c000193\",\"sc\":1");
      let u = ::unimock::Unimock::new(Mk.each_call(::unimock::matching!(_, _)).answers(&|_, q1, q2| { let __a: String = String::new() + &::vt::js(&q1.to_string()) + "," + &::vt::js(&q2.to_string()); ::vt::emit("answer", &format!("\"m\":\"f1\",\"args\":[{}]", __a)); String::from("ANSWER-f1") }));
      ::vt::emit("call", &format!("\"m\":\"f1\",\"recv\":{},\"args\":[\"s105\",\"r42\"]", ::vt::js(&::vt::addr(&u))));
      let r: String = ::vt::block_on(T::f1(&u, String::from("s105"), "r42"));
      ::vt::emit("ret", &format!("\"m\":\"f1\",\"val\":{}", ::vt::js(&r)));
      ::vt::emit("end", &format!("\"panicked\":false,\"result\":{}", ::vt::js(&r))); }
    { ::vt::emit("scenario", "\"case\":\"c000193\",\"sc\":2");
      let u = ::unimock::Unimock::new_partial(());
      ::vt::emit("call", &format!("\"m\":\"f1\",\"recv\":{},\"args\":[\"s105\",\"r42\"]", ::vt::js(&::vt::addr(&u))));
      let r: String = ::vt::block_on(T::f1(&u, String::from("s105"), "r42"));
      ::vt::emit("ret", &format!("\"m\":\"f1\",\"val\":{}", ::vt::js(&r)));
      ::vt::emit("end", &format!("\"panicked\":false,\"result\":{}", ::vt::js(&r))); }
    { ::vt::emit("scenario", "\"case\":\"c000193\",\"sc\":3");
      let app = ::entrait::Impl::new(crate::App { id: 3 });
      ::vt::emit("call", &format!("\"m\":\"f1\",\"recv\":{},\"args\":[\"s105\",\"r42\"]", ::vt::js(&::vt::addr(&app))));
      let fut = T::f1(&app, String::from("s105"), "r42");
      ::vt::emit("future", "\"m\":\"f1\"");
      let r: String = ::vt::block_on(fut);
      ::vt::emit("ret", &format!("\"m\":\"f1\",\"val\":{}", ::vt::js(&r)));
      let __res = ::vt::js(&r);
      ::vt::emit("end", &format!("\"panicked\":false,\"result\":{}", __res)); }
}
