// feature unimock: True
#[::entrait::entrait(pub T)]
fn f1<D>(deps: &D, (x1, y1): (i32, i32), s2: String) -> String {
    let __args: String = String::new() + &::vt::js(&format!("{:?}", x1)) + "," + &::vt::js(&format!("{:?}", y1)) + "," + &::vt::js(&s2.clone());
    ::vt::emit("enter", &format!("\"f\":\"c000091::f1\",\"deps\":{},\"args\":[{}]", ::vt::js(&::vt::addr(deps)), __args));
    
    let __val = format!("c000091::f1({})", __args);
    ::vt::emit("exit", &format!("\"f\":\"c000091::f1\",\"val\":{}", ::vt::js(&__val)));
    __val
}

pub fn run() {
    { ::vt::emit("scenario", "\"case\":\"c000091\",\"sc\":1");
      let app = ::entrait::Impl::new(crate::App { id: 1 });
      ::vt::emit("call", &format!("\"m\":\"f1\",\"recv\":{},\"args\":[\"244\",\"482\",\"s-301\"]", ::vt::js(&::vt::addr(&app))));
      let r: String = f1(&app, (244, 482), String::from("s-301"));
      ::vt::emit("ret", &format!("\"m\":\"f1\",\"val\":{}", ::vt::js(&r)));
      let __res = ::vt::js(&r);
      ::vt::emit("end", &format!("\"panicked\":false,\"result\":{}", __res)); }
    { ::vt::emit("scenario", "\"case\":\"c000091\",\"sc\":2");
      let app = ::entrait::Impl::new(crate::App { id: 2 });
      ::vt::emit("call", &format!("\"m\":\"f1\",\"recv\":{},\"args\":[\"244\",\"482\",\"s-301\"]", ::vt::js(&::vt::addr(&app))));
      let r: String = T::f1(&app, (244, 482), String::from("s-301"));
      ::vt::emit("ret", &format!("\"m\":\"f1\",\"val\":{}", ::vt::js(&r)));
      let __res = ::vt::js(&r);
      ::vt::emit("end", &format!("\"panicked\":false,\"result\":{}", __res)); }
}
