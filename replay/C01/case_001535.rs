// feature unimock: True
macro_rules! define_item { ($p:ident) => {
#[::entrait::entrait(pub T, no_deps)]
fn f1($p: i32, a2: i32) -> String {
    let __args: String = String::new() + &::vt::js(&format!("{:?}", $p)) + "," + &::vt::js(&format!("{:?}", a2));
    ::vt::emit("enter", &format!("\"f\":\"c001535::f1\",\"deps\":{},\"args\":[{}]", ::vt::js(&String::from("-")), __args));
    
    let __val = format!("c001535::f1({})", __args);
    ::vt::emit("exit", &format!("\"f\":\"c001535::f1\",\"val\":{}", ::vt::js(&__val)));
    __val
}

} }
define_item!(a2);

pub fn run() {
    { ::vt::emit("scenario", "\"case\":\"c001535\",\"sc\":1");
      let app = ::entrait::Impl::new(crate::App { id: 1 });
      ::vt::emit("call", &format!("\"m\":\"f1\",\"recv\":{},\"args\":[\"345\",\"439\"]", ::vt::js(&::vt::addr(&app))));
      let r: String = f1(345, 439);
      ::vt::emit("ret", &format!("\"m\":\"f1\",\"val\":{}", ::vt::js(&r)));
      let __res = ::vt::js(&r);
      ::vt::emit("end", &format!("\"panicked\":false,\"result\":{}", __res)); }
    { ::vt::emit("scenario", "\"case\":\"c001535\",\"sc\":2");
      let app = ::entrait::Impl::new(crate::App { id: 2 });
      ::vt::emit("call", &format!("\"m\":\"f1\",\"recv\":{},\"args\":[\"345\",\"439\"]", ::vt::js(&::vt::addr(&app))));
      let r: String = T::f1(&app, 345, 439);
      ::vt::emit("ret", &format!("\"m\":\"f1\",\"val\":{}", ::vt::js(&r)));
      let __res = ::vt::js(&r);
      ::vt::emit("end", &format!("\"panicked\":false,\"result\":{}", __res)); }
}
