// feature unimock: False
#[::entrait::entrait(pub T)]
fn f1<D>(deps: &D, (x1, y1): (i32, i32), (x2, y2): (i32, i32)) -> String {
    let __args: String = String::new() + &::vt::js(&format!("{:?}", x1)) + "," + &::vt::js(&format!("{:?}", y1)) + "," + &::vt::js(&format!("{:?}", x2)) + "," + &::vt::js(&format!("{:?}", y2));
    ::vt::emit("enter", &format!("\"f\":\"c000095::f1\",\"deps\":{},\"args\":[{}]", ::vt::js(&::vt::addr(deps)), __args));
    
    let __val = format!("c000095::f1({})", __args);
    ::vt::emit("exit", &format!("\"f\":\"c000095::f1\",\"val\":{}", ::vt::js(&__val)));
    __val
}

pub fn run() {
    { ::vt::emit("scenario", "\"case\":\"c000095\",\"sc\":1");
      let app = ::entrait::Impl::new(crate::App { id: 1 });
      ::vt::emit("call", &format!("\"m\":\"f1\",\"recv\":{},\"args\":[\"150\",\"-376\",\"408\",\"5\"]", ::vt::js(&::vt::addr(&app))));
      let r: String = f1(&app, (150, -376), (408, 5));
      ::vt::emit("ret", &format!("\"m\":\"f1\",\"val\":{}", ::vt::js(&r)));
      let __res = ::vt::js(&r);
      ::vt::emit("end", &format!("\"panicked\":false,\"result\":{}", __res)); }
    { ::vt::emit("scenario", "\"case\":\"c000095\",\"sc\":2");
      let app = ::entrait::Impl::new(crate::App { id: 2 });
      ::vt::emit("call", &format!("\"m\":\"f1\",\"recv\":{},\"args\":[\"150\",\"-376\",\"408\",\"5\"]", ::vt::js(&::vt::addr(&app))));
      let r: String = T::f1(&app, (150, -376), (408, 5));
      ::vt::emit("ret", &format!("\"m\":\"f1\",\"val\":{}", ::vt::js(&r)));
      let __res = ::vt::js(&r);
      ::vt::emit("end", &format!("\"panicked\":false,\"result\":{}", __res)); }
}
