// feature unimock: False
macro_rules! define_item { ($p:ident) => {
#[::entrait::entrait(pub T)]
pub mod m {
    pub fn f1<D: crate::HasId>(deps: D, $p: i32, a2: i32) -> String {
        let __args: String = String::new() + &::vt::js(&format!("{:?}", $p)) + "," + &::vt::js(&format!("{:?}", a2));
        ::vt::emit("enter", &format!("\"f\":\"c002437::f1\",\"deps\":{},\"args\":[{}]", ::vt::js(&crate::HasId::id(&deps)), __args));
        
        let __val = format!("c002437::f1({})", __args);
        ::vt::emit("exit", &format!("\"f\":\"c002437::f1\",\"val\":{}", ::vt::js(&__val)));
        __val
    }
    pub fn f2<D: crate::HasId>(deps: D, $p: i32, a2: i32) -> String {
        let __args: String = String::new() + &::vt::js(&format!("{:?}", $p)) + "," + &::vt::js(&format!("{:?}", a2));
        ::vt::emit("enter", &format!("\"f\":\"c002437::f2\",\"deps\":{},\"args\":[{}]", ::vt::js(&crate::HasId::id(&deps)), __args));
        
        let __val = format!("c002437::f2({})", __args);
        ::vt::emit("exit", &format!("\"f\":\"c002437::f2\",\"val\":{}", ::vt::js(&__val)));
        __val
    }
}

} }
define_item!(a2);

pub fn run() {
    { ::vt::emit("scenario", "\"case\":\"c002437\",\"sc\":1");
      let app = ::entrait::Impl::new(crate::App { id: 1 });
      ::vt::emit("call", &format!("\"m\":\"f1\",\"recv\":{},\"args\":[\"17\",\"-182\"]", ::vt::js(&crate::HasId::id(&app))));
      let r: String = m::f1(app, 17, -182);
      ::vt::emit("ret", &format!("\"m\":\"f1\",\"val\":{}", ::vt::js(&r)));
      let __res = ::vt::js(&r);
      ::vt::emit("end", &format!("\"panicked\":false,\"result\":{}", __res)); }
    { ::vt::emit("scenario", "\"case\":\"c002437\",\"sc\":2");
      let app = ::entrait::Impl::new(crate::App { id: 2 });
      ::vt::emit("call", &format!("\"m\":\"f1\",\"recv\":{},\"args\":[\"17\",\"-182\"]", ::vt::js(&crate::HasId::id(&app))));
      let r: String = T::f1(app, 17, -182);
      ::vt::emit("ret", &format!("\"m\":\"f1\",\"val\":{}", ::vt::js(&r)));
      let __res = ::vt::js(&r);
      ::vt::emit("end", &format!("\"panicked\":false,\"result\":{}", __res)); }
    { ::vt::emit("scenario", "\"case\":\"c002437\",\"sc\":3");
      let app = ::entrait::Impl::new(crate::App { id: 3 });
      ::vt::emit("call", &format!("\"m\":\"f2\",\"recv\":{},\"args\":[\"17\",\"-182\"]", ::vt::js(&crate::HasId::id(&app))));
      let r: String = m::f2(app, 17, -182);
      ::vt::emit("ret", &format!("\"m\":\"f2\",\"val\":{}", ::vt::js(&r)));
      let __res = ::vt::js(&r);
      ::vt::emit("end", &format!("\"panicked\":false,\"result\":{}", __res)); }
    { ::vt::emit("scenario", "\"case\":\"c002437\",\"sc\":4");
      let app = ::entrait::Impl::new(crate::App { id: 4 });
      ::vt::emit("call", &format!("\"m\":\"f2\",\"recv\":{},\"args\":[\"17\",\"-182\"]", ::vt::js(&crate::HasId::id(&app))));
      let r: String = T::f2(app, 17, -182);
      ::vt::emit("ret", &format!("\"m\":\"f2\",\"val\":{}", ::vt::js(&r)));
      let __res = ::vt::js(&r);
      ::vt::emit("end", &format!("\"panicked\":false,\"result\":{}", __res)); }
}
