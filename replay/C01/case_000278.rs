// feature unimock: True
#[::entrait::entrait(pub T, export)]
async fn f1<D, G1x2: ::core::fmt::Debug + Send>(deps: &D, _: i32, g2: G1x2) -> String {
    let __args: String = String::new() + &::vt::js(&String::from("_")) + "," + &::vt::js(&format!("{:?}", g2));
    ::vt::emit("enter", &format!("\"f\":\"c000278::f1\",\"deps\":{},\"args\":[{}]", ::vt::js(&::vt::addr(deps)), __args));
    ::vt::yield_once().await;
    let __val = format!("c000278::f1({})", __args);
    ::vt::emit("exit", &format!("\"f\":\"c000278::f1\",\"val\":{}", ::vt::js(&__val)));
    __val
}

pub fn run() {
    { ::vt::emit("scenario", "\"case\":\"c000278\",\"sc\":1");
      let app = ::entrait::Impl::new(crate::App { id: 1 });
      ::vt::emit("call", &format!("\"m\":\"f1\",\"recv\":{},\"args\":[\"_\",\"-492\"]", ::vt::js(&::vt::addr(&app))));
      let fut = f1(&app, 319, -492);
      ::vt::emit("future", "\"m\":\"f1\"");
      let r: String = ::vt::block_on(fut);
      ::vt::emit("ret", &format!("\"m\":\"f1\",\"val\":{}", ::vt::js(&r)));
      let __res = ::vt::js(&r);
      ::vt::emit("end", &format!("\"panicked\":false,\"result\":{}", __res)); }
    { ::vt::emit("scenario", "\"case\":\"c000278\",\"sc\":2");
      let app = ::entrait::Impl::new(crate::App { id: 2 });
      ::vt::emit("call", &format!("\"m\":\"f1\",\"recv\":{},\"args\":[\"_\",\"-492\"]", ::vt::js(&::vt::addr(&app))));
      let fut = T::f1(&app, 319, -492);
      ::vt::emit("future", "\"m\":\"f1\"");
      let r: String = ::vt::block_on(fut);
      ::vt::emit("ret", &format!("\"m\":\"f1\",\"val\":{}", ::vt::js(&r)));
      let __res = ::vt::js(&r);
      ::vt::emit("end", &format!("\"panicked\":false,\"result\":{}", __res)); }
    { ::vt::emit("scenario", "\"case\":\"c000278\",\"sc\":3");
      let app = ::entrait::Impl::new(crate::App { id: 3 });
      ::vt::emit("call", &format!("\"m\":\"f1\",\"recv\":{},\"args\":[\"_\",\"-492\"]", ::vt::js(&::vt::addr(&app))));
      let fut = T::f1(&app, 319, -492);
      drop(fut);
      ::vt::emit("dropped", "\"m\":\"f1\"");
      ::vt::emit("end", "\"panicked\":false,\"result\":\"\""); }
}
