// feature unimock: False
macro_rules! define_item { ($p:ident) => {
#[::entrait::entrait(pub T)]
pub mod m {
    pub fn f1(deps: &impl crate::Marker, $p: i32, a2: i32) -> String {
        let __args: String = String::new() + &::vt::js(&format!("{:?}", $p)) + "," + &::vt::js(&format!("{:?}", a2));
        ::vt::emit("enter", &format!("\"f\":\"c004534::f1\",\"deps\":{},\"args\":[{}]", ::vt::js(&::vt::addr(deps)), __args));
        
        let __val = format!("c004534::f1({})", __args);
        ::vt::emit("exit", &format!("\"f\":\"c004534::f1\",\"val\":{}", ::vt::js(&__val)));
        __val
    }
    pub fn f2(deps: &impl crate::Marker, $p: i32, a2: i32) -> String {
        let __args: String = String::new() + &::vt::js(&format!("{:?}", $p)) + "," + &::vt::js(&format!("{:?}", a2));
        ::vt::emit("enter", &format!("\"f\":\"c004534::f2\",\"deps\":{},\"args\":[{}]", ::vt::js(&::vt::addr(deps)), __args));
        
        let __val = format!("c004534::f2({})", __args);
        ::vt::emit("exit", &format!("\"f\":\"c004534::f2\",\"val\":{}", ::vt::js(&__val)));
        __val
    }
    pub fn f3(deps: &impl crate::Marker, $p: i32, a2: i32) -> String {
        let __args: String = String::new() + &::vt::js(&format!("{:?}", $p)) + "," + &::vt::js(&format!("{:?}", a2));
        ::vt::emit("enter", &format!("\"f\":\"c004534::f3\",\"deps\":{},\"args\":[{}]", ::vt::js(&::vt::addr(deps)), __args));
        
        let __val = format!("c004534::f3({})", __args);
        ::vt::emit("exit", &format!("\"f\":\"c004534::f3\",\"val\":{}", ::vt::js(&__val)));
        __val
    }
}

} }
define_item!(a2);

pub fn run() {
    { ::vt::emit("scenario", "\"case\":\"c004534\",\"sc\":1");
      let app = ::entrait::Impl::new(crate::App { id: 1 });
      ::vt::emit("call", &format!("\"m\":\"f1\",\"recv\":{},\"args\":[\"9\",\"154\"]", ::vt::js(&::vt::addr(&app))));
      let r: String = m::f1(&app, 9, 154);
      ::vt::emit("ret", &format!("\"m\":\"f1\",\"val\":{}", ::vt::js(&r)));
      let __res = ::vt::js(&r);
      ::vt::emit("end", &format!("\"panicked\":false,\"result\":{}", __res)); }
    { ::vt::emit("scenario", "\"case\":\"c004534\",\"sc\":2");
      let app = ::entrait::Impl::new(crate::App { id: 2 });
      ::vt::emit("call", &format!("\"m\":\"f1\",\"recv\":{},\"args\":[\"9\",\"154\"]", ::vt::js(&::vt::addr(&app))));
      let r: String = T::f1(&app, 9, 154);
      ::vt::emit("ret", &format!("\"m\":\"f1\",\"val\":{}", ::vt::js(&r)));
      let __res = ::vt::js(&r);
      ::vt::emit("end", &format!("\"panicked\":false,\"result\":{}", __res)); }
    { ::vt::emit("scenario", "\"case\":\"c004534\",\"sc\":3");
      let app = ::entrait::Impl::new(crate::App { id: 3 });
      ::vt::emit("call", &format!("\"m\":\"f2\",\"recv\":{},\"args\":[\"9\",\"154\"]", ::vt::js(&::vt::addr(&app))));
      let r: String = m::f2(&app, 9, 154);
      ::vt::emit("ret", &format!("\"m\":\"f2\",\"val\":{}", ::vt::js(&r)));
      let __res = ::vt::js(&r);
      ::vt::emit("end", &format!("\"panicked\":false,\"result\":{}", __res)); }
    { ::vt::emit("scenario", "\"case\":\"c004534\",\"sc\":4");
      let app = ::entrait::Impl::new(crate::App { id: 4 });
      ::vt::emit("call", &format!("\"m\":\"f2\",\"recv\":{},\"args\":[\"9\",\"154\"]", ::vt::js(&::vt::addr(&app))));
      let r: String = T::f2(&app, 9, 154);
      ::vt::emit("ret", &format!("\"m\":\"f2\",\"val\":{}", ::vt::js(&r)));
      let __res = ::vt::js(&r);
      ::vt::emit("end", &format!("\"panicked\":false,\"result\":{}", __res)); }
    { ::vt::emit("scenario", "\"case\":\"c004534\",\"sc\":5");
      let app = ::entrait::Impl::new(crate::App { id: 5 });
      ::vt::emit("call", &format!("\"m\":\"f3\",\"recv\":{},\"args\":[\"9\",\"154\"]", ::vt::js(&::vt::addr(&app))));
      let r: String = m::f3(&app, 9, 154);
      ::vt::emit("ret", &format!("\"m\":\"f3\",\"val\":{}", ::vt::js(&r)));
      let __res = ::vt::js(&r);
      ::vt::emit("end", &format!("\"panicked\":false,\"result\":{}", __res)); }
    { ::vt::emit("scenario", "\"case\":\"c004534\",\"sc\":6");
      let app = ::entrait::Impl::new(crate::App { id: 6 });
      ::vt::emit("call", &format!("\"m\":\"f3\",\"recv\":{},\"args\":[\"9\",\"154\"]", ::vt::js(&::vt::addr(&app))));
      let r: String = T::f3(&app, 9, 154);
      ::vt::emit("ret", &format!("\"m\":\"f3\",\"val\":{}", ::vt::js(&r)));
      let __res = ::vt::js(&r);
      ::vt::emit("end", &format!("\"panicked\":false,\"result\":{}", __res)); }
}
