// feature unimock: False
#[::entrait::entrait(pub T, ?Send)]
async fn f1<D>(deps: &D, r1: &str, r2: &str) -> String {
    let __args: String = String::new() + &::vt::js(&r1.to_string()) + "," + &::vt::js(&r2.to_string());
    ::vt::emit("enter", &format!("\"f\":\"c000168::f1\",\"deps\":{},\"args\":[{}]", ::vt::js(&::vt::addr(deps)), __args));
    ::vt::yield_once().await;
    let __val = format!("c000168::f1({})", __args);
    ::vt::emit("exit", &format!("\"f\":\"c000168::f1\",\"val\":{}", ::vt::js(&__val)));
    __val
}

pub fn run() {
    { ::vt::emit("scenario", "\"case\":\"c000168\",\"sc\":1");
      let app = ::entrait::Impl::new(crate::App { id: 1 });
      ::vt::emit("call", &format!("\"m\":\"f1\",\"recv\":{},\"args\":[\"r-95\",\"r-45\"]", ::vt::js(&::vt::addr(&app))));
      let fut = f1(&app, "r-95", "r-45");
      ::vt::emit("future", "\"m\":\"f1\"");
      let r: String = ::vt::block_on(fut);
      ::vt::emit("ret", &format!("\"m\":\"f1\",\"val\":{}", ::vt::js(&r)));
      let __res = ::vt::js(&r);
      ::vt::emit("end", &format!("\"panicked\":false,\"result\":{}", __res)); }
    { ::vt::emit("scenario", "\"case\":\"c000168\",\"sc\":2");
      let app = ::entrait::Impl::new(crate::App { id: 2 });
      ::vt::emit("call", &format!("\"m\":\"f1\",\"recv\":{},\"args\":[\"r-95\",\"r-45\"]", ::vt::js(&::vt::addr(&app))));
      let fut = T::f1(&app, "r-95", "r-45");
      ::vt::emit("future", "\"m\":\"f1\"");
      let r: String = ::vt::block_on(fut);
      ::vt::emit("ret", &format!("\"m\":\"f1\",\"val\":{}", ::vt::js(&r)));
      let __res = ::vt::js(&r);
      ::vt::emit("end", &format!("\"panicked\":false,\"result\":{}", __res)); }
    { ::vt::emit("scenario", "\"case\":\"c000168\",\"sc\":3");
      let app = ::entrait::Impl::new(crate::App { id: 3 });
      ::vt::emit("call", &format!("\"m\":\"f1\",\"recv\":{},\"args\":[\"r-95\",\"r-45\"]", ::vt::js(&::vt::addr(&app))));
      let fut = T::f1(&app, "r-95", "r-45");
      drop(fut);
      ::vt::emit("dropped", "\"m\":\"f1\"");
      ::vt::emit("end", "\"panicked\":false,\"result\":\"\""); }
}
