// feature unimock: True
macro_rules! define_item { ($p:ident) => {
#[::entrait::entrait(pub T)]
pub mod m {
    pub async fn f1(deps: &impl crate::Marker, $p: i32, a2: i32) -> String {
        let __args: String = String::new() + &::vt::js(&format!("{:?}", $p)) + "," + &::vt::js(&format!("{:?}", a2));
        ::vt::emit("enter", &format!("\"f\":\"c004757::f1\",\"deps\":{},\"args\":[{}]", ::vt::js(&::vt::addr(deps)), __args));
        ::vt::yield_once().await;
        let __val = format!("c004757::f1({})", __args);
        ::vt::emit("exit", &format!("\"f\":\"c004757::f1\",\"val\":{}", ::vt::js(&__val)));
        __val
    }
    pub async fn f2(deps: &impl crate::Marker, $p: i32, a2: i32) -> String {
        let __args: String = String::new() + &::vt::js(&format!("{:?}", $p)) + "," + &::vt::js(&format!("{:?}", a2));
        ::vt::emit("enter", &format!("\"f\":\"c004757::f2\",\"deps\":{},\"args\":[{}]", ::vt::js(&::vt::addr(deps)), __args));
        ::vt::yield_once().await;
        let __val = format!("c004757::f2({})", __args);
        ::vt::emit("exit", &format!("\"f\":\"c004757::f2\",\"val\":{}", ::vt::js(&__val)));
        __val
    }
    pub async fn f3(deps: &impl crate::Marker, $p: i32, a2: i32) -> String {
        let __args: String = String::new() + &::vt::js(&format!("{:?}", $p)) + "," + &::vt::js(&format!("{:?}", a2));
        ::vt::emit("enter", &format!("\"f\":\"c004757::f3\",\"deps\":{},\"args\":[{}]", ::vt::js(&::vt::addr(deps)), __args));
        ::vt::yield_once().await;
        let __val = format!("c004757::f3({})", __args);
        ::vt::emit("exit", &format!("\"f\":\"c004757::f3\",\"val\":{}", ::vt::js(&__val)));
        __val
    }
}

} }
define_item!(a2);

pub fn run() {
    { ::vt::emit("scenario", "\"case\":\"c004757\",\"sc\":1");
      let app = ::entrait::Impl::new(crate::App { id: 1 });
      ::vt::emit("call", &format!("\"m\":\"f1\",\"recv\":{},\"args\":[\"-192\",\"-351\"]", ::vt::js(&::vt::addr(&app))));
      let fut = m::f1(&app, -192, -351);
      ::vt::emit("future", "\"m\":\"f1\"");
      let r: String = ::vt::block_on(fut);
      ::vt::emit("ret", &format!("\"m\":\"f1\",\"val\":{}", ::vt::js(&r)));
      let __res = ::vt::js(&r);
      ::vt::emit("end", &format!("\"panicked\":false,\"result\":{}", __res)); }
    { ::vt::emit("scenario", "\"case\":\"c004757\",\"sc\":2");
      let app = ::entrait::Impl::new(crate::App { id: 2 });
      ::vt::emit("call", &format!("\"m\":\"f1\",\"recv\":{},\"args\":[\"-192\",\"-351\"]", ::vt::js(&::vt::addr(&app))));
      let fut = T::f1(&app, -192, -351);
      ::vt::emit("future", "\"m\":\"f1\"");
      let r: String = ::vt::block_on(fut);
      ::vt::emit("ret", &format!("\"m\":\"f1\",\"val\":{}", ::vt::js(&r)));
      let __res = ::vt::js(&r);
      ::vt::emit("end", &format!("\"panicked\":false,\"result\":{}", __res)); }
    { ::vt::emit("scenario", "\"case\":\"c004757\",\"sc\":3");
      let app = ::entrait::Impl::new(crate::App { id: 3 });
      ::vt::emit("call", &format!("\"m\":\"f1\",\"recv\":{},\"args\":[\"-192\",\"-351\"]", ::vt::js(&::vt::addr(&app))));
      let fut = T::f1(&app, -192, -351);
      drop(fut);
      ::vt::emit("dropped", "\"m\":\"f1\"");
      ::vt::emit("end", "\"panicked\":false,\"result\":\"\""); }
    { ::vt::emit("scenario", "\"case\":\"c004757\",\"sc\":4");
      let app = ::entrait::Impl::new(crate::App { id: 4 });
      ::vt::emit("call", &format!("\"m\":\"f2\",\"recv\":{},\"args\":[\"-192\",\"-351\"]", ::vt::js(&::vt::addr(&app))));
      let fut = m::f2(&app, -192, -351);
      ::vt::emit("future", "\"m\":\"f2\"");
      let r: String = ::vt::block_on(fut);
      ::vt::emit("ret", &format!("\"m\":\"f2\",\"val\":{}", ::vt::js(&r)));
      let __res = ::vt::js(&r);
      ::vt::emit("end", &format!("\"panicked\":false,\"result\":{}", __res)); }
    { ::vt::emit("scenario", "\"case\":\"c004757\",\"sc\":5");
      let app = ::entrait::Impl::new(crate::App { id: 5 });
      ::vt::emit("call", &format!("\"m\":\"f2\",\"recv\":{},\"args\":[\"-192\",\"-351\"]", ::vt::js(&::vt::addr(&app))));
      let fut = T::f2(&app, -192, -351);
      ::vt::emit("future", "\"m\":\"f2\"");
      let r: String = ::vt::block_on(fut);
      ::vt::emit("ret", &format!("\"m\":\"f2\",\"val\":{}", ::vt::js(&r)));
      let __res = ::vt::js(&r);
      ::vt::emit("end", &format!("\"panicked\":false,\"result\":{}", __res)); }
    { ::vt::emit("scenario", "\"case\":\"c004757\",\"sc\":6");
      let app = ::entrait::Impl::new(crate::App { id: 6 });
      ::vt::emit("call", &format!("\"m\":\"f2\",\"recv\":{},\"args\":[\"-192\",\"-351\"]", ::vt::js(&::vt::addr(&app))));
      let fut = T::f2(&app, -192, -351);
      drop(fut);
      ::vt::emit("dropped", "\"m\":\"f2\"");
      ::vt::emit("end", "\"panicked\":false,\"result\":\"\""); }
    { ::vt::emit("scenario", "\"case\":\"c004757\",\"sc\":7");
      let app = ::entrait::Impl::new(crate::App { id: 7 });
      ::vt::emit("call", &format!("\"m\":\"f3\",\"recv\":{},\"args\":[\"-192\",\"-351\"]", ::vt::js(&::vt::addr(&app))));
      let fut = m::f3(&app, -192, -351);
      ::vt::emit("future", "\"m\":\"f3\"");
      let r: String = ::vt::block_on(fut);
      ::vt::emit("ret", &format!("\"m\":\"f3\",\"val\":{}", ::vt::js(&r)));
      let __res = ::vt::js(&r);
      ::vt::emit("end", &format!("\"panicked\":false,\"result\":{}", __res)); }
    { ::vt::emit("scenario", "\"case\":\"c004757\",\"sc\":8");
      let app = ::entrait::Impl::new(crate::App { id: 8 });
      ::vt::emit("call", &format!("\"m\":\"f3\",\"recv\":{},\"args\":[\"-192\",\"-351\"]", ::vt::js(&::vt::addr(&app))));
      let fut = T::f3(&app, -192, -351);
      ::vt::emit("future", "\"m\":\"f3\"");
      let r: String = ::vt::block_on(fut);
      ::vt::emit("ret", &format!("\"m\":\"f3\",\"val\":{}", ::vt::js(&r)));
      let __res = ::vt::js(&r);
      ::vt::emit("end", &format!("\"panicked\":false,\"result\":{}", __res)); }
    { ::vt::emit("scenario", "\"case\":\"c004757\",\"sc\":9");
      let app = ::entrait::Impl::new(crate::App { id: 9 });
      ::vt::emit("call", &format!("\"m\":\"f3\",\"recv\":{},\"args\":[\"-192\",\"-351\"]", ::vt::js(&::vt::addr(&app))));
      let fut = T::f3(&app, -192, -351);
      drop(fut);
      ::vt::emit("dropped", "\"m\":\"f3\"");
      ::vt::emit("end", "\"panicked\":false,\"result\":\"\""); }
}
