// feature unimock: True
#[::entrait::entrait(pub T, export)]
fn f1<D, G1x2: ::core::fmt::Debug + Send>(deps: &D, r1: &str, g2: G1x2) -> String {
    let __args: String = String::new() + &::vt::js(&r1.to_string()) + "," + &::vt::js(&format!("{:?}", g2));
    ::vt::emit("enter", &format!("\"f\":\"c000041::f1\",\"deps\":{},\"args\":[{}]", ::vt::js(&::vt::addr(deps)), __args));
    
    let __val = format!("c000041::f1({})", __args);
    ::vt::emit("exit", &format!("\"f\":\"c000041::f1\",\"val\":{}", ::vt::js(&__val)));
    __val
}

pub fn run() {
    { ::vt::emit("scenario", "\"case\":\"c000041\",\"sc\":1");
      let app = ::entrait::Impl::new(crate::App { id: 1 });
      ::vt::emit("call", &format!("\"m\":\"f1\",\"recv\":{},\"args\":[\"r-143\",\"196\"]", ::vt::js(&::vt::addr(&app))));
      let r: String = f1(&app, "r-143", 196);
      ::vt::emit("ret", &format!("\"m\":\"f1\",\"val\":{}", ::vt::js(&r)));
      let __res = ::vt::js(&r);
      ::vt::emit("end", &format!("\"panicked\":false,\"result\":{}", __res)); }
    { ::vt::emit("scenario", "\"case\":\"c000041\",\"sc\":2");
      let app = ::entrait::Impl::new(crate::App { id: 2 });
      ::vt::emit("call", &format!("\"m\":\"f1\",\"recv\":{},\"args\":[\"r-143\",\"196\"]", ::vt::js(&::vt::addr(&app))));
      let r: String = T::f1(&app, "r-143", 196);
      ::vt::emit("ret", &format!("\"m\":\"f1\",\"val\":{}", ::vt::js(&r)));
      let __res = ::vt::js(&r);
      ::vt::emit("end", &format!("\"panicked\":false,\"result\":{}", __res)); }
}
