// feature unimock: True
macro_rules! define_item { ($p:ident) => {
#[::entrait::entrait(pub T)]
async fn f1<D>(deps: &D, $p: i32, a2: i32) -> String {
    let __args: String = String::new() + &::vt::js(&format!("{:?}", $p)) + "," + &::vt::js(&format!("{:?}", a2));
    ::vt::emit("enter", &format!("\"f\":\"c000280::f1\",\"deps\":{},\"args\":[{}]", ::vt::js(&::vt::addr(deps)), __args));
    ::vt::yield_once().await;
    let __val = format!("c000280::f1({})", __args);
    ::vt::emit("exit", &format!("\"f\":\"c000280::f1\",\"val\":{}", ::vt::js(&__val)));
    __val
}

} }
define_item!(a2);

pub fn run() {
    { ::vt::emit("scenario", "\"case\":\"c000280\",\"sc\":1");
      let app = ::entrait::Impl::new(crate::App { id: 1 });
      ::vt::emit("call", &format!("\"m\":\"f1\",\"recv\":{},\"args\":[\"-248\",\"-13\"]", ::vt::js(&::vt::addr(&app))));
      let fut = f1(&app, -248, -13);
      ::vt::emit("future", "\"m\":\"f1\"");
      let r: String = ::vt::block_on(fut);
      ::vt::emit("ret", &format!("\"m\":\"f1\",\"val\":{}", ::vt::js(&r)));
      let __res = ::vt::js(&r);
      ::vt::emit("end", &format!("\"panicked\":false,\"result\":{}", __res)); }
    { ::vt::emit("scenario", "\"case\":\"c000280\",\"sc\":2");
      let app = ::entrait::Impl::new(crate::App { id: 2 });
      ::vt::emit("call", &format!("\"m\":\"f1\",\"recv\":{},\"args\":[\"-248\",\"-13\"]", ::vt::js(&::vt::addr(&app))));
      let fut = T::f1(&app, -248, -13);
      ::vt::emit("future", "\"m\":\"f1\"");
      let r: String = ::vt::block_on(fut);
      ::vt::emit("ret", &format!("\"m\":\"f1\",\"val\":{}", ::vt::js(&r)));
      let __res = ::vt::js(&r);
      ::vt::emit("end", &format!("\"panicked\":false,\"result\":{}", __res)); }
    { ::vt::emit("scenario", "\"case\":\"c000280\",\"sc\":3");
      let app = ::entrait::Impl::new(crate::App { id: 3 });
      ::vt::emit("call", &format!("\"m\":\"f1\",\"recv\":{},\"args\":[\"-248\",\"-13\"]", ::vt::js(&::vt::addr(&app))));
      let fut = T::f1(&app, -248, -13);
      drop(fut);
      ::vt::emit("dropped", "\"m\":\"f1\"");
      ::vt::emit("end", "\"panicked\":false,\"result\":\"\""); }
}
