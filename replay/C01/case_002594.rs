// feature unimock: True
macro_rules! define_item { ($p:ident) => {
#[::entrait::entrait(pub T)]
pub mod m {
    pub async fn f1<D: crate::HasId>(deps: D, $p: i32, a2: i32) -> String {
        let __args: String = String::new() + &::vt::js(&format!("{:?}", $p)) + "," + &::vt::js(&format!("{:?}", a2));
        ::vt::emit("enter", &format!("\"f\":\"c002594::f1\",\"deps\":{},\"args\":[{}]", ::vt::js(&crate::HasId::id(&deps)), __args));
        ::vt::yield_once().await;
        let __val = format!("c002594::f1({})", __args);
        ::vt::emit("exit", &format!("\"f\":\"c002594::f1\",\"val\":{}", ::vt::js(&__val)));
        __val
    }
    pub async fn f2<D: crate::HasId>(deps: D, $p: i32, a2: i32) -> String {
        let __args: String = String::new() + &::vt::js(&format!("{:?}", $p)) + "," + &::vt::js(&format!("{:?}", a2));
        ::vt::emit("enter", &format!("\"f\":\"c002594::f2\",\"deps\":{},\"args\":[{}]", ::vt::js(&crate::HasId::id(&deps)), __args));
        ::vt::yield_once().await;
        let __val = format!("c002594::f2({})", __args);
        ::vt::emit("exit", &format!("\"f\":\"c002594::f2\",\"val\":{}", ::vt::js(&__val)));
        __val
    }
}

} }
define_item!(a2);

pub fn run() {
    { ::vt::emit("scenario", "\"case\":\"c002594\",\"sc\":1");
      let app = ::entrait::Impl::new(crate::App { id: 1 });
      ::vt::emit("call", &format!("\"m\":\"f1\",\"recv\":{},\"args\":[\"-437\",\"-474\"]", ::vt::js(&crate::HasId::id(&app))));
      let fut = m::f1(app, -437, -474);
      ::vt::emit("future", "\"m\":\"f1\"");
      let r: String = ::vt::block_on(fut);
      ::vt::emit("ret", &format!("\"m\":\"f1\",\"val\":{}", ::vt::js(&r)));
      let __res = ::vt::js(&r);
      ::vt::emit("end", &format!("\"panicked\":false,\"result\":{}", __res)); }
    { ::vt::emit("scenario", "\"case\":\"c002594\",\"sc\":2");
      let app = ::entrait::Impl::new(crate::App { id: 2 });
      ::vt::emit("call", &format!("\"m\":\"f1\",\"recv\":{},\"args\":[\"-437\",\"-474\"]", ::vt::js(&crate::HasId::id(&app))));
      let fut = T::f1(app, -437, -474);
      ::vt::emit("future", "\"m\":\"f1\"");
      let r: String = ::vt::block_on(fut);
      ::vt::emit("ret", &format!("\"m\":\"f1\",\"val\":{}", ::vt::js(&r)));
      let __res = ::vt::js(&r);
      ::vt::emit("end", &format!("\"panicked\":false,\"result\":{}", __res)); }
    { ::vt::emit("scenario", "\"case\":\"c002594\",\"sc\":3");
      let app = ::entrait::Impl::new(crate::App { id: 3 });
      ::vt::emit("call", &format!("\"m\":\"f1\",\"recv\":{},\"args\":[\"-437\",\"-474\"]", ::vt::js(&crate::HasId::id(&app))));
      let fut = T::f1(app, -437, -474);
      drop(fut);
      ::vt::emit("dropped", "\"m\":\"f1\"");
      ::vt::emit("end", "\"panicked\":false,\"result\":\"\""); }
    { ::vt::emit("scenario", "\"case\":\"c002594\",\"sc\":4");
      let app = ::entrait::Impl::new(crate::App { id: 4 });
      ::vt::emit("call", &format!("\"m\":\"f2\",\"recv\":{},\"args\":[\"-437\",\"-474\"]", ::vt::js(&crate::HasId::id(&app))));
      let fut = m::f2(app, -437, -474);
      ::vt::emit("future", "\"m\":\"f2\"");
      let r: String = ::vt::block_on(fut);
      ::vt::emit("ret", &format!("\"m\":\"f2\",\"val\":{}", ::vt::js(&r)));
      let __res = ::vt::js(&r);
      ::vt::emit("end", &format!("\"panicked\":false,\"result\":{}", __res)); }
    { ::vt::emit("scenario", "\"case\":\"c002594\",\"sc\":5");
      let app = ::entrait::Impl::new(crate::App { id: 5 });
      ::vt::emit("call", &format!("\"m\":\"f2\",\"recv\":{},\"args\":[\"-437\",\"-474\"]", ::vt::js(&crate::HasId::id(&app))));
      let fut = T::f2(app, -437, -474);
      ::vt::emit("future", "\"m\":\"f2\"");
      let r: String = ::vt::block_on(fut);
      ::vt::emit("ret", &format!("\"m\":\"f2\",\"val\":{}", ::vt::js(&r)));
      let __res = ::vt::js(&r);
      ::vt::emit("end", &format!("\"panicked\":false,\"result\":{}", __res)); }
    { ::vt::emit("scenario", "\"case\":\"c002594\",\"sc\":6");
      let app = ::entrait::Impl::new(crate::App { id: 6 });
      ::vt::emit("call", &format!("\"m\":\"f2\",\"recv\":{},\"args\":[\"-437\",\"-474\"]", ::vt::js(&crate::HasId::id(&app))));
      let fut = T::f2(app, -437, -474);
      drop(fut);
      ::vt::emit("dropped", "\"m\":\"f2\"");
      ::vt::emit("end", "\"panicked\":false,\"result\":\"\""); }
}
