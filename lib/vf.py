"""Shared driver plumbing for the /verif checks.

Nothing in here decides a property: TLC evaluates every Level-1 predicate. This module
runs TLC, renders / builds generated crates with the real macro (hook on), collects the
observations (expansion records X, compiler verdicts V, run-time traces R), feeds them back
to TLC as traces, reconciles TLC's `bad` set with known_findings.json and writes evidence.

Exit codes: 0 property held on everything explored (KNOWN-FINDING lines allowed),
            1 VIOLATION line printed, 2 tool error (never a VIOLATION line).
"""
import glob
import json
import os
import re
import shutil
import subprocess
import sys
import time

VERIF = os.path.dirname(os.path.dirname(os.path.abspath(__file__)))
REPO = os.environ.get("VERIF_REPO", "/repo")
WORK = os.path.join(VERIF, "work")
SPEC = os.path.join(VERIF, "spec")
HARNESS = os.path.join(VERIF, "harness")
GUARD = "audunhalland_entrait_verif"
RUSTFLAGS = f"--cfg {GUARD} --check-cfg cfg({GUARD}) -Awarnings"
TARGET = os.path.join(WORK, "target")


def prune_target(limit_gb=25):
    """The shared cargo target directory holds the artefacts of every generated client crate (thousands of modules each): drop the
    incremental state always and everything once it exceeds the limit (dependencies rebuild in about a minute)."""
    shutil.rmtree(os.path.join(TARGET, "debug", "incremental"), ignore_errors=True)
    try:
        r = subprocess.run(["du", "-s", "-BG", TARGET], capture_output=True, text=True, timeout=120)
        gb = int(r.stdout.split()[0].rstrip("G")) if r.returncode == 0 and r.stdout.split() else 0
    except Exception:
        gb = 0
    if gb > limit_gb:
        shutil.rmtree(TARGET, ignore_errors=True)


class ToolError(Exception):
    pass


def log(*a):
    print(*a, flush=True)


def tier():
    return os.environ.get("VERIF_TIER", "quick")


def seed():
    try:
        return int(os.environ.get("VERIF_SEED", "1"))
    except ValueError:
        return 1


# ------------------------------------------------------------------------------------------
# TLC
# ------------------------------------------------------------------------------------------

def _spec_copy(workdir):
    """TLC writes states/ next to the spec: run on a private copy of /verif/spec."""
    dst = os.path.join(workdir, "spec")
    if os.path.isdir(dst):
        shutil.rmtree(dst)
    shutil.copytree(SPEC, dst, ignore=shutil.ignore_patterns("states", "*.out", "*TTrace*"))
    return dst


def run_tlc(workdir, module, cfg=None, env=None, workers=4, timeout=900, simulate=None,
            coverage=True, deque=False, xss=True, heap="4g", tag=None):
    """Run TLC on spec/<module>.tla with spec/<cfg>.cfg inside a private copy. Returns a dict with
    stdout, generated, distinct, depth and the parsed per-action coverage."""
    specdir = os.path.join(workdir, "spec")
    if not os.path.isdir(specdir):
        _spec_copy(workdir)
    cfg = cfg or module
    tag = tag or module
    meta = os.path.join(workdir, "tlc-meta-" + tag)
    shutil.rmtree(meta, ignore_errors=True)
    jopts = [f"-Xmx{heap}"]
    if xss:
        jopts.append("-Xss1g")
    if deque:
        jopts.append("-Dtlc2.tool.queue.IStateQueue=StateDeque")
    e = dict(os.environ)
    e["JAVA_TOOL_OPTIONS"] = " ".join(jopts)
    if env:
        e.update({k: str(v) for k, v in env.items()})
    cmd = ["timeout", str(timeout), "tlc", "-workers", str(workers), "-metadir", meta, "-cleanup",
           "-noGenerateSpecTE", "-config", cfg + ".cfg"]
    if deque:
        cmd += ["-checkpoint", "0"]        # (the depth-first queue cannot be checkpointed; TLC would abort a long validation after 30 min)
    if coverage:
        cmd += ["-coverage", "1"]
    cmd += ["-seed", str(seed())]          # RandomSubset / simulation draw from VERIF_SEED
    if simulate:
        cmd += ["-simulate", simulate]
    cmd += [module + ".tla"]
    t0 = time.time()
    r = subprocess.run(cmd, cwd=specdir, env=e, capture_output=True, text=True)
    out = r.stdout + r.stderr
    with open(os.path.join(workdir, f"tlc-{tag}.log"), "w") as f:
        f.write(out)
    shutil.rmtree(meta, ignore_errors=True)
    res = {"rc": r.returncode, "stdout": out, "wall": time.time() - t0, "generated": 0, "distinct": 0,
           "depth": 0, "log": os.path.join(workdir, f"tlc-{tag}.log")}
    m = re.findall(r"(\d+) states generated, (\d+) distinct states found", out)
    if m:
        res["generated"], res["distinct"] = int(m[-1][0]), int(m[-1][1])
    m = re.search(r"depth of the complete state graph search is (\d+)", out)
    if m:
        res["depth"] = int(m.group(1))
    cov = {}
    for mm in re.finditer(r"<(\w+) line \d+, col \d+ to line \d+, col \d+ of module (\w+)>: (\d+):(\d+)", out):
        cov[mm.group(1)] = (int(mm.group(3)), int(mm.group(4)))
    res["coverage"] = cov
    res["ok"] = (r.returncode == 0)
    res["invariant_violated"] = ("Invariant" in out and "is violated" in out) or "is violated." in out
    if r.returncode == 124:
        raise ToolError(f"TLC timeout on {module} (see {res['log']})")
    return res


def tlc_printed(stdout, key):
    """Values printed with PrintT(<<"KEY", ToJson(x)>>) -> list of decoded JSON values."""
    vals = []
    for m in re.finditer(r'<<"' + re.escape(key) + r'", "(.*)">>', stdout):
        raw = m.group(1)
        # TLC prints the TLA+ string with escaped quotes/backslashes
        try:
            txt = bytes(raw, "utf-8").decode("unicode_escape") if "\\" in raw else raw
            vals.append(json.loads(txt))
        except Exception:
            try:
                vals.append(json.loads(raw.replace('\\"', '"').replace("\\\\", "\\")))
            except Exception as ex:
                raise ToolError(f"cannot decode TLC output for {key}: {ex}: {raw[:200]}")
    return vals


def need_ok(res, what):
    if not res["ok"]:
        tail = "\n".join(res["stdout"].splitlines()[-40:])
        raise ToolError(f"{what}: TLC exit {res['rc']} (log {res['log']})\n{tail}")


def read_ndjson(path):
    out = []
    with open(path) as f:
        for line in f:
            line = line.strip()
            if line:
                out.append(json.loads(line))
    return out


def write_ndjson(path, recs):
    with open(path, "w") as f:
        for r in recs:
            f.write(json.dumps(r, separators=(",", ":")) + "\n")


# ------------------------------------------------------------------------------------------
# cargo: generated crates built with the real macro, hook on
# ------------------------------------------------------------------------------------------

def cargo_env(dump=None, extra_rustflags=""):
    e = dict(os.environ)
    e["CARGO_NET_OFFLINE"] = "true"
    e["CARGO_TARGET_DIR"] = TARGET
    e["CARGO_INCREMENTAL"] = "0"        # the generated client crates are rebuilt from scratch anyway; incremental state only fills the disk
    e["RUSTFLAGS"] = (RUSTFLAGS + " " + extra_rustflags).strip()
    e["CARGO_TERM_COLOR"] = "never"
    e.pop("RUSTC_WRAPPER", None)
    if dump:
        e["ENTRAIT_VERIF_DUMP"] = dump
    else:
        e.pop("ENTRAIT_VERIF_DUMP", None)
    return e


def ensure_tools():
    """Build the projector (and vt) if missing. setup_cmd does this up front."""
    exe = os.path.join(HARNESS, "target", "release", "projector")
    src = os.path.join(HARNESS, "projector", "src", "main.rs")
    if not os.path.exists(exe) or os.path.getmtime(exe) < os.path.getmtime(src):
        r = subprocess.run(["cargo", "build", "--release", "--offline", "-p", "projector"], cwd=HARNESS,
                           capture_output=True, text=True)
        if r.returncode != 0:
            raise ToolError("cannot build projector:\n" + r.stderr[-3000:])
    return exe


class Crate:
    """A generated crate: src/main.rs (or lib.rs) + src/cases/cNNNNN.rs, one file per case.
    Built offline against /repo (path dependency) with the hook on."""

    def __init__(self, root, name, features=(), deps=(), dev=False, lib=False, edition="2021",
                 entrait=True, no_std=False, extra_toml=""):
        self.root = root
        self.name = name
        self.lib = lib
        self.cases = {}          # case id -> file stem
        self.dropped = {}        # case id -> [messages]
        shutil.rmtree(root, ignore_errors=True)
        os.makedirs(os.path.join(root, "src", "cases"))
        dep_lines = []
        if entrait:
            feats = ", ".join(f'"{f}"' for f in features)
            dep_lines.append(f'entrait = {{ path = "{REPO}", features = [{feats}] }}')
        for d in deps:
            if d == "vt":
                dep_lines.append(f'vt = {{ path = "{HARNESS}/vt" }}')
            elif d == "unimock":
                dep_lines.append('unimock = "0.6"')
            elif d == "mockall":
                dep_lines.append('mockall = "0.12"')
            elif d == "async-trait":
                dep_lines.append('async-trait = "0.1"')
            else:
                dep_lines.append(d)
        with open(os.path.join(root, "Cargo.toml"), "w") as f:
            f.write(f"""[package]
name = "{name}"
version = "0.0.0"
edition = "{edition}"

[workspace]

[dependencies]
{chr(10).join(dep_lines)}
{extra_toml}
""")
        shutil.copy(os.path.join(REPO, "Cargo.lock"), os.path.join(root, "Cargo.lock"))
        self.prelude = ""
        self.main_body = ""
        self.crate_attrs = "#![allow(warnings)]\n"

    def add_case(self, cid, src):
        stem = "c" + re.sub(r"[^A-Za-z0-9_]", "_", str(cid))
        self.cases[cid] = stem
        with open(os.path.join(self.root, "src", "cases", stem + ".rs"), "w") as f:
            f.write(src)
        return stem

    def _write_mod(self):
        live = [c for c in self.cases if c not in self.dropped]
        with open(os.path.join(self.root, "src", "cases", "mod.rs"), "w") as f:
            for c in live:
                f.write(f"pub mod {self.cases[c]};\n")
        return live

    def write_root(self, main_fn=None):
        """main_fn(live_case_ids) -> body of fn report (called by main and by a #[test])"""
        live = self._write_mod()
        body = main_fn(live) if main_fn else ""
        root = "lib.rs" if self.lib else "main.rs"
        with open(os.path.join(self.root, "src", root), "w") as f:
            f.write(self.crate_attrs + self.prelude + "\npub mod cases;\n")
            if not self.lib:
                f.write("fn report() {\n" + body + "\n}\nfn main() { report() }\n#[test] fn report_under_test() { report() }\n")
        return live

    def build(self, mode="check", dump=None, main_fn=None, max_iter=12, test=False, timeout=1800,
              extra_rustflags="", keep_dump_of_first=True):
        """Iterate to a fix-point: drop the case files that have an error with a primary span in them.
        Returns (verdicts: case -> [ {code, message} ], dump_records of the FIRST pass (all cases expand there),
        iterations). A diagnostic that cannot be attributed to a case file is a tool error."""
        by_stem = {v: k for k, v in self.cases.items()}
        first_dump = None
        it = 0
        while True:
            it += 1
            if it > max_iter:
                raise ToolError(f"{self.name}: build fix-point did not converge in {max_iter} iterations")
            self.write_root(main_fn)
            if dump:
                for f in glob.glob(dump + ".*"):
                    os.remove(f)
            cmd = ["cargo", mode, "--offline", "--message-format=json"]
            if test:
                cmd = ["cargo", "test", "--no-run", "--offline", "--message-format=json"]
            r = subprocess.run(cmd, cwd=self.root, env=cargo_env(dump, extra_rustflags), capture_output=True,
                               text=True, timeout=timeout)
            bad = {}
            unattributed = []
            exe = None
            for line in r.stdout.splitlines():
                if not line.startswith("{"):
                    continue
                try:
                    m = json.loads(line)
                except Exception:
                    continue
                if m.get("reason") == "compiler-artifact" and m.get("executable") and \
                        m.get("target", {}).get("name") == self.name and \
                        bool(m.get("profile", {}).get("test")) == bool(test):
                    exe = m["executable"]
                if m.get("reason") != "compiler-message":
                    continue
                msg = m["message"]
                if msg.get("level") not in ("error", "error: internal compiler error"):
                    continue
                if msg.get("message", "").startswith("aborting due to"):
                    continue
                hit = False
                for sp in msg.get("spans", []):
                    if not sp.get("is_primary"):
                        continue
                    mm = re.search(r"cases/(c\w+)\.rs", sp.get("file_name", ""))
                    if mm and mm.group(1) in by_stem:
                        cid = by_stem[mm.group(1)]
                        bad.setdefault(cid, []).append({
                            "code": (msg.get("code") or {}).get("code", "") if msg.get("code") else "",
                            "message": msg.get("message", ""),
                            "line": sp.get("line_start", 0),
                            "rendered": (msg.get("rendered") or "")[:600],
                        })
                        hit = True
                if not hit:
                    unattributed.append(msg.get("rendered") or msg.get("message"))
            if dump and first_dump is None:
                first_dump = sorted(glob.glob(dump + ".*"))
                # keep the first pass's records: every case is expanded there
                keep = dump + "-first"
                with open(keep, "w") as out:
                    for f in first_dump:
                        with open(f) as fin:
                            shutil.copyfileobj(fin, out)
                first_dump = keep
                if os.path.getsize(keep) == 0 and self.cases:
                    raise ToolError(f"{self.name}: the first compiler pass expanded nothing (a generated file does not parse, or the "
                                    f"hook is off): " + "; ".join(str(v[0]["message"])[:120] for v in list(bad.values())[:3]))
            if unattributed and not bad:
                raise ToolError(f"{self.name}: compiler error outside case files:\n" + "\n".join(unattributed[:5]))
            if not bad:
                if r.returncode != 0:
                    raise ToolError(f"{self.name}: cargo failed without diagnostics:\n{r.stderr[-3000:]}")
                self.exe = exe
                return self.dropped, first_dump, it
            for cid, msgs in bad.items():
                self.dropped.setdefault(cid, []).extend(msgs)

    def run(self, args=(), timeout=600, env=None):
        if not getattr(self, "exe", None):
            raise ToolError(f"{self.name}: no executable")
        e = dict(os.environ)
        if env:
            e.update(env)
        r = subprocess.run([self.exe, *args], cwd=self.root, capture_output=True, text=True, timeout=timeout, env=e)
        return r


def project(dump_file, out_file):
    exe = ensure_tools()
    with open(out_file, "w") as out:
        r = subprocess.run([exe, dump_file], stdout=out, stderr=subprocess.PIPE, text=True)
    if r.returncode != 0:
        raise ToolError("projector failed: " + r.stderr[-2000:])
    return read_ndjson(out_file)


def case_of_file(path):
    m = re.search(r"cases/c(\w+)\.rs", path or "")
    return m.group(1) if m else None


# ------------------------------------------------------------------------------------------
# findings, evidence, verdict
# ------------------------------------------------------------------------------------------

def load_known():
    p = os.path.join(VERIF, "known_findings.json")
    if not os.path.exists(p):
        return []
    with open(p) as f:
        return json.load(f).get("findings", [])


class Check:
    def __init__(self, pid, level="model_checking"):
        self.pid = pid
        self.level = level
        self.t0 = time.time()
        self.work = os.path.join(WORK, pid)
        shutil.rmtree(self.work, ignore_errors=True)
        os.makedirs(self.work)
        prune_target()
        self.cov = {"states": 0, "transitions": 0, "traces_validated_against_impl": 0, "samples": [],
                    "evaluations": 0, "distinct_nontrivial": 0, "rule": "", "exhaustive": False,
                    "drift": 0, "known_findings_hit": [], "tlc_runs": []}
        self.assumptions = []
        self.violations = []      # (conjunct/class, case, detail)
        self.known_hit = {}
        self.notes = []

    # -- TLC bookkeeping
    def add_tlc(self, res, name):
        self.cov["states"] += res["distinct"]
        self.cov["transitions"] += res["generated"]
        self.cov["tlc_runs"].append({"name": name, "generated": res["generated"], "distinct": res["distinct"],
                                     "depth": res["depth"], "wall_s": round(res["wall"], 1),
                                     "actions_covered": {k: v[0] for k, v in res["coverage"].items()}})

    def vacuity(self, res, actions):
        """every named action must have been taken at least once in the MC run"""
        for a in actions:
            if a not in res["coverage"] or res["coverage"][a][0] == 0:
                raise ToolError(f"{self.pid}: vacuous model run: action {a} never taken (log {res['log']})")

    # -- reconcile TLC's bad set with the committed known findings
    def reconcile(self, bad, replay_writer):
        """bad: list of dicts {case, conjunct, cls, detail?}. A bad entry is known iff a finding with
        status 'known' lists (property, cls) and cls is non-empty."""
        known = [k for k in load_known() if k.get("property") == self.pid and k.get("status") == "known"]
        kn = {k["class"]: k for k in known}
        for b in bad:
            cls = b.get("cls", "")
            if cls and cls in kn:
                self.known_hit.setdefault(cls, []).append(b)
            else:
                self.violations.append(b)
        for cls, items in sorted(self.known_hit.items()):
            log(f"KNOWN-FINDING: property={self.pid} class={cls} cases={len(items)} e.g. case {items[0].get('case')}: "
                f"{kn[cls].get('what', '')}")
            self.cov["known_findings_hit"].append({"class": cls, "cases": len(items)})
        if self.violations:
            path = replay_writer(self.violations)
            log(f"VIOLATION property={self.pid} replay={path}")
            for v in self.violations[:10]:
                log(f"  case={v.get('case')} conjunct={v.get('conjunct')} class={v.get('cls', '')} {v.get('detail', '')}")

    def replay_dir(self):
        d = os.path.join(VERIF, "replay", self.pid)
        shutil.rmtree(d, ignore_errors=True)
        os.makedirs(d)
        return d

    def finish(self):
        ev = {
            "property_id": self.pid,
            "tier": tier(),
            "seed": seed(),
            "level": self.level,
            "coverage": self.cov,
            "assumptions": self.assumptions,
            "wall_s": round(time.time() - self.t0, 1),
            "violations": len(self.violations),
        }
        if not self.cov["samples"]:
            raise ToolError("no samples recorded")
        os.makedirs(os.path.join(VERIF, "evidence"), exist_ok=True)
        with open(os.path.join(VERIF, "evidence", self.pid + ".json"), "w") as f:
            json.dump(ev, f, indent=1, sort_keys=True)
        log(f"{self.pid}: tier={tier()} states={self.cov['states']} traces={self.cov['traces_validated_against_impl']} "
            f"evaluations={self.cov['evaluations']} drift={self.cov['drift']} violations={len(self.violations)} "
            f"wall={ev['wall_s']}s")
        return 1 if self.violations else 0



# ------------------------------------------------------------------------------------------
# the standard pipeline pieces (MC run -> cases; events -> trace validation)
# ------------------------------------------------------------------------------------------

def mc_cases(chk, module, cfg_edits=None, actions=(), workers=8, timeout=3000, heap="8g", env=None, cfg=None):
    """Model-check spec/<module> (after textual edits of its .cfg, e.g. bounds per tier), insist that the
    named actions were taken (vacuity), return the dumped cases (each gets a `case` id)."""
    specdir = _spec_copy(chk.work)
    cfgname = cfg or module
    if cfg_edits:
        path = os.path.join(specdir, cfgname + ".cfg")
        with open(path) as f:
            txt = f.read()
        for a, b in cfg_edits.items():
            if a not in txt:
                raise ToolError(f"{cfgname}.cfg: cannot find {a!r}")
            txt = txt.replace(a, b)
        with open(path, "w") as f:
            f.write(txt)
    cases_file = os.path.join(chk.work, f"cases-{module}.ndjson")
    e = {"OUT": cases_file}
    if env:
        e.update(env)
    res = run_tlc(chk.work, module, cfg=cfgname, env=e, workers=workers, timeout=timeout, heap=heap)
    if res["invariant_violated"]:
        raise ToolError(f"{module}: the model violates one of its own invariants (see {res['log']}): the "
                        "specification is inconsistent with its Level-1 transcription; this is a defect of the "
                        "model, not an observation of the code")
    need_ok(res, module)
    chk.add_tlc(res, module)
    chk.vacuity(res, actions)
    cases = read_ndjson(cases_file) if os.path.exists(cases_file) else []
    for n, c in enumerate(cases):
        c["case"] = f"{n:06d}"
    return cases, res


def validate(chk, module, events, env=None, timeout=1800, name=None):
    """Feed `events` to the trace specification spec/<module>; returns (bad, drift) as TLC computed them."""
    name = name or module
    trace = os.path.join(chk.work, f"trace-{name}.ndjson")
    write_ndjson(trace, events)
    bad_file = os.path.join(chk.work, f"bad-{name}.ndjson")
    drift_file = os.path.join(chk.work, f"drift-{name}.ndjson")
    for f in (bad_file, drift_file):
        if os.path.exists(f):
            os.remove(f)
    e = {"TRACE": trace, "OUT": bad_file, "DRIFT": drift_file}
    if env:
        e.update(env)
    if not os.path.isdir(os.path.join(chk.work, "spec")):
        _spec_copy(chk.work)
    res = run_tlc(chk.work, module, env=e, workers=1, timeout=timeout, coverage=False, deque=True, tag=name)
    need_ok(res, module)
    if not os.path.exists(bad_file):
        raise ToolError(f"{module}: trace not accepted to the end (POSTCONDITION did not write verdicts), log {res['log']}")
    chk.add_tlc(res, name)
    chk.cov["traces_validated_against_impl"] += len(events)
    return read_ndjson(bad_file), read_ndjson(drift_file)


def records_by_case(chk, dump_file, name="obs"):
    recs = project(dump_file, os.path.join(chk.work, name + ".ndjson"))
    by_case = {}
    for rec in recs:
        cid = case_of_file(rec["file"])
        if cid is not None:
            by_case.setdefault(cid, []).append(rec)
    return by_case, recs


def name_rec(text):
    raw = text.startswith("r#")
    return {"raw": raw, "base": text[2:] if raw else text, "lc": text[:1].islower()}


def report_drift(chk, drift, describe=None):
    cases = {d["case"] for d in drift}
    chk.cov["drift"] += len(cases)
    for d in drift[:5]:
        log(f"SPEC-DRIFT {chk.pid} case={d['case']} field={d['field']} {describe(d) if describe else ''}")
    if drift:
        log(f"SPEC-DRIFT {chk.pid}: {len(drift)} fields on {len(cases)} cases differ from Level 2's prediction "
            "(reported, not a violation: the code no longer does what the implementation-shaped model says)")


def main_wrapper(fn):
    try:
        rc = fn()
    except ToolError as e:
        log("TOOL-ERROR:", e)
        sys.exit(2)
    except subprocess.TimeoutExpired as e:
        log("TOOL-ERROR: timeout", e)
        sys.exit(2)
    sys.exit(rc)
