"""Mechanical helpers over the flattened token lists the hook records
("I<ident>", "L<lit>", "P<char><a|j>", "G(" "G)" "G[" "G]" "G{" "G}" "G<" "G>")."""

OPEN = {"G(": "G)", "G{": "G}", "G[": "G]", "G<": "G>"}
CLOSE = set(OPEN.values())


def matching_close(toks, open_idx):
    depth = 0
    for i in range(open_idx, len(toks)):
        t = toks[i]
        if t in OPEN:
            depth += 1
        elif t in CLOSE:
            depth -= 1
            if depth == 0:
                return i
    return -1


def top_level(toks, start=0, end=None):
    """yields (index, token, close_index) for each top-level token tree in toks[start:end]"""
    end = len(toks) if end is None else end
    i = start
    while i < end:
        t = toks[i]
        if t in OPEN:
            c = matching_close(toks, i)
            if c < 0:
                c = end - 1
            yield i, t, c
            i = c + 1
        else:
            yield i, t, i
            i += 1


def kinds_of(toks, start, end):
    """top-level token-tree kinds of toks[start:end] in the alphabet of spec/Items.tla"""
    out = []
    prev = None
    for i, t, c in top_level(toks, start, end):
        if t == "P#a" or t == "P#j":
            k = "#"
        elif t == "G[":
            k = "[]"
        elif t == "Ipub":
            k = "pub"
        elif t == "G(":
            k = "(vis)" if prev == "pub" else "()"
        elif t == "G{":
            k = "{}"
        elif t in ("P;a", "P;j"):
            k = ";"
        elif t in ("Ifn", "Iconst", "Iasync", "Iunsafe", "Iextern"):
            k = t[1:]
        elif t.startswith("L"):
            k = "lit"
        else:
            k = "x"
        out.append(k)
        prev = k
    return out


class Interner:
    def __init__(self):
        self.ids = {}

    def __call__(self, toks):
        out = []
        for t in toks:
            i = self.ids.get(t)
            if i is None:
                i = len(self.ids) + 1
                self.ids[t] = i
            out.append(i)
        return out


def skip_attrs(toks, i=0):
    """index after leading outer attributes; returns (index, [ (start,end) of each attribute ])"""
    attrs = []
    while i + 1 < len(toks) and toks[i] in ("P#a", "P#j") and toks[i + 1] == "G[":
        c = matching_close(toks, i + 1)
        if c < 0:
            break
        attrs.append((i, c + 1))
        i = c + 1
    return i, attrs


def skip_vis(toks, i):
    if i < len(toks) and toks[i] == "Ipub":
        i += 1
        if i < len(toks) and toks[i] == "G(":
            inner = toks[i + 1] if i + 1 < len(toks) else ""
            if inner in ("Icrate", "Iself", "Isuper", "Iin"):
                i = matching_close(toks, i) + 1
    return i


def input_kind(toks):
    i, _ = skip_attrs(toks)
    i = skip_vis(toks, i)
    while i < len(toks):
        t = toks[i]
        if t in ("Iunsafe", "Iauto", "Iasync", "Iconst", "Idefault"):
            i += 1
        elif t == "Iextern":
            i += 1
            if i < len(toks) and toks[i].startswith("L"):
                i += 1
        elif t in ("Itrait", "Iimpl", "Imod", "Ifn"):
            return t[1:]
        else:
            return "other"
    return "other"
