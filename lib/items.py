"""Fixed items per target, used where the attribute (not the item) is the subject (C10, C15, C17)."""

ITEM = {
    "fn": "fn f<D>(deps: &D, a: i32) -> i32 { a }",
    "mod": "mod m {\n    pub fn f<D>(deps: &D) -> i32 { 1 }\n    pub async fn g<D>(deps: &D, a: u8) -> u8 { a }\n}",
    "trait": "trait Tr {\n    fn m(&self, a: i32) -> i32;\n    async fn n(&self, b: u8) -> u8;\n}",
    "impl": "impl TI for X {\n    fn m<D>(d: &D, a: i32) -> i32 { a }\n}",
}
PRE = {"fn": "", "mod": "", "trait": "", "impl": "pub struct X;\npub trait TI<T>: 'static { fn m(__impl: &::entrait::Impl<T>, a: i32) -> i32; }\n"}


def source(target, macro, text):
    return f"{PRE[target]}#[::entrait::{macro}({text})]\n{ITEM[target]}\n"


def err_class(rec):
    """class of the diagnostic the macro emitted ('' = accepted)"""
    if rec["panic"] is not None:
        return "panic"
    out = rec["output"]
    if out[:7] != ["P:j", "P:a", "Icore", "P:j", "P:a", "Icompile_error", "P!a"]:
        return ""
    msg = " ".join(t[1:] for t in out if t.startswith("L"))
    if "Unkonwn entrait option" in msg or "Unknown entrait option" in msg:
        return "unknown-option"
    if "Unsupported option" in msg:
        return "unsupported-option"
    if "custom delegating trait" in msg:
        return "custom-delegate-without-target-trait"
    if "Missing delegate_by" in msg:
        return "target-trait-without-delegate-by"
    return "syntax"
