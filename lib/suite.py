"""The repository's own test-suite as a corpus: tests/it/*.rs copied from /repo's working tree into a scratch
crate and type-checked with the hook on, so that every expansion the suite exercises is recorded."""
import glob
import os
import shutil
import subprocess

from lib import vf


def build_suite(workdir, dump, features=("unimock",), extra_env=None, name="suite"):
    root = os.path.join(workdir, name)
    shutil.rmtree(root, ignore_errors=True)
    os.makedirs(os.path.join(root, "tests"))
    shutil.copytree(os.path.join(vf.REPO, "tests", "it"), os.path.join(root, "tests", "it"))
    os.makedirs(os.path.join(root, "src"))
    with open(os.path.join(root, "src", "lib.rs"), "w") as f:
        f.write("// corpus crate\n")
    feats = ", ".join(f'"{x}"' for x in features)
    unimock_dep = 'unimock = "0.6"' if "unimock" in features else ""
    with open(os.path.join(root, "Cargo.toml"), "w") as f:
        f.write(f"""[package]
name = "{name}"
version = "0.0.0"
edition = "2021"

[workspace]

[features]
default = [{feats}]
unimock = []

[dependencies]
entrait = {{ path = "{vf.REPO}", features = [{feats}] }}
{unimock_dep}
implementation = "0.1"

[dev-dependencies]
tokio = {{ version = "1", features = ["macros", "rt"] }}
feignhttp = "0.5"
mockall = "0.12"
tracing = "0.1"
async-trait = "0.1"

[[test]]
name = "it"
path = "tests/it/main.rs"
""")
    shutil.copy(os.path.join(vf.REPO, "Cargo.lock"), os.path.join(root, "Cargo.lock"))
    for f in glob.glob(dump + ".*"):
        os.remove(f)
    env = vf.cargo_env(dump)
    if extra_env:
        env.update(extra_env)
    r = subprocess.run(["cargo", "check", "--tests", "--offline"], cwd=root, env=env, capture_output=True, text=True,
                       timeout=1800)
    if r.returncode != 0:
        raise vf.ToolError("suite corpus does not build:\n" + r.stderr[-3000:])
    out = dump + "-all"
    with open(out, "w") as o:
        for f in sorted(glob.glob(dump + ".*")):
            with open(f) as fin:
                shutil.copyfileobj(fin, o)
    return out
