import re
"""Conformance of every recorded invocation with the end-to-end pipeline model spec/Expand.tla.

Two purely mechanical projections of one hook record (no entrait semantics here - that lives in the model):
  abstract_input(rec)  the abstract input of Expand: the attribute split into [lead, option tokens, trailing comma], the item's
                       own attribute kinds, per function the syntactic shape of the first parameter, arities, ...
  observed_lines(rec)  the SHAPE of the emitted tokens: one canonical line per emitted item
TLC (Trace_Expand) runs the model on the former and compares with the latter; a difference is SPEC-DRIFT: the code no
longer does what the implementation-shaped specification says (or the specification was wrong about the code)."""
import json

from lib import vf

OWNED = {"unimock", "mockall", "automock", "entrait", "async_trait"}


# ------------------------------------------------------------------------------------------------------------------
# attribute tokens -> [lead, opts, trail]
# ------------------------------------------------------------------------------------------------------------------

def _text(tok):
    if tok[0] in "IL":
        return tok[1:]
    if tok[0] == "P":
        return tok[1]
    return tok[1:]      # group delimiter


def _segments(toks):
    """split at top-level commas; returns (segments, trailing_comma)"""
    segs, cur, depth = [], [], 0
    for t in toks:
        if t[0] == "G":
            depth += 1 if t[1] in "([{<" and t[1] != "<" else 0
            depth -= 1 if t[1] in ")]}" else 0
        if depth == 0 and t.startswith("P,"):
            segs.append(cur)
            cur = []
        else:
            cur.append(t)
    trailing = bool(segs) and not cur
    if cur:
        segs.append(cur)
    return segs, trailing


def _opt(seg):
    """one option segment -> [k, f, v] or None if it has no option shape"""
    if len(seg) == 2 and seg[0].startswith("P?") and seg[1][0] == "I":
        return {"k": "?" + seg[1][1:], "f": "bare", "v": ""}
    if len(seg) == 1 and seg[0][0] == "I":
        return {"k": seg[0][1:], "f": "bare", "v": ""}
    if len(seg) >= 3 and seg[0][0] == "I" and seg[1].startswith("P="):
        return {"k": seg[0][1:], "f": "eq", "v": "".join(_text(t) for t in seg[2:])}
    return None


def _says_cfg(a):
    """an attribute that says something about conditional compilation: `cfg(..)`, or `cfg_attr(pred, ..)` that applies a `cfg`
    (the generator carries both over to the generated methods; the abstraction only counts them)"""
    if a["kind"] == "cfg":
        return True
    if a["kind"] != "cfg_attr":
        return False
    import re
    return re.search(r"(^|[,(])\s*cfg\s*\(", a["text"].split("cfg_attr", 1)[1].split(",", 1)[-1]) is not None


def split_attr(attr, target):
    """-> dict(lead, opts, trail, tvis, tname, implkind) or None"""
    segs, trailing = _segments(attr)
    lead, tvis, tname, implkind = "", "", "", "static"
    if target in ("fn", "mod"):
        first = segs[0] if segs else []
        text = "".join(_text(t) for t in first)
        if text in ("", "pub", "pub(crate)"):
            lead = text                 # the trait identifier is missing: the model decides what that means
        elif first[-1][0] != "I":
            return None
        else:
            # visibility? then the trait identifier
            tname = first[-1][1:]
            tvis = "".join(_text(t) for t in first[:-1])
            lead = (tvis + " " + tname).strip()
        segs = segs[1:]
    elif target == "trait":
        if segs and len(segs[0]) >= 2 and segs[0][0] == "Ipub" and segs[0][-1][0] == "I" and not any(t.startswith("P=") for t in segs[0]):
            lead = "".join(_text(t) for t in segs[0][:-1]) + " " + segs[0][-1][1:]
            tname = segs[0][-1][1:]
            segs = segs[1:]
    elif target == "impl":
        if segs:
            first = list(segs[0])
            kws = []
            while first and first[0] in ("Iref", "Idyn"):
                kws.append(first.pop(0)[1:])
            if kws:
                implkind = "dyn"
                lead = " ".join(kws)
            segs = ([first] if first else []) + segs[1:]
    opts = []
    for s in segs:
        o = _opt(s)
        if o is None:
            return None
        opts.append(o)
    # a visibility relative to the place of the attribute (`pub(self)`, `pub(super)`, `pub(in self::a)`, `pub(in super::a)`):
    # head of the path and the rest of it, for the model's module-mode translation
    m = re.match(r"^pub\((?:in)?(self|super)((?:::.*)?)\)$", tvis)
    tvisp = {"head": m.group(1), "rest": m.group(2)} if m else {"head": "", "rest": ""}
    return {"lead": lead, "opts": opts, "trail": "," if trailing else "", "tvis": tvis, "tvisp": tvisp, "tname": tname, "implkind": implkind}


# ------------------------------------------------------------------------------------------------------------------
# abstract input
# ------------------------------------------------------------------------------------------------------------------

def _fn_abs(f):
    ngen = sum(1 for p in f["generics"]["params"] if p["kind"] in ("type", "const"))
    nparams = len(f["params"])
    first = f["first"]
    return {"name": f["name"], "vis": f.get("vis", ""), "async": f["async"],
            "first": {"wrap": first["wrap"], "base": first["base"], "nbounds": first["nbounds"], "basetext": first["basetext"] if "basetext" in first else ""},
            "nparams": nparams, "ngen": ngen, "ncfg": sum(1 for a in f["attrs"] if _says_cfg(a))}


def _recv(m):
    k = m["recv"]["kind"]
    return {"reflife": "ref"}.get(k, k)


def abstract_input(rec):
    """None when the record is outside the abstraction (reason in the second component)"""
    kind = rec["tok"]["input_kind"]
    if kind not in ("fn", "mod", "trait", "impl"):
        return None, "input kind " + kind
    a = split_attr(rec["attr"], kind)
    if a is None:
        return None, "attribute has no option-list shape"
    items = rec["in_items"]
    if len(items) != 1 or items[0]["k"] != kind:
        return None, "input does not parse as one " + kind
    it = items[0]
    base = {"target": kind, "variant": rec["macro"], "attr": {"lead": a["lead"], "opts": a["opts"], "trail": a["trail"]},
            "tvis": a["tvis"], "tvisp": a["tvisp"], "tname": a["tname"], "implkind": a["implkind"], "sub": [x["kind"] for x in it.get("attrs", [])],
            "fns": [], "items": [], "modname": "", "modvis": "", "delegname": "",
            "tr": {"name": "", "vis": "", "ngen": 0, "gargs": "", "supers": [], "nother": 0, "methods": []},
            "im": {"trait": "", "selfty": "", "targs": False}}
    for o in a["opts"]:
        if o["k"] == "delegate_by" and o["f"] == "eq":
            base["delegname"] = o["v"]
    if kind == "fn":
        base["fns"] = [_fn_abs(it)]
    elif kind == "mod":
        if not it["inline"]:
            return None, "out-of-line module"
        if "Iunsafe" in rec["input"][:rec["input"].index("Imod")]:
            return None, "unsafe module"
        base["modname"], base["modvis"] = it["name"], it["vis"]
        for sub in it["items"]:
            if sub["k"] == "fn":
                base["fns"].append(_fn_abs(sub))
                base["items"].append(_user_item_line(sub))
            else:
                base["items"].append(_user_item_line(sub))
    elif kind == "trait":
        gp = it["generics"]["params"]
        names = [p["name"] for p in gp]
        base["tr"] = {"name": it["name"], "vis": it["vis"], "ngen": len(gp), "gargs": ("<" + ",".join(names) + ">") if names else "",
                      "supers": [s.replace(" ", "") for s in it["supers"]], "nother": len(it["other_items"]),
                      "methods": [{"name": m["name"], "async": m["async"], "retfut": ("fut+send" if m["fut"]["send"] else "fut") if m["fut"] else "", "recv": _recv(m), "nparams": len(m["params"]), "nattrs": len(m["attrs"])}
                                  for m in it["methods"]]}
    else:
        if it["inherent"]:
            return None, "inherent impl"
        base["im"] = {"trait": it["trait"], "selfty": it["self_ty"].replace(" ", ""), "targs": bool(it.get("trait_args"))}
        for m in it["methods"]:
            base["fns"].append(_fn_abs(m))
        if it["other_items"]:
            return None, "impl block with non-fn items"
    return base, ""


# ------------------------------------------------------------------------------------------------------------------
# observed shape
# ------------------------------------------------------------------------------------------------------------------

def _attr_tok(a):
    k = a["kind"]
    if k not in OWNED:
        return None
    t = k + ("?" if a["gated"] else "")
    args = a["args"].replace(" ", "")
    if k == "unimock":
        t += "(" + ("api[]" if "api=[" in args else "api" if "api=" in args else "") + ("+unmock" if "unmock_with=" in args else "") + ")"
    if k == "entrait":
        t += "(" + args + ")"
    return t


def _attrs(attrs):
    return ",".join(t for t in (_attr_tok(a) for a in attrs) if t)


def _mline(m, in_impl):
    # the parameter the macro inserts: the first typed one, called `__impl`, of type [&]::entrait::Impl<EntraitT>
    # (a parameter of the user's may be called `__impl` too)
    implp = bool(m["params"]) and m["params"][0].get("name") == "__impl" and "Impl <" in m["params"][0].get("ty", "")
    nparams = len(m["params"]) - (1 if implp else 0)
    if m["async"]:
        form = "async"
    elif m["fut"]:
        form = "fut+send" if m["fut"]["send"] else "fut"
    else:
        form = "sync"
    if in_impl and not m["async"]:
        form = "sync"
    return f"{m['name']}({_recv(m)}{'+__impl' if implp else ''},{nparams}){form}#{len(m['attrs'])}"


def _call(c):
    if c["kind"] == "fn":
        args = [x.replace(" ", "") for x in c["args"]]
        first = args[0] if args and args[0] in ("self", "__impl") else "-"
        callee = c["callee"]
        if callee.startswith("<") and "::Target" in callee:
            k = "Target"
        elif callee.startswith("Self::"):
            k = "Self::fn"
        else:
            k = "fn"
        return f"=>{k}({first},{len(args) - (first != '-')})" + (".await" if c["await"] else "")
    if c["kind"] == "method":
        via = c["via"]
        args = [x.replace(" ", "") for x in c["args"]]
        first = args[0] if args and args[0] == "self" else "-"
        sync = "+Sync" if "+::core::marker::Sync>" in via else ""
        inner = "<::entrait::Impl<EntraitT>as::core::convert::AsRef<EntraitT>>::as_ref(self)"
        if via == inner:
            k = "Impl::as_ref"
        elif via == "::entrait::Impl::<EntraitT>::into_inner(self)":
            k = "Impl::into_inner"
        elif via.startswith("<EntraitTas::core::convert::AsRef<dyn") and via.endswith(">>::as_ref(" + inner + ")"):
            k = "Impl::as_ref>AsRef-dyn"
        elif via.startswith("<EntraitTas::core::borrow::Borrow<dyn") and via.endswith(">>::borrow(" + inner + ")"):
            k = "Impl::as_ref>Borrow-dyn"
        elif via in ("self.as_ref()", "self.into_inner()", "self.as_ref().as_ref()", "self.as_ref().borrow()"):
            k = "method-syntax:" + via          # at the mercy of the traits in scope
        elif "::core::convert::AsRef<dyn" in via and via.endswith("::as_ref(&*self)"):
            k = "AsRef-dyn" + sync
        elif "::core::borrow::Borrow<dyn" in via and via.endswith("::borrow(&*self)"):
            k = "Borrow-dyn" + sync
        else:
            k = "?" + via
        return f"=>{k}({first},{len(args) - (first != '-')})" + (".await" if c["await"] else "")
    return "=>?" + c.get("text", "")[:60]


def _trait_line(t):
    methods = " ; ".join(_mline(m, False) for m in t["methods"])
    return (f"trait {t['vis']} {t['name']} [{_attrs(t['attrs'])}] <{len(t['generics']['params'])}> :"
            f"{'+'.join(s.replace(' ', '') for s in t['supers'])} {{ {methods} }}")


def _impl_line(i):
    if i["inherent"]:
        kinds = ",".join(a["kind"] for a in i["attrs"])
        return f"inherent {i['self_ty'].replace(' ', '')} [{kinds}] {{ {' ; '.join(m['name'] for m in i['methods'])} }}"
    sc = i["self_class"]
    self = sc if sc in ("blanket", "implT") else "concrete:" + i["self_ty"].replace(" ", "")
    app = "+".join(b.replace(" ", "") for b in i["app_bounds"])
    methods = " ; ".join(_mline(m, True) + _call(m["call"]) for m in i["methods"])
    return f"impl {i['trait']}<{len(i['trait_args'])}> for {self} [{_attrs(i['attrs'])}] app:{app} self:{len(i['self_bounds'])} {{ {methods} }}"


def _user_item_line(it):
    if it["k"] == "fn":
        return f"fn {it['vis']} {it['name']}"
    return "item"


def _line(it, top=True):
    k = it["k"]
    if k == "fn":
        return ["fn " + it["name"]] if top else [_user_item_line(it)]
    if k == "trait":
        return [_trait_line(it)]
    if k == "impl":
        return [_impl_line(it)]
    if k == "use":
        return [f"use {it['vis']} {it['path']}"]
    if k == "mod":
        inner = it["items"]
        out = [f"mod {it['vis']} {it['name']} {{"]
        user, gen = (inner[:-2], inner[-2:]) if len(inner) >= 2 else (inner, [])
        out += ["  " + _user_item_line(x) for x in user]
        for g in gen:
            out += ["  " + l for l in _line(g, top=False)]
        out.append("}")
        return out
    if k == "macro":
        return ["error"] if it["path"].endswith("compile_error") else ["item"]
    return ["item"]


def observed_lines(rec):
    if rec["panic"] is not None:
        return ["panic"]
    if rec["errors"]:
        return ["error"]
    if not rec["parse_ok"]:
        return ["unparseable"]
    out = []
    for it in rec["items"]:
        out += _line(it)
    return out


# ------------------------------------------------------------------------------------------------------------------
# validation
# ------------------------------------------------------------------------------------------------------------------

def validate(chk, recs, label, max_report=8):
    """recs: projected hook records.  Returns statistics; reports drift through vf.log."""
    events, skipped = [], {}
    meta = {}
    for n, r in enumerate(recs):
        ain, why = abstract_input(r)
        if ain is None:
            skipped[why] = skipped.get(why, 0) + 1
            continue
        cid = f"{n:06d}"
        events.append({"case": cid, "inp": ain, "obs": observed_lines(r)})
        meta[cid] = r
    if not events:
        return {"records": len(recs), "validated": 0, "skipped": skipped, "drift": 0}
    bad, drift = vf.validate(chk, "Trace_Expand", events, timeout=2400, name="Trace_Expand-" + label)
    if bad:
        raise vf.ToolError("Trace_Expand reported `bad` records; it only ever reports drift")
    ev = {e["case"]: e for e in events}
    for d in drift[:max_report]:
        r = meta[d["case"]]
        vf.log(f"SPEC-DRIFT Expand[{label}] {r['file']}:{r['line']} #[{r['macro']}({r['attr_text']})]")
        pred = d.get("pred", [])
        obs = ev[d["case"]]["obs"]
        for k in range(max(len(pred), len(obs))):
            p = pred[k] if k < len(pred) else "<nothing>"
            o = obs[k] if k < len(obs) else "<nothing>"
            if p != o:
                vf.log(f"    model : {p}")
                vf.log(f"    code  : {o}")
    return {"records": len(recs), "validated": len(events), "skipped": skipped, "drift": len(drift),
            "by_target": {t: sum(1 for e in events if e["inp"]["target"] == t) for t in ("fn", "mod", "trait", "impl")}}


def model_check(chk, thorough=False):
    """TLC on the bounded pipeline model (design-level invariants of the expansion's structure)"""
    specdir = vf._spec_copy(chk.work)
    if thorough:
        import os
        path = os.path.join(specdir, "MC_Expand.cfg")
        with open(path) as f:
            txt = f.read().replace("MaxFns = 1", "MaxFns = 2")
        with open(path, "w") as f:
            f.write(txt)
    res = vf.run_tlc(chk.work, "MC_Expand", workers=8, timeout=1800, heap="8g")
    if res["invariant_violated"]:
        raise vf.ToolError(f"MC_Expand: the pipeline model violates one of its design invariants (see {res['log']})")
    vf.need_ok(res, "MC_Expand")
    chk.add_tlc(res, "MC_Expand")
    chk.vacuity(res, ["ParseItem", "ParseAttr", "GenerateItems", "RenderLines"])
    return res


def conformance(chk, recs, label):
    """validate + bookkeeping in the check's evidence"""
    st = validate(chk, recs, label)
    chk.cov.setdefault("pipeline_model_conformance", {})[label] = st
    chk.cov["drift"] += st["drift"]
    return st
